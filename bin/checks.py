"""Per-property check configuration for bin/check.

Each property has one or more stages; a stage is one Go test function in one harness package,
run as N shards (processes) with a fixed number of rapid cases per shard.
"""

CHECKS = {
    "C11": {
        "level": "exploration",
        "claim": ("Generated-input search with an independent reference codec: exhaustive over all 65536 channel numbers x "
                  "small payload lengths and header/length relations and over every raw attribute length 0..64, random over "
                  "the rest of the domain (payloads to 65535 bytes, all attribute value classes). Both directions are checked "
                  "separately against a hand-written codec, so a symmetric encode/decode error is caught. Held-on-everything-"
                  "explored, not a proof."),
        "level_note": ("Trusted: the reference codec in harness/ref (written from the RFCs), pion/stun's message envelope "
                       "decoder (outside the repository). Values are decoded into fresh zero values."),
        "technique": "property-based testing: exhaustive sweeps + rapid generators against an independent reference codec (two one-directional differentials)",
        "rule": ("cases are (a) exhaustive sweeps: every channel number x payload lengths 0..8 (+1499..1501 thorough), "
                 "every number x header/actual-length relation, every raw value length 0..64 x 4 variants under each "
                 "attribute, all 256 protocol/family bytes; (b) rapid-generated codec cases over the full domain. "
                 "Every case is checked against an independent hand-written codec in both directions. A case counts as "
                 "non-trivial when it is distinct by the hash of (kind, number, payload, raw bytes, attribute, value); "
                 "none of them is a fixed vector of the repository's tests."),
        "assumptions": [],
        "stages": [
            {"name": "codec", "pkg": "pure", "run": "^TestC11$",
             "quick": {"shards": 4, "checks": 20000, "timeout_s": 300},
             "thorough": {"shards": 16, "checks": 300000, "timeout_s": 1500}},
        ],
    },
}

CHECKS["C10"] = {
    "level": "exploration",
    "claim": ("Generated-input search against a reference stream framer written from RFC 5766 §11.5/RFC 5389 §6: random frame "
              "sequences (every STUN body length class, ChannelData payloads 0..72, 1400..1600, 65528..65535, payloads that "
              "start with the STUN cookie) under random / byte-wise / single / double cut segmentations, plus exhaustive "
              "enumeration of every 1- and 2-cut segmentation of 18 short sequences and of the ConnectionBind replies. "
              "Oracles: exact frame equality, promptness (no Read past a frame's last byte), progress (n>=1), garbage never "
              "returned as data, BindConnection verdict and consumed bytes independent of segmentation."),
    "level_note": ("Trusted: the reference framer (harness/ref.NextFrame). Buffers handed to ReadFrom are >= 65600 bytes. "
                   "Held on everything explored; no absence claim."),
    "technique": "property-based testing: rapid-generated frame sequences x segmentations vs. a reference framer (differential + metamorphic), exhaustive small-stream partitions; native fuzzing in the thorough tier",
    "rule": ("a case is a frame sequence + cut list (+ optional garbage tail), or a ConnectionBind reply + cut list; non-trivial = "
             ">=2 frames with a cut strictly inside a frame header or inside padding, or a ChannelData frame with payload < 5 "
             "bytes, or a declared length >= 0xFFE8, or a payload starting with the STUN magic cookie, or (bind) at least one "
             "cut; distinct by hash of frames+cuts+tail"),
    "assumptions": [],
    "stages": [
        {"name": "framer", "pkg": "pure", "run": "^TestC10$",
         "quick": {"shards": 4, "checks": 12000, "timeout_s": 300},
         "thorough": {"shards": 16, "checks": 150000, "timeout_s": 1500}},
    ],
}

_NOT_BUILT = "check not built yet in this round (planned, see DESIGN.md section 4)"
PENDING = {("C%02d" % i): _NOT_BUILT for i in range(1, 21)}
