"""Per-property check configuration for bin/check.

Each property has one or more stages; a stage is one Go test function in one harness package,
run as N shards (processes) with a fixed number of rapid cases per shard.
"""

CHECKS = {
    "C11": {
        "level": "exploration",
        "claim": ("Generated-input search with an independent reference codec: exhaustive over all 65536 channel numbers x "
                  "small payload lengths and header/length relations and over every raw attribute length 0..64, random over "
                  "the rest of the domain (payloads to 65535 bytes, all attribute value classes). Both directions are checked "
                  "separately against a hand-written codec, so a symmetric encode/decode error is caught. Held-on-everything-"
                  "explored, not a proof."),
        "level_note": ("Trusted: the reference codec in harness/ref (written from the RFCs), pion/stun's message envelope "
                       "decoder (outside the repository). Values are decoded into fresh zero values."),
        "technique": "property-based testing: exhaustive sweeps + rapid generators against an independent reference codec (two one-directional differentials)",
        "rule": ("cases are (a) exhaustive sweeps: every channel number x payload lengths 0..8 (+1499..1501 thorough), "
                 "every number x header/actual-length relation, every raw value length 0..64 x 4 variants under each "
                 "attribute, all 256 protocol/family bytes; (b) rapid-generated codec cases over the full domain. "
                 "Every case is checked against an independent hand-written codec in both directions. A case counts as "
                 "non-trivial when it is distinct by the hash of (kind, number, payload, raw bytes, attribute, value); "
                 "none of them is a fixed vector of the repository's tests."),
        "assumptions": [],
        "stages": [
            {"name": "codec", "pkg": "pure", "run": "^TestC11$",
             "quick": {"shards": 4, "checks": 20000, "timeout_s": 300},
             "thorough": {"shards": 16, "checks": 300000, "timeout_s": 1500}},
        ],
    },
}

CHECKS["C10"] = {
    "level": "exploration",
    "claim": ("Generated-input search against a reference stream framer written from RFC 5766 §11.5/RFC 5389 §6: random frame "
              "sequences (every STUN body length class, ChannelData payloads 0..72, 1400..1600, 65528..65535, payloads that "
              "start with the STUN cookie) under random / byte-wise / single / double cut segmentations, plus exhaustive "
              "enumeration of every 1- and 2-cut segmentation of 18 short sequences and of the ConnectionBind replies. "
              "Oracles: exact frame equality, promptness (no Read past a frame's last byte), progress (n>=1), garbage never "
              "returned as data, BindConnection verdict and consumed bytes independent of segmentation. One case in four reads with "
              "a buffer of 24..4096 bytes (the server reads with its InboundMTU): a frame that does not fit must be consumed whole, "
              "hand over its head and be recognisable as oversize; transient read errors inside a frame must lose nothing."),
    "level_note": ("Trusted: the reference framer (harness/ref.NextFrame). Buffers handed to ReadFrom are >= 24 bytes. "
                   "Held on everything explored; no absence claim."),
    "technique": "property-based testing: rapid-generated frame sequences x segmentations vs. a reference framer (differential + metamorphic), exhaustive small-stream partitions; native fuzzing in the thorough tier",
    "rule": ("a case is a frame sequence + cut list (+ optional garbage tail), or a ConnectionBind reply + cut list; non-trivial = "
             ">=2 frames with a cut strictly inside a frame header or inside padding, or a ChannelData frame with payload < 5 "
             "bytes, or a declared length >= 0xFFE8, or a payload starting with the STUN magic cookie, or (bind) at least one "
             "cut; distinct by hash of frames+cuts+tail"),
    "assumptions": [],
    "stages": [
        {"name": "framer", "pkg": "pure", "run": "^TestC10$",
         "quick": {"shards": 4, "checks": 12000, "timeout_s": 300},
         "thorough": {"shards": 16, "checks": 150000, "timeout_s": 1500}},
    ],
}

def _srv(pid, claim, rule, note, quick_checks=3000, thorough_checks=12000, size=80, extra_assumptions=None):
    return {
        "level": "exploration",
        "claim": claim,
        "level_note": note,
        "technique": "stateful property-based testing (rapid-generated scripts, shrinking) of the real turn.Server under virtual time (testing/synctest) over an in-memory network, judged by the reference model M-server and wire-log monitors",
        "rule": rule,
        "assumptions": extra_assumptions or [],
        "stages": [
            {"name": "world", "pkg": "srvworld", "run": "^Test%s$" % pid,
             "quick": {"shards": 4, "checks": quick_checks, "timeout_s": 420},
             "thorough": {"shards": 16, "checks": thorough_checks, "size": size, "timeout_s": 2400}},
        ],
    }


_SRV_NOTE = ("Trusted: simnet (harness/sim), the reference model (harness/srvworld/model.go), the hand-written STUN codec "
             "(harness/ref). Library state listings are read through reflection by type and used only as cross-checks. "
             "Bounded search: script length, actors and case count; no absence claim.")

CHECKS["C01"] = _srv(
    "C01",
    "Generated multi-client histories (Allocate/Refresh/CreatePermission/ChannelBind/Send/ChannelData/sleeps placed 1-2 s "
    "before and after model deadlines, vetoed and wrong-family peers, same-IP-other-port peers, other clients' channel numbers) "
    "against a real server; after every step every datagram that left any relay socket must be the one the model authorises "
    "(right relay socket, right peer, caused by this step), and refused CreatePermission/ChannelBind must leave no permission "
    "or binding in the library's own listing.",
    "a case is a script (config + steps); non-trivial = the client holds an allocation and the script contains at least one "
    "emission probe the model says must be dropped and at least one it says must be relayed; distinct by hash of the script",
    _SRV_NOTE)

CHECKS["C02"] = _srv(
    "C02",
    "Generated histories weighted toward peer->relay datagrams from every pool address (same IP other port, other IP same port, "
    "vetoed, other family, strangers) at instants on both sides of permission/channel/allocation deadlines; after each peer "
    "datagram the set of messages at ALL client endpoints must be exactly one message at the owner iff the model holds a live "
    "permission for the sender's IP or a live binding for its exact address, and nothing anywhere otherwise.",
    "non-trivial = at least one unauthorised arrival while another authorisation is live in the same allocation, and at least one "
    "authorised arrival; distinct by script hash",
    _SRV_NOTE + " The TCP-allocation (connection) part of the statement has its own stage in the TCP-relay world.")

CHECKS["C04"] = _srv(
    "C04",
    "2-4 scripted clients with colliding attributes (same IP other port, same user on several 5-tuples, identical channel numbers, "
    "peers, reused transaction ids) interleave requests and data; after every step only the acting client's model state and "
    "library listing may change, responses go only to the requester, relayed traffic only to the owner of the relayed address, "
    "AllocationCount equals the number of live 5-tuples and a second Allocate gets 437. Relational (metamorphic) form on top: the "
    "history is projected onto one client (all other clients' steps removed, elapsed time kept), re-run in a fresh world, and "
    "that client's normalised observation log (responses, indications, ChannelData, emissions of its relay) must be identical. "
    "One world in six (of those with IPv6) is a dual-stack wildcard listener serving IPv4 clients and IPv6 clients whose address bytes "
    "coincide with an IPv4 client's (same ports). Stage allocation-key: FiveTuple.Fingerprint/Equal agree with equality of (client "
    "endpoint, server endpoint, transport) on generated pairs related by representation (4-byte / IPv4-mapped), byte coincidences "
    "between the families, single-bit and port-byte changes, address type and protocol. Stage tcp-isolation: the TCP-relay world.",
    "non-trivial = >=2 clients hold allocations and at least one cross-probe (other client's channel number, reused transaction id, "
    "other user's credentials on a live 5-tuple, a 437, or an unauthorised peer arrival while another authorisation is live)",
    _SRV_NOTE)

CHECKS["C05"] = _srv(
    "C05",
    "Payload lengths 0..72, 1400..1700 (dense around 1500/1600), powers of two +-1 up to 65507, contents that look like STUN / "
    "ChannelData headers, both directions, both encapsulations, generated InboundMTU; multiset oracle: every authorised datagram "
    "arrives exactly once and byte-identical (or, only when above the documented size limits, not at all), with truthful "
    "XOR-PEER-ADDRESS / channel number and the relayed address as source; ChannelData length field and zero padding checked.",
    "non-trivial = relayed (not dropped) and the payload length is not a multiple of 4, or within the 1480..1720 buffer zone, or "
    "the content imitates a TURN header",
    _SRV_NOTE + " Stream (TCP control connection) transport between client and server is covered by the C10 framer check and the C16 world.",
    quick_checks=2500, thorough_checks=8000, size=50)

CHECKS["C06"] = _srv(
    "C06",
    "LIFETIME classes (absent, 0, 1, 59..61, 599..601, 3599..3601, 86400, 2^31, 2^32-1, random) x configured defaults x refresh "
    "chains, with sleeps placed 1-2 s before and after the model deadline (tie-free virtual clock); granted LIFETIME must follow "
    "the documented rule, the allocation must refresh/relay/count before the deadline and be gone after it (no success, nothing "
    "relayed, relay socket closed, AllocationCount dropped, nothing carried over to a re-Allocate).",
    "non-trivial = at least one successful refresh and probes on both sides of an allocation deadline",
    _SRV_NOTE)

CHECKS["C07"] = _srv(
    "C07",
    "Independent permission/channel timeouts, install/refresh sequences by CreatePermission and ChannelBind, probes in both "
    "directions 1-2 s before and after each entry's model deadline, re-binds after expiry; library listings must equal the model "
    "after every step (a refused request must install nothing, a successful one restarts the full timeout). Refreshes are also sent "
    "at the exact instant an entry expires (either order of request and timer is accepted, but success must leave an entry that "
    "lasts a full timeout). Stage permission-key: the map keys of permissions and the peer comparison of bindings are injective.",
    "non-trivial = some entry is refreshed at least once and probed on both sides of a permission or channel deadline",
    _SRV_NOTE)

CHECKS["C08"] = _srv(
    "C08",
    "ChannelBind-heavy histories over a channel slot pool covering every number class (range edges 0x3FFF/0x4000/0x7FFF/0x8000, "
    "0, 1, 0xFFFF) and peers differing only in port, in 1-3 allocations; success iff in range and conflict-free, both conflict "
    "kinds and out-of-range must be 400 and change nothing; ListChannelBindings must be injective both ways, in range and equal to "
    "the model after every step; every ChannelData reaching a client carries the number bound to the true source.",
    "non-trivial = at least one accepted bind and at least one conflict of either kind or an out-of-range attempt",
    _SRV_NOTE)

CHECKS["C15"] = _srv(
    "C15",
    "Histories with every teardown cause (expiry, Refresh 0, relay socket read error, Server.Close) injected at generated points, "
    "slow lifecycle callbacks (virtual sleeps), coincident timeouts; at every quiescent point the open relay sockets handed out by "
    "the harness generator must be exactly those of the model's live allocations, AllocationCount must match, and created/deleted "
    "callbacks must pair one-to-one with the model's live objects.",
    "non-trivial = a teardown happens in a history that created at least one permission and one channel",
    _SRV_NOTE + " Every teardown history ends with Server.Close and two quiet virtual hours (no log line, no event, all sockets closed, bubble drains); TCP allocations have their own stage.")

CHECKS["C19"] = _srv(
    "C19",
    "Every response the listener writes is matched against the request delivered in that step: destination = request source, same "
    "transaction id and method, at most one; Binding/Allocate mapped address = true source (IPv4 and IPv6 listeners); Allocate "
    "success: LIFETIME rule, relayed address = a socket bound for this request, open, unshared; EVEN-PORT/RESERVATION-TOKEN; "
    "retransmitted Allocate = identical attributes and unchanged state; different transaction id = 437 and unchanged state.",
    "non-trivial = >=2 clients, at least one error path and at least one retransmitted or 437 Allocate",
    _SRV_NOTE)

CHECKS["C03"] = _srv(
    "C03",
    "Each request method x server state x credential defect (no MESSAGE-INTEGRITY, wrong/other user's password, unknown user, "
    "truncated/extended/bit-flipped HMAC, message altered after signing, missing USERNAME/REALM/NONCE, random/forged/bit-mutated/"
    "expired/other-instance nonce, no auth handler, other user's valid credentials on a live 5-tuple): the state fingerprint "
    "(AllocationCount, listings, events, open relay sockets) must be unchanged, the response never success, 401/438 challenges "
    "must carry the configured realm and a nonce that is accepted when used immediately.",
    "non-trivial = a defective request was judged in a history in which an allocation exists",
    _SRV_NOTE + " Cryptographic forgery is out of scope; MAC collisions are not searched.")
CHECKS["C02"]["stages"].append(
    {"name": "tcp-inbound", "pkg": "srvworld", "run": "^TestC02TCP$",
     "quick": {"shards": 2, "checks": 2000, "timeout_s": 420},
     "thorough": {"shards": 8, "checks": 6000, "size": 40, "timeout_s": 2400}})
CHECKS["C15"]["stages"].append(
    {"name": "tcp-teardown", "pkg": "srvworld", "run": "^TestC15TCP$",
     "quick": {"shards": 2, "checks": 2000, "timeout_s": 420},
     "thorough": {"shards": 8, "checks": 6000, "size": 40, "timeout_s": 2400}})
CHECKS["C05"]["stages"].append(
    {"name": "client-stream-e2e", "pkg": "cliworld", "run": "^TestC05ClientStream$",
     "quick": {"shards": 2, "checks": 150, "timeout_s": 400},
     "thorough": {"shards": 8, "checks": 3000, "timeout_s": 2000}})
CHECKS["C15"]["stages"].append(
    {"name": "tls-listener-teardown", "pkg": "srvworld", "run": "^TestC15TLS$",
     "quick": {"shards": 2, "checks": 120, "timeout_s": 400},
     "thorough": {"shards": 8, "checks": 2000, "timeout_s": 2000}})
CHECKS["C04"]["stages"].append(
    {"name": "tcp-isolation", "pkg": "srvworld", "run": "^TestC04TCP$",
     "quick": {"shards": 2, "checks": 2000, "timeout_s": 420},
     "thorough": {"shards": 8, "checks": 6000, "size": 40, "timeout_s": 2400}})
for _pid in ("C01", "C02", "C07"):
    CHECKS[_pid]["stages"].append(
        {"name": "permission-key", "pkg": "pure", "run": "^TestAddrKey$",
         "quick": {"shards": 2, "checks": 1000, "timeout_s": 300},
         "thorough": {"shards": 8, "checks": 10000, "timeout_s": 1200}})
CHECKS["C04"]["stages"].append(
    {"name": "two-transports", "pkg": "srvworld", "run": "^TestC04Transports$",
     "quick": {"shards": 2, "checks": 1500, "timeout_s": 300},
     "thorough": {"shards": 8, "checks": 10000, "timeout_s": 1500}})
CHECKS["C04"]["stages"].append(
    {"name": "allocation-key", "pkg": "pure", "run": "^TestC04Fingerprint$",
     "quick": {"shards": 2, "checks": 2000, "timeout_s": 300},
     "thorough": {"shards": 8, "checks": 20000, "timeout_s": 1200}})
CHECKS["C03"]["stages"].append(
    {"name": "nonce-managers", "pkg": "pure", "run": "^TestC03Nonce$",
     "quick": {"shards": 2, "checks": 600, "timeout_s": 300},
     "thorough": {"shards": 8, "checks": 10000, "timeout_s": 1500}})
CHECKS["C03"]["stages"].append(
    {"name": "tcp-ownership", "pkg": "srvworld", "run": "^TestC03TCP$",
     "quick": {"shards": 2, "checks": 2000, "timeout_s": 420},
     "thorough": {"shards": 8, "checks": 6000, "size": 40, "timeout_s": 2400}})

CHECKS["C20"] = {
    "level": "exploration",
    "claim": ("The three bundled generators run on simnet's transport.Net with a scripted random source: generated (MinPort, MaxPort, "
              "MaxRetries, IPv4/IPv6, wildcard/specific listen address, pre-occupied ports) configurations and allocate/close "
              "histories, plus the exhaustive edge grid of ranges of width <= 8 (incl. MaxPort = 65535 and single-port ranges) x "
              "every draw. Oracles: fresh open socket, advertised IP/port truthful, requested port honoured, every bind attempt and "
              "result inside [MinPort, MaxPort] and equal to MinPort+draw over a draw of exactly the range width, no shared port, "
              "clean failure (nothing left open) when the range is full, Intn never called with n <= 0. Histories also call the allocation "
              "manager's even-port selection on top of the generator (EVEN-PORT requests): even, inside the range, not in use, nothing "
              "left open. simnet models SO_REUSEPORT (which the generators ask for on TCP listeners); the resulting shared TCP relay "
              "port is a recorded known finding."),
    "level_note": "Trusted: simnet's bind semantics (a port in use cannot be bound again unless both sockets carry the sharing option).",
    "technique": "property-based testing: rapid-generated configurations and allocate/close histories + exhaustive edge grid, validity predicates over results and over every bind attempt",
    "rule": ("a case is a generator configuration + op history; non-trivial = range width <= 4 or MaxPort = 65535 or pre-occupied "
             "ports (range generator), >= 2 ops (static / pass-through); distinct by hash of the case"),
    "assumptions": [],
    "stages": [
        {"name": "generators", "pkg": "pure", "run": "^TestC20$",
         "quick": {"shards": 2, "checks": 15000, "timeout_s": 300},
         "thorough": {"shards": 16, "checks": 150000, "timeout_s": 1500}},
    ],
}

CHECKS["C17"] = {
    "level": "exploration",
    "claim": ("Both credential generators and their handlers under the bubble's virtual clock: generated secrets, user names "
              "(with ':', empty, unicode), realms and durations (negative, 0 .. 10 years), generation at a sub-second offset, "
              "validation at every whole second in [expiry-5, expiry+5] plus drawn instants; every single-character substitution, "
              "insertion and deletion of username and password; passwords from another secret / another username. Oracles "
              "independent of the library: expiry = floor(now+duration), password = base64(HMAC-SHA1(secret, username)), key = "
              "MD5(username:realm:password), ok <=> instant <= expiry."),
    "level_note": "Trusted: crypto/hmac, crypto/sha1, crypto/md5 of the Go standard library; virtual clock of testing/synctest. End-to-end authentication through a real server and client is exercised by the C14 world with generated credentials.",
    "technique": "property-based testing under virtual time: rapid-generated credential scenarios, exhaustive single-character mutations, reference recomputation of password and key",
    "rule": "a case is (kind, secret, user, realm, duration, offset, probe instants); non-trivial = the probe window contains instants at which the credential is valid (duration >= -5 s); distinct by hash of the case",
    "assumptions": [],
    "stages": [
        {"name": "credentials", "pkg": "pure", "run": "^TestC17$",
         "quick": {"shards": 4, "checks": 1500, "timeout_s": 300},
         "thorough": {"shards": 16, "checks": 20000, "timeout_s": 1500}},
        {"name": "concurrent-handler", "pkg": "pure", "run": "^TestC17Concurrent$", "race": True,
         "quick": {"shards": 1, "checks": 1, "timeout_s": 300},
         "thorough": {"shards": 2, "checks": 1, "timeout_s": 900}},
    ],
}

CHECKS["C12"] = {
    "level": "exploration",
    "claim": ("Real turn.Client inside a virtual-time bubble against scripted servers (one per transaction): generated RTO (1 ms .. 1.6 s, "
              "default), loss pattern over the 7 transmissions, response to any transmission after any delay, wrong-id-first / duplicate / "
              "late / other-source responses, 1-4 concurrent transactions (SendBindingRequestTo, PerformTransaction with and without "
              "ignoreResult), Close at a drawn instant, socket write failure on any transmission; the 2^7 loss subsets x response position "
              "are enumerated (all in thorough). Oracles: request datagrams at exactly the reference timetable's instants and never after "
              "completion, return instant and value (first response with the request's id, or error), no datagram and no table entry left "
              "afterwards, the bubble drains (no hang)."),
    "level_note": "Trusted: simnet, the reference timetable M-rtx, testing/synctest's virtual clock. Transaction table size is read by reflection (by type); if unreachable the sub-oracle is skipped and reported.",
    "technique": "property-based testing under virtual time: rapid-generated loss/response/fault schedules against a reference retransmission timetable; exhaustive loss subsets",
    "rule": "a case is (RTO, transactions with loss pattern/response plan/faults, close instant); non-trivial = at least one lost transmission together with a response to a retransmission, a wrong-id/duplicate/late response, a Close or a write error; distinct by hash",
    "assumptions": [],
    "stages": [
        {"name": "transactions", "pkg": "cliworld", "run": "^TestC12$",
         "quick": {"shards": 4, "checks": 4000, "timeout_s": 400},
         "thorough": {"shards": 16, "checks": 40000, "timeout_s": 2400}},
        {"name": "coincidences", "pkg": "cliworld", "run": "^TestC12Ties$",
         "quick": {"shards": 4, "checks": 1500, "timeout_s": 400},
         "thorough": {"shards": 16, "checks": 20000, "timeout_s": 2400}},
    ],
}

CHECKS["C16"] = {
    "level": "exploration",
    "claim": ("Real turn.Server with a stream listener; scripted stream clients (raw STUN over simnet TCP), TCP allocations, listening / "
              "refusing / operator-denied TCP peers, inbound peer connections with and without permission, ConnectionBind on fresh data "
              "connections with right/unknown/repeated/late ids and right/wrong users and owners, sleeps of 28..32 s around the bind deadline, "
              "byte streams both ways with generated segmentation, closes from either side and of the control connection. Oracles: unique "
              "connection ids, a real peer connection from the relayed address behind every id, ConnectionAttempt only for permitted "
              "senders, bind succeeds iff known/unbound/owner's user/within 30 s and at most once, unbound connections closed after the "
              "deadline, exact stream equality in both directions, close propagation, 446 on duplicate Connect, and after every step the "
              "manager's mutexes are free (TryLock probe) and a Binding probe on every control connection is answered. Stage client-e2e: pion's "
              "own client (TCPAllocation.DialTCP / AcceptTCP / TCPConn over a STUNConn control connection) against the real server: generated "
              "sequences of outbound dials, inbound peer connections (with data the peer sends before the client has bound), writes of 1 B.."
              "70 kB from either end in generated segmentations with contents that imitate TURN framing, closes from either end and sleeps; "
              "every relayed connection must deliver exactly the bytes written, in order, and name the right peer."),
    "level_note": _SRV_NOTE + " The lock probe reaches the manager's mutexes by reflection over field types.",
    "technique": "stateful property-based testing (rapid scripts + shrinking) of the real server under virtual time over an in-memory TCP network, reference model of RFC 6062 connection state, lock-at-quiescence probe",
    "rule": "non-trivial = at least one successful ConnectionBind with bytes relayed in both directions and at least one rejected/late/duplicate/unknown operation; distinct by hash of the script",
    "assumptions": [],
    "stages": [
        {"name": "tcpworld", "pkg": "srvworld", "run": "^TestC16$",
         "quick": {"shards": 4, "checks": 2500, "timeout_s": 420},
         "thorough": {"shards": 16, "checks": 10000, "size": 50, "timeout_s": 2400}},
        {"name": "client-e2e", "pkg": "cliworld", "run": "^TestC16Client$",
         "quick": {"shards": 4, "checks": 600, "timeout_s": 420},
         "thorough": {"shards": 16, "checks": 5000, "timeout_s": 2400}},
    ],
}

CHECKS["C09"] = {
    "level": "exploration",
    "claim": ("Hostile inputs in three families - random bytes, mutations of valid messages (bit flips, truncation at every offset, length-"
              "field edits, attribute length overrun, duplicated/reordered attributes, unknown comprehension-required attributes, wrong-"
              "sized attribute values, every method x class pair; the structured ones signed correctly so that post-authentication code is "
              "reached) and structural extremes (ChannelData header grid, stream headers with declared lengths 0xFFE8..0xFFFF) - delivered "
              "in every world state to the UDP listener, as arbitrary segmentations to the stream listener, and to Client.HandleInbound "
              "from the server, the STUN server and strangers. Oracles: the process survives, every step reaches quiescence, whatever the "
              "server answers is well-formed and goes to the sender, HandleInbound returns the documented (handled, error) class and never "
              "(false, err), and a liveness probe afterwards is served (Binding from the same and from a fresh source, existing "
              "allocations still refresh and relay, a new control connection is accepted, the client completes a transaction)."),
    "level_note": _SRV_NOTE + " The TLS/DTLS record layers are outside the repository and are not fuzzed themselves; the tls-listener stage puts a real crypto/tls listener over simnet in front of the server and delivers stalled, truncated and garbage handshakes and post-handshake garbage (the bytes inside the TLS stream otherwise go through the readLoop/STUNConn path that the TCP stage exercises). DTLS listeners are not exercised. A busy loop that neither logs nor consumes input shows up as a time-budget overrun (exit 2, inconclusive), not as a violation.",
    "technique": "property-based testing / fuzzing: seed-derived structured mutation of valid messages and header grids in generated world states, crash isolation by journaling, liveness probes; native go fuzz targets in the thorough tier",
    "rule": "non-trivial = the input passes the first demultiplexing test (looks like STUN or ChannelData) without being a valid message, or is delivered in a non-initial state (allocation / permission / channel / pending transaction exists); distinct by hash of the script",
    "assumptions": [],
    "stages": [
        {"name": "udp-listener", "pkg": "srvworld", "run": "^TestC09$",
         "quick": {"shards": 3, "checks": 2500, "timeout_s": 420},
         "thorough": {"shards": 16, "checks": 10000, "size": 50, "timeout_s": 2400}},
        {"name": "stream-listener", "pkg": "srvworld", "run": "^TestC09Stream$",
         "quick": {"shards": 3, "checks": 1500, "timeout_s": 420},
         "thorough": {"shards": 16, "checks": 8000, "size": 40, "timeout_s": 2400}},
        {"name": "tls-listener", "pkg": "srvworld", "run": "^TestC09TLS$",
         "quick": {"shards": 2, "checks": 150, "timeout_s": 400},
         "thorough": {"shards": 8, "checks": 2500, "timeout_s": 2000}},
        {"name": "client-inbound", "pkg": "cliworld", "run": "^TestC09Client$",
         "quick": {"shards": 3, "checks": 1500, "timeout_s": 420},
         "thorough": {"shards": 16, "checks": 20000, "timeout_s": 2400}},
        {"name": "client-responses", "pkg": "cliworld", "run": "^TestC09ClientResponses$",
         "quick": {"shards": 2, "checks": 400, "timeout_s": 400},
         "thorough": {"shards": 8, "checks": 8000, "timeout_s": 2000}},
        {"name": "client-stream", "pkg": "cliworld", "run": "^TestC09ClientStream$",
         "quick": {"shards": 2, "checks": 300, "timeout_s": 420},
         "thorough": {"shards": 8, "checks": 4000, "timeout_s": 2400}},
    ],
}

CHECKS["C14"] = {
    "level": "exploration",
    "claim": ("Real turn.Client and real turn.Server (with pion's static relay address generator) in one virtual-time bubble for 0.5-3 h "
              "(thorough: up to 12 h) of protocol time per case: generated server lifetimes/timeouts from the region compatible with the "
              "client's refresh intervals, generated client permission refresh interval and RTO, 1-4 peers, traffic patterns with idle "
              "gaps up to 2 h, and a fault script that makes the first 0..6 round trips of every STUN transaction fail (request or "
              "response lost), duplicates and delays control messages. At every probe instant one datagram each way per peer must arrive "
              "intact and exactly once, AllocationCount stays 1; after Close of the relayed socket AllocationCount is 0 and the relay socket "
              "closed; the bubble drains after closing client and server. Peers may join late (first write hours into the session), "
              "the application also writes to peers the server refuses (operator-denied address, IPv6 peer on an IPv4 allocation) - those "
              "writes may fail but must not disturb the other flows -, every peer host also sends from a second port the client never wrote "
              "to (a flow admitted by the per-IP permission alone, with no channel to hide an expired permission), bursts may start with the "
              "peers instead of the client, and a burst can be placed on the instant the nonce held by the client turns stale (read off the "
              "wire), with the client's timer phase against the server's minute-granular nonce clock generated as well. Also runs Allocate "
              "with generated time-windowed credentials (C17 end-to-end)."),
    "level_note": "Trusted: simnet, testing/synctest. The client's binding refresh/check intervals cannot be configured from outside the package and stay at their defaults (5 min / 30 s). 'Indefinitely' is explored as hours per case.",
    "technique": "property-based testing under virtual time with injected faults: rapid-generated configurations, traffic patterns and per-transaction loss schedules for a real client/server pair; delivery oracle on periodic probes",
    "rule": "non-trivial = protocol duration > 61 min (nonce horizon) or an idle gap > 10 min, and at least one transaction with lost round trips; distinct by hash of the case",
    "assumptions": [],
    "stages": [
        {"name": "session", "pkg": "cliworld", "run": "^TestC14$",
         "quick": {"shards": 4, "checks": 400, "timeout_s": 500},
         "thorough": {"shards": 16, "checks": 4000, "timeout_s": 3000}},
    ],
}

CHECKS["C13"] = {
    "level": "exploration",
    "claim": ("Real turn.Client and its relayed UDPConn (and TCPAllocation for the ConnectionAttempt part) against a scripted TURN server that "
              "answers Allocate/Refresh correctly and reacts to CreatePermission / ChannelBind per generated script (success, 400, 403, 438 "
              "with fresh nonce, silence, delayed success); generated sequences of WriteTo (1-6 peers incl. same IP other port, 1-4 concurrent "
              "writers), inbound Data indications / ChannelData on bound and unknown channels in bursts of 1..3000 with and without a reader, "
              "read deadlines, sleeps across the refresh intervals, Close. The scripted server checks, in arrival order, that no Send "
              "indication precedes a CreatePermission success for that IP, no ChannelData precedes a ChannelBind success for exactly that "
              "(number, peer), numbers are in range and one per peer; payloads on the wire equal the bytes given to WriteTo; ReadFrom returns "
              "a subsequence (complete while the queue bound is not exceeded) of what was relayed with the right peer address; deadlines and "
              "Close unblock readers; the inbound path never stays blocked (nothing left in front of HandleInbound at quiescence)."),
    "level_note": "Trusted: simnet, the scripted server (harness/cliworld/c13_test.go), testing/synctest. Channel-number uniqueness is swept over 600 distinct peers in the quick tier and over all 16384 in the thorough tier, with a server that accepts every request.",
    "technique": "stateful property-based testing under virtual time: rapid-generated application call sequences and scripted server reactions, ordered wire-log oracle at the scripted server",
    "rule": "non-trivial = >= 2 peers, at least one non-success server reaction, data written both before and after a binding was confirmed (UDP cases); every ConnectionAttempt burst case (TCP cases); distinct by hash",
    "assumptions": [],
    "stages": [
        {"name": "relayed-socket", "pkg": "cliworld", "run": "^TestC13$",
         "quick": {"shards": 4, "checks": 700, "timeout_s": 500},
         "thorough": {"shards": 16, "checks": 8000, "timeout_s": 3000}},
        {"name": "concurrent-first-writes", "pkg": "cliworld", "run": "^TestC13FirstWrites$", "race": True,
         "quick": {"shards": 4, "checks": 12, "timeout_s": 400},
         "thorough": {"shards": 16, "checks": 150, "timeout_s": 2000}},
        {"name": "reallocation", "pkg": "cliworld", "run": "^TestC13Realloc$",
         "quick": {"shards": 2, "checks": 400, "timeout_s": 300},
         "thorough": {"shards": 8, "checks": 5000, "timeout_s": 1500}},
    ],
}

CHECKS["C18"] = {
    "level": "exploration",
    "claim": ("Perturb-and-observe under the race detector: (a) storms against a real server in a virtual-time bubble - 2-4 clients, 3 peers and a "
              "chaos actor each act from their own goroutine at the same virtual instants (all cores), with LIFETIME 1-4 s and permission/channel "
              "timeouts 1-5 s so that expiries coincide with requests, injected relay socket errors, Server.Close racing with traffic, "
              "lifecycle callbacks and the auth handler sleeping virtual time; (a') the same for TCP allocations: stream clients (Allocate, "
              "Refresh 0..n, CreatePermission, Connect with slow dials, ConnectionBind on fresh data connections, dropping and re-dialling "
              "the control connection), peers dialling every relayed address handed out and answering/closing what the server dialled, "
              "injected Accept errors, Server.Close; (b) the TCP-relay world of C16 (duplicate Connect, binds, "
              "closes) and (c) the client worlds (concurrent writers, Close racing with traffic) rebuilt with -race. Any DATA RACE report, any "
              "panic in any goroutine, any mutex not TryLock-able at quiescence, any goroutine left after teardown, and any imbalance of "
              "sockets / allocations / lifecycle events once everything is gone is a violation."),
    "level_note": ("Scheduler interleavings are perturbed, not enumerated: a race that needs a preemption between two specific instructions may be "
                   "missed. The statement's 'never return from any code path with a lock held' is decided only for the paths the generators "
                   "reach (lock-at-quiescence probe after every step of the TCP world and at the end of every storm); no static all-paths "
                   "claim is made. Callbacks sleep only where the library holds no lock: a goroutine waiting for a mutex is not durably "
                   "blocked for testing/synctest, so a sleep under a contended lock would freeze the virtual clock (harness limitation)."),
    "technique": "property-based schedule perturbation: rapid-generated concurrent storms and worlds under the Go race detector, order-insensitive invariants (lock probe, resource and event balance, goroutine drain)",
    "rule": "non-trivial = at least one round in which several actors act in the same virtual instant against shared state (every storm with >= 1 action; a TCP storm with >= 1 TCP allocation and >= 1 inbound peer connection), or a TCP-world case with a successful bind and a duplicate Connect; distinct by hash",
    "assumptions": [],
    "stages": [
        {"name": "storm-race", "pkg": "srvworld", "run": "^TestC18Storm$", "race": True,
         "quick": {"shards": 4, "checks": 150, "timeout_s": 500},
         "thorough": {"shards": 16, "checks": 1200, "timeout_s": 3000}},
        {"name": "tcp-race", "pkg": "srvworld", "run": "^TestC18TCP$", "race": True,
         "quick": {"shards": 2, "checks": 300, "timeout_s": 500},
         "thorough": {"shards": 8, "checks": 5000, "size": 40, "timeout_s": 3000}},
        {"name": "tcp-storm-race", "pkg": "srvworld", "run": "^TestC18TCPStorm$", "race": True,
         "quick": {"shards": 4, "checks": 100, "timeout_s": 500},
         "thorough": {"shards": 16, "checks": 1500, "timeout_s": 3000}},
        {"name": "stalled-stream-client", "pkg": "srvworld", "run": "^TestC18Stall$", "race": True,
         "quick": {"shards": 2, "checks": 400, "timeout_s": 500},
         "thorough": {"shards": 8, "checks": 6000, "timeout_s": 3000}},
        {"name": "client-race", "pkg": "cliworld", "run": "^TestC18Client$", "race": True,
         "quick": {"shards": 2, "checks": 150, "timeout_s": 500},
         "thorough": {"shards": 8, "checks": 3000, "timeout_s": 3000}},
        {"name": "client-tcp-close-race", "pkg": "cliworld", "run": "^TestC18ClientTCPClose$", "race": True,
         "quick": {"shards": 4, "checks": 10, "timeout_s": 400},
         "thorough": {"shards": 16, "checks": 120, "timeout_s": 2000}},
        {"name": "transaction-ties-race", "pkg": "cliworld", "run": "^TestC18Ties$", "race": True,
         "quick": {"shards": 4, "checks": 1500, "timeout_s": 500},
         "thorough": {"shards": 16, "checks": 30000, "timeout_s": 3000}},
    ],
}

# ---- stages added in the later rounds: their part of each claim ------------------------------
_MORE = {
    "C05": (" Stage client-stream-e2e: pion's own client on a STUNConn against pion's own server over simnet TCP - datagrams of every "
            "length (0-12, around 1200 and 1500) in both directions, first over Send / Data indications, then over ChannelData once the "
            "bindings stand, from bound ports and from a port the client never wrote to, payloads that are themselves well-formed frames; "
            "each arrives exactly once, byte-identical, attributed to its sender. The script world also has stream clients that write "
            "their frames in two segments, Send steps whose relay write fails and PeerData steps whose server-side write fails."),
    "C09": (" Stage tls-listener: a real crypto/tls listener over simnet; parties that stay silent, send a prefix of a genuine "
            "ClientHello, garbage instead of a handshake or garbage after it; a well-formed party must be served within 5 s of virtual time. "
            "Stage client-responses: a scripted server answers the client's own requests with well-formed but hostile content (LIFETIME 0 / "
            "2^32-1 / absent, missing addresses, odd error codes, wrong class or method, silence) and counts requests per instant of the "
            "clock (a spinning client); every API call returns within a minute. Stage client-stream: the client on a STUNConn fed well-framed "
            "frames of hostile size. The UDP stage also requires that a STUN success/error response is never answered."),
    "C13": (" Readers also call ReadFrom again after a timeout without moving the deadline, move it on without clearing it (idle timeout), "
            "use deadlines centuries ahead and at the epoch; Close with an expired deadline set and with a failing socket write; an "
            "application that re-fills one address variable for every write. Stage concurrent-first-writes (race build): 2-16 writers "
            "released together against a fresh peer, 50-200 rounds per case. Stage reallocation: several relayed sockets in succession on "
            "one client, stale and repeated Close."),
    "C14": (" Crowds of 12-160 further peer hosts are written to once and probed in every segment from a port the client never wrote to; "
            "the application may name a peer now in the 16-byte, now in the 4-byte form; sockets are closed and re-allocated (also right "
            "after the burst at the nonce horizon)."),
    "C15": (" Stage tls-listener-teardown: the TLS parties of C09 (completed, failed and pending handshakes), then Server.Close: no "
            "accepted connection may be left open at the server's end. The world stage also has ChannelBind requests sent at the very "
            "instant the allocation expires and Server.Close with a relay socket whose Close reports an error."),
    "C16": (" Also: Connect naming the peer in the IPv4-mapped spelling, a valid ConnectionBind whose sender hangs up before the answer, "
            "ConnectionBind on the control connection itself, connection ids drawn by a repeating random source (collisions on demand), and "
            "worlds whose relay listeners and outgoing connections come from the library's static generator bound to the wildcard address."),
    "C18": (" Stage stalled-stream-client: a stream client with a small receive window stops reading while its relay sits in a blocked "
            "write; the allocation is torn down meanwhile (own Refresh 0, lifetime, hang-up, channel expiry); AllocationCount and another "
            "client's Refresh must be served - a frozen bubble is reported by a wall-clock watchdog. Stage client-tcp-close-race: Close of a "
            "client TCP allocation while ConnectionAttempt indications arrive. The client storm also has the application calling "
            "Client.CreatePermission and reading Realm()/Username() concurrently."),
}
_MORE["C08"] = (" Stage client-bindings: the client's side of the table - an application writes to peers (two of them differ only in "
                "port) naming each now by the 4-byte, now by the 16-byte form of its IPv4 address, with ChannelBind requests that are "
                "refused, unanswered or answered late, bindings that expire and are re-made; a scripted server holds every ChannelBind "
                "and ChannelData the client emits against one-to-one-ness and the range.")
for _pid, _txt in _MORE.items():
    CHECKS[_pid]["claim"] += _txt

CHECKS["C08"]["stages"].append(
    {"name": "client-bindings", "pkg": "cliworld", "run": "^TestC08Client$",
     "quick": {"shards": 4, "checks": 400, "timeout_s": 400},
     "thorough": {"shards": 16, "checks": 4000, "timeout_s": 2400}})

CHECKS["C10"]["stages"].append(
    {"name": "server-stream", "pkg": "srvworld", "run": "^TestC10TCP$",
     "quick": {"shards": 2, "checks": 1500, "timeout_s": 420},
     "thorough": {"shards": 8, "checks": 5000, "size": 40, "timeout_s": 2400}})
CHECKS["C10"]["claim"] += (" Stage server-stream: the TCP world (pion's server on a stream listener) with a ConnectionBind that is refused and "
                           "another request right behind it in the same segment: the connection stays framed and both are answered, in order.")
CHECKS["C10"]["stages"].append(
    {"name": "native-fuzz", "pkg": "pure", "run": "^$", "fuzz_only": True,
     "thorough": {"shards": 1, "fuzz": "^FuzzC10$", "fuzztime": "90s", "parallel": 16, "timeout_s": 600}})

CHECKS["C11"]["stages"].append(
    {"name": "native-fuzz", "pkg": "pure", "run": "^$", "fuzz_only": True,
     "thorough": {"shards": 1, "fuzz": "^FuzzC11$", "fuzztime": "90s", "parallel": 16, "timeout_s": 600}})

CHECKS["C20"]["stages"].append(
    {"name": "native-fuzz", "pkg": "pure", "run": "^$", "fuzz_only": True,
     "thorough": {"shards": 1, "fuzz": "^FuzzC20$", "fuzztime": "90s", "parallel": 16, "timeout_s": 600}})

_NOT_BUILT = "check not built yet in this round (planned, see DESIGN.md section 4)"
PENDING = {("C%02d" % i): _NOT_BUILT for i in range(1, 21)}
