import os
import sys

sys.path.insert(0, os.path.dirname(os.path.abspath(__file__)))
import vdriver  # noqa: E402
from checks import CHECKS  # noqa: E402

seen = set()
ok = True
for pid, cfg in sorted(CHECKS.items()):
    for st in cfg["stages"]:
        key = (st["pkg"], bool(st.get("race")))
        if key in seen:
            continue
        seen.add(key)
        if vdriver.compile_pkg(st["pkg"], race=st.get("race", False)) is None:
            ok = False
print("setup", "ok" if ok else "FAILED")
sys.exit(0 if ok else 1)
