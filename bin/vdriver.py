#!/usr/bin/env python3
"""Driver for the pion/turn property checks (see /verif/DESIGN.md §2).

usage: bin/check <ID> [--tier quick|thorough] [--replay FILE] [--seed N] [--keep]

exit 0  property held on everything explored (KNOWN-FINDING lines allowed)
exit 1  at least one line "VIOLATION property=<id> replay=<path>" was printed
exit 2  infrastructure problem / inconclusive (build failure, worker death without
        a diagnosable crash, time budget hit)
"""
import fcntl
import hashlib
import json
import os
import re
import shutil
import signal
import subprocess
import sys
import time

VERIF = os.path.dirname(os.path.dirname(os.path.abspath(__file__)))
REPO = os.environ.get("VERIF_REPO", "/repo")
BUILD = os.environ.get("VERIF_BUILD", os.path.join(VERIF, "build"))
GO = os.environ.get("VERIF_GO", "go1.26.8")
MODPATH = "github.com/pion/turn/v5"
EVID = os.environ.get("VERIF_EVIDENCE_DIR", os.path.join(VERIF, "evidence"))
FOUND = os.environ.get("VERIF_FOUND_DIR", os.path.join(VERIF, "replays", "found"))
NCPU = os.cpu_count() or 4

sys.path.insert(0, os.path.join(VERIF, "bin"))
from checks import CHECKS  # noqa: E402


def goenv():
    env = dict(os.environ)
    env.update(
        GOFLAGS="-mod=mod",
        GOPROXY="off",
        GOSUMDB="off",
        GOTOOLCHAIN="local",
        GONOSUMCHECK="1",
        GONOSUMDB="*",
    )
    env.setdefault("GOCACHE", os.path.expanduser("~/.cache/go-build"))
    return env


def log(*a):
    print("[check]", *a, file=sys.stderr, flush=True)


def prepare_build():
    """go.mod (+rapid), go.sum and overlay.json for compiling /verif/harness into REPO."""
    os.makedirs(BUILD, exist_ok=True)
    tag = hashlib.sha1(REPO.encode()).hexdigest()[:8]
    bdir = os.path.join(BUILD, "mod-" + tag)
    os.makedirs(bdir, exist_ok=True)
    with open(os.path.join(REPO, "go.mod")) as f:
        gomod = f.read()
    gomod += "\nrequire pgregory.net/rapid v1.3.0\n"
    modfile = os.path.join(bdir, "go.mod")
    old = None
    if os.path.exists(modfile):
        with open(modfile) as f:
            old = f.read()
    if old != gomod:
        with open(modfile, "w") as f:
            f.write(gomod)
    sumfile = os.path.join(bdir, "go.sum")
    with open(os.path.join(REPO, "go.sum")) as f:
        gosum = f.read()
    extra = os.path.join(VERIF, "harness", "go.sum.extra")
    if os.path.exists(extra):
        with open(extra) as f:
            gosum += f.read()
    with open(sumfile, "w") as f:
        f.write(gosum)
    overlay = {"Replace": {}}
    hroot = os.path.join(VERIF, "harness")
    for d, _, files in os.walk(hroot):
        for fn in files:
            if not fn.endswith(".go"):
                continue
            src = os.path.join(d, fn)
            rel = os.path.relpath(src, hroot)
            overlay["Replace"][os.path.join(REPO, "internal", "zzverif", rel)] = src
    ofile = os.path.join(bdir, "overlay.json")
    with open(ofile, "w") as f:
        json.dump(overlay, f, indent=1)
    return bdir, modfile, ofile


def compile_pkg(pkg, race=False, fuzz=None):
    # Builds are serialised with a file lock and the binary is put in place by rename: another
    # invocation may be preparing the same build directory or running the binary at this moment.
    os.makedirs(BUILD, exist_ok=True)
    with open(os.path.join(BUILD, ".build.lock"), "w") as lockf:
        fcntl.flock(lockf, fcntl.LOCK_EX)
        try:
            return _compile_pkg_locked(pkg, race, fuzz)
        finally:
            fcntl.flock(lockf, fcntl.LOCK_UN)


def _compile_pkg_locked(pkg, race, fuzz):
    bdir, modfile, ofile = prepare_build()
    name = pkg.replace("/", "_") + (".race" if race else "") + (".fuzz-" + fuzz if fuzz else "") + ".test"
    out = os.path.join(bdir, name)
    tmp = out + ".new.%d" % os.getpid()
    cmd = [GO, "test", "-c", "-vet=off", "-modfile=" + modfile, "-overlay=" + ofile, "-o", tmp]
    if race:
        cmd.append("-race")
    if fuzz:
        cmd += ["-fuzz=" + fuzz]
    cmd.append(MODPATH + "/internal/zzverif/" + pkg)
    t0 = time.time()
    p = subprocess.run(cmd, cwd=REPO, env=goenv(), stdout=subprocess.PIPE, stderr=subprocess.STDOUT, text=True)
    if p.returncode != 0 or not os.path.exists(tmp):
        log("BUILD FAILED (%s):\n%s" % (" ".join(cmd), p.stdout))
        try:
            os.remove(tmp)
        except OSError:
            pass
        return None
    os.replace(tmp, out)
    log("built %s in %.1fs" % (name, time.time() - t0))
    return out


CRASH_RE = re.compile(r"^(panic: |fatal error: |WARNING: DATA RACE|unexpected fault address|SIGSEGV)", re.M)
WEDGE_RE = re.compile(r"sync\.\(\*(RW)?Mutex\)\.(R?Lock|lockSlow)")


def run_shards(binary, cfg, pid, tier, seed, workdir, replay=None):
    """Run the shards of one check; returns list of (shard, rc, stdout, outdir, timed_out)."""
    t = cfg[tier]
    nshards = 1 if replay else t.get("shards", 1)
    procs = []
    par = t.get("parallel", NCPU)
    results = []
    pending = list(range(nshards))
    running = []
    budget = t.get("timeout_s", 600)

    def start(k):
        sdir = os.path.join(workdir, "shard%02d" % k)
        shutil.rmtree(sdir, ignore_errors=True)
        os.makedirs(sdir)
        env = goenv()
        env.update(
            VERIF_ID=pid,
            VERIF_TIER=tier,
            VERIF_SEED=str(seed),
            VERIF_SHARD=str(k),
            VERIF_NSHARDS=str(nshards),
            VERIF_OUT=sdir,
            VERIF_ROOT=VERIF,
            # VERIF_NOREGRESS=1 (sensitivity experiments only): generated cases alone decide
            VERIF_REGRESS="" if os.environ.get("VERIF_NOREGRESS") else os.path.join(VERIF, "replays", "regress", pid),
            VERIF_FOUND=os.path.join(FOUND, pid),
            VERIF_KNOWN=os.path.join(VERIF, "known_findings.json"),
            VERIF_CHECKS=str(t.get("checks", 1000)),
            VERIF_SIZE=str(t.get("size", 0)),
            GOTRACEBACK="all",
        )
        for k2, v in (cfg.get("env") or {}).items():
            env[k2] = str(v)
        for k2, v in (t.get("env") or {}).items():
            env[k2] = str(v)
        if replay:
            env["VERIF_REPLAY"] = os.path.abspath(replay)
        cmd = [binary, "-test.run", cfg["run"], "-test.count=1", "-test.timeout=0", "-test.v"]
        if replay and t.get("fuzz"):
            target = t["fuzz"].strip("^$")
            cdir = os.path.join(sdir, "testdata", "fuzz", target)
            os.makedirs(cdir, exist_ok=True)
            shutil.copy(replay, os.path.join(cdir, "replayed"))
            cmd = [binary, "-test.run", "^%s$/replayed" % target, "-test.count=1", "-test.v"]
        elif t.get("fuzz"):
            cmd = [binary, "-test.run", "^$", "-test.fuzz", t["fuzz"], "-test.fuzztime", t.get("fuzztime", "60s"),
                   "-test.fuzzcachedir", os.path.join(sdir, "fuzzcache"), "-test.parallel", str(par)]
        outf = open(os.path.join(sdir, "stdout.txt"), "w")
        p = subprocess.Popen(cmd, cwd=sdir, env=env, stdout=outf, stderr=subprocess.STDOUT)
        return (k, p, outf, sdir, time.time())

    while pending or running:
        while pending and len(running) < par:
            running.append(start(pending.pop(0)))
        time.sleep(0.05)
        still = []
        for (k, p, outf, sdir, t0) in running:
            rc = p.poll()
            timed_out = False
            if rc is None and time.time() - t0 > budget:
                # ask for a goroutine dump first (wedge diagnosis), then kill
                timed_out = True
                try:
                    p.send_signal(signal.SIGQUIT)
                    p.wait(timeout=20)
                except Exception:
                    p.kill()
                    p.wait()
                rc = p.returncode
            if rc is None:
                still.append((k, p, outf, sdir, t0))
                continue
            outf.close()
            with open(os.path.join(sdir, "stdout.txt"), errors="replace") as f:
                out = f.read()
            results.append((k, rc, out, sdir, timed_out))
        running = still
    results.sort()
    return results


def load_known():
    try:
        with open(os.path.join(VERIF, "known_findings.json")) as f:
            return json.load(f)
    except FileNotFoundError:
        return {"findings": [], "fixed": []}


def main():
    args = sys.argv[1:]
    if not args:
        print(__doc__)
        return 2
    pid = args.pop(0)
    tier = os.environ.get("VERIF_TIER", "quick")
    seed = int(os.environ.get("VERIF_SEED", "1") or "1")
    replay = None
    keep = False
    only_stage = None
    while args:
        a = args.pop(0)
        if a == "--tier":
            tier = args.pop(0)
        elif a == "--replay":
            replay = args.pop(0)
        elif a == "--seed":
            seed = int(args.pop(0))
        elif a == "--keep":
            keep = True
        elif a == "--stage":
            only_stage = args.pop(0)
        else:
            print("unknown arg", a)
            return 2
    if tier not in ("quick", "thorough"):
        tier = "quick"
    if replay:
        try:
            if open(replay, "rb").read(16).startswith(b"go test fuzz"):
                tier = "thorough"  # native fuzz stages exist in the thorough tier only
        except Exception:
            pass
    if pid not in CHECKS:
        print("unknown property", pid)
        return 2
    t_start = time.time()
    stages = CHECKS[pid]["stages"]
    # one work directory per invocation: two runs of the same check (other seeds, a replay) may
    # go on at the same time; what earlier invocations that are no longer alive left is removed
    wbase = pid + "-" + tier + ("-replay" if replay else "")
    wparent = os.path.join(BUILD, "work")
    os.makedirs(wparent, exist_ok=True)
    for d in os.listdir(wparent):
        if d == wbase or d.startswith(wbase + "."):
            owner = d[len(wbase) + 1:]
            if not (owner.isdigit() and os.path.exists("/proc/" + owner)):
                shutil.rmtree(os.path.join(wparent, d), ignore_errors=True)
    workroot = os.path.join(wparent, wbase + "." + str(os.getpid()))
    shutil.rmtree(workroot, ignore_errors=True)
    os.makedirs(workroot)

    merged = {
        "evaluations": 0,
        "labels": {},
        "samples": [],
        "stages": [],
        "known": {},
        "excluded_known": 0,
        "sub_oracles_skipped": [],
    }
    hashes = set()
    violations = []  # (replay path, message)
    infra = []
    assumptions = []
    exhaustive_all = True
    any_stage = False

    for si, st in enumerate(stages):
        if tier not in st:
            continue
        if only_stage and st["name"] != only_stage:
            continue
        is_fuzz_file = False
        if replay:
            try:
                is_fuzz_file = open(replay, "rb").read(16).startswith(b"go test fuzz")
            except Exception:
                pass
        if replay and is_fuzz_file != bool(st.get("fuzz_only")):
            continue
        if replay and os.environ.get("VERIF_REPLAY_STAGE") not in (None, "", st["name"]):
            continue
        any_stage = True
        binary = compile_pkg(st["pkg"], race=st.get("race", False), fuzz=st[tier].get("fuzz"))
        if binary is None:
            infra.append("build failed for stage %s" % st["name"])
            break
        wd = os.path.join(workroot, st["name"])
        os.makedirs(wd, exist_ok=True)
        res = run_shards(binary, st, pid, tier, seed, wd, replay=replay)
        st_eval = 0
        for (k, rc, out, sdir, timed_out) in res:
            rfile = os.path.join(sdir, "result.json")
            result = None
            if os.path.exists(rfile):
                try:
                    with open(rfile) as f:
                        result = json.load(f)
                except Exception as e:  # truncated result
                    result = None
            if st[tier].get("fuzz"):
                # native fuzzing: no result.json; count executions from the fuzzer's progress lines
                execs = [int(x) for x in re.findall(r"execs: (\d+)", out)]
                interesting = [int(x) for x in re.findall(r"new interesting: (\d+)", out)]
                n_exec = max(execs) if execs else 0
                st_eval += n_exec
                merged["evaluations"] += n_exec
                merged["labels"]["fuzz-execs:" + st["name"]] = merged["labels"].get("fuzz-execs:" + st["name"], 0) + n_exec
                merged["labels"]["fuzz-new-interesting:" + st["name"]] = max(interesting) if interesting else 0
                for i in range(max(interesting) if interesting else 0):
                    hashes.add(("fz%s%d" % (st["name"], i)).encode()[:8].ljust(8, b"_"))
                crash = re.search(r"Failing input written to (\S+)", out)
                if replay:
                    merged["evaluations"] += 1
                    if rc != 0:
                        m = re.search(r"--- FAIL.*?\n((?:.*\n){0,12})", out)
                        violations.append((os.path.abspath(replay), "the saved fuzz input still fails: " + (m.group(1)[:1500] if m else out[-800:])))
                    continue
                if rc != 0 and not timed_out:
                    if crash:
                        srcf = os.path.join(sdir, crash.group(1))
                        os.makedirs(os.path.join(FOUND, pid), exist_ok=True)
                        dst = os.path.join(FOUND, pid, "fuzz-%s-%s" % (st[tier]["fuzz"].strip("^$"), os.path.basename(srcf)))
                        try:
                            shutil.copy(srcf, dst)
                        except Exception:
                            dst = srcf
                        m = re.search(r"--- FAIL.*?\n((?:.*\n){0,12})", out)
                        violations.append((dst, "native fuzzing found a failing input: " + (m.group(1)[:1500] if m else "")))
                    else:
                        infra.append("fuzz stage %s exited rc=%s without a crasher" % (st["name"], rc))
                        log(out[-2000:])
                elif timed_out:
                    infra.append("fuzz stage %s exceeded its time budget" % st["name"])
                continue
            vio_lines = [l for l in out.splitlines() if l.startswith("VIOLATION ")]
            if replay and "REPLAY-NOT-MINE" in out:
                continue
            if result is not None:
                st_eval += result.get("evaluations", 0)
                merged["evaluations"] += result.get("evaluations", 0)
                merged["excluded_known"] += result.get("excluded_known", 0)
                for lk, lv in (result.get("labels") or {}).items():
                    merged["labels"][lk] = merged["labels"].get(lk, 0) + lv
                for s in (result.get("samples") or [])[: max(1, 6 // max(1, len(res)))]:
                    if len(merged["samples"]) < 12:
                        merged["samples"].append(s)
                for kf, n in (result.get("known") or {}).items():
                    merged["known"][kf] = merged["known"].get(kf, 0) + n
                for a in result.get("assumptions") or []:
                    if a not in assumptions:
                        assumptions.append(a)
                for a in result.get("skipped") or []:
                    if a not in merged["sub_oracles_skipped"]:
                        merged["sub_oracles_skipped"].append(a)
                if not result.get("exhaustive", False):
                    exhaustive_all = False
                hfile = os.path.join(sdir, "hashes.bin")
                if os.path.exists(hfile):
                    with open(hfile, "rb") as f:
                        data = f.read()
                    for i in range(0, len(data) - 7, 8):
                        hashes.add(data[i:i + 8])
                for v in result.get("violations") or []:
                    violations.append((v.get("replay", ""), v.get("msg", "")))
            crashed = CRASH_RE.search(out) is not None
            if result is None or (rc != 0 and not (result and result.get("violations"))):
                # the process died or failed without reporting through the harness
                journal = os.path.join(sdir, "journal.json")
                jpath = ""
                if os.path.exists(os.path.join(sdir, "journal.bin")):
                    jpath = extract_journal(os.path.join(sdir, "journal.bin"), pid)
                if crashed and not timed_out:
                    kind = "crash"
                    m = CRASH_RE.search(out)
                    snippet = out[m.start(): m.start() + 1500]
                    if not jpath:
                        jpath = save_text(pid, "crash-output", out[-20000:])
                    violations.append((jpath, "process crashed: " + snippet.splitlines()[0]))
                    log("shard %d of %s crashed:\n%s" % (k, st["name"], snippet))
                elif timed_out and WEDGE_RE.search(out):
                    if not jpath:
                        jpath = save_text(pid, "wedge-output", out[-20000:])
                    violations.append((jpath, "wedge: goroutine blocked on a mutex when the time budget ran out"))
                elif timed_out:
                    infra.append("stage %s shard %d exceeded its time budget (inconclusive)" % (st["name"], k))
                elif vio_lines:
                    for l in vio_lines:
                        m = re.search(r"replay=(\S+)", l)
                        violations.append((m.group(1) if m else "", l))
                else:
                    infra.append("stage %s shard %d exited rc=%s without a result" % (st["name"], k, rc))
                    log(out[-3000:])
        merged["stages"].append({"name": st["name"], "shards": len(res), "evaluations": st_eval})
        if violations and not replay:
            break  # later stages would only repeat; the first replay is what matters

    if not any_stage:
        print("no stage for tier", tier)
        return 2

    known = load_known()
    for kf, n in sorted(merged["known"].items()):
        what = kf
        for f in known.get("findings", []):
            if f.get("property") == pid and f.get("signature") == kf:
                what = f.get("what_fails", kf)
        print("KNOWN-FINDING: property=%s %s (seen %d times, signature %s)" % (pid, what, n, kf))

    wall = time.time() - t_start
    cfg = CHECKS[pid]
    coverage = {
        "evaluations": merged["evaluations"],
        "distinct_nontrivial": len(hashes),
        "rule": cfg["rule"],
        "samples": merged["samples"],
        "labels": dict(sorted(merged["labels"].items())),
        "stages": merged["stages"],
        "excluded_known": merged["excluded_known"],
        "known_findings_seen": merged["known"],
        "sub_oracles_skipped": merged["sub_oracles_skipped"],
        "exhaustive": bool(exhaustive_all and merged["evaluations"] > 0 and cfg.get("exhaustive_possible", False)),
        "infrastructure_notes": infra,
    }
    evidence = {
        "property_id": pid,
        "tier": tier,
        "seed": seed,
        "level": cfg.get("level", "exploration"),
        "coverage": coverage,
        "assumptions": (cfg.get("assumptions") or []) + assumptions,
        "wall_s": round(wall, 2),
        "violations": len(violations),
    }
    if not replay:
        os.makedirs(EVID, exist_ok=True)
        tmp = os.path.join(EVID, pid + ".json.tmp")
        with open(tmp, "w") as f:
            json.dump(evidence, f, indent=1, sort_keys=False)
            f.write("\n")
        os.replace(tmp, os.path.join(EVID, pid + ".json"))

    seen = set()
    for (rp, msg) in violations:
        if (rp, msg) in seen:
            continue
        seen.add((rp, msg))
        print("VIOLATION property=%s replay=%s" % (pid, rp))
        print("  " + msg.replace("\n", "\n  ")[:4000])
    if not keep and not violations and not infra:
        shutil.rmtree(workroot, ignore_errors=True)
    log("%s %s: %d evaluations, %d distinct non-trivial, %d violations, %.1fs%s" % (
        pid, tier, merged["evaluations"], len(hashes), len(violations), wall,
        (" INFRA: " + "; ".join(infra)) if infra else ""))
    if violations:
        return 1
    if infra:
        for i in infra:
            print("INCONCLUSIVE: " + i)
        return 2
    return 0


def save_text(pid, kind, text):
    d = os.path.join(FOUND, pid)
    os.makedirs(d, exist_ok=True)
    h = hashlib.sha1(text.encode(errors="replace")).hexdigest()[:12]
    p = os.path.join(d, "%s-%s.txt" % (kind, h))
    with open(p, "w") as f:
        f.write(text)
    return p


def extract_journal(path, pid):
    """journal.bin: 8-byte little-endian length, then that many bytes of JSON (the case being
    executed when the process died)."""
    try:
        with open(path, "rb") as f:
            data = f.read()
        n = int.from_bytes(data[:8], "little")
        if n <= 0 or n > len(data) - 8:
            return ""
        body = data[8:8 + n]
        json.loads(body)
        d = os.path.join(FOUND, pid)
        os.makedirs(d, exist_ok=True)
        h = hashlib.sha1(body).hexdigest()[:12]
        p = os.path.join(d, "journal-%s.json" % h)
        with open(p, "wb") as f:
            f.write(body)
        return p
    except Exception as e:  # noqa
        return ""


if __name__ == "__main__":
    sys.exit(main())
