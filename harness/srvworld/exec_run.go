package srvworld

import (
	"errors"
	"fmt"
	"sort"
	"strings"
	"time"
)

// resync ends the case quietly: the verdict of the last request is inside a documented tolerance
// band (e.g. nonce age between 60 and 61 minutes), so the model may no longer match the server.
func (x *Exec) resync() {
	x.St.inc("unjudged-abort")
	x.stop = true
	x.Aborted = true
}

// libListing renders the library's own view of client c's allocation.
func (x *Exec) libListing(c *Client) string {
	la := x.w.libAlloc(c)
	if la == nil {
		return "none"
	}
	var perms, chans []string
	for _, p := range la.ListPermissions() {
		ip, _, err := addrIPPort(p.Addr)
		if err == nil {
			perms = append(perms, canonIP(ip))
		}
	}
	for _, cb := range la.ListChannelBindings() {
		chans = append(chans, fmt.Sprintf("%#x->%s", uint16(cb.Number), canonAddr(cb.Peer.String())))
	}
	sort.Strings(perms)
	sort.Strings(chans)

	return "perms=" + strings.Join(perms, ",") + " chans=" + strings.Join(chans, ",")
}

func (x *Exec) modelListing(c *Client) string {
	a := x.m.Allocs[c.Idx]
	if a == nil {
		return "none"
	}
	var perms, chans []string
	for ip := range a.Perms {
		perms = append(perms, ip)
	}
	for n, ch := range a.Chans {
		chans = append(chans, fmt.Sprintf("%#x->%s", n, canonAddr(ch.Peer.String())))
	}
	sort.Strings(perms)
	sort.Strings(chans)

	return "perms=" + strings.Join(perms, ",") + " chans=" + strings.Join(chans, ",")
}

// crossCheck compares library listings, allocation count, sockets and lifecycle events with the
// model at a quiescent point.
func (x *Exec) crossCheck(ctx string, st *Step) { //nolint:cyclop,gocyclo
	if x.stop {
		return
	}
	if x.w.callbacksActive() > 0 {
		return // a slow callback is still running: not a quiescent point for state listings
	}
	// allocation count
	if got, want := x.w.srv.AllocationCount(), len(x.m.Allocs); got != want && !x.w.closed {
		props := []string{"C15", "C06", "C04"}
		x.fail(props, "allocation-count", "%s: Server.AllocationCount() = %d, the model holds %d live allocations", ctx, got, want)

		return
	}
	// listings
	if len(x.w.mgrs) > 0 && !x.w.closed {
		for _, c := range x.w.clients {
			lib, mod := x.libListing(c), x.modelListing(c)
			if lib == mod {
				continue
			}
			props, kind := x.attributeListingDiff(c, lib, mod, st)
			x.fail(props, kind, "%s: client %d: library state {%s} differs from the model {%s}", ctx, c.Idx, lib, mod)

			return
		}
		// bijection + range, straight from the library listing (C08)
		for _, c := range x.w.clients {
			la := x.w.libAlloc(c)
			if la == nil {
				continue
			}
			byNum := map[uint16]string{}
			byPeer := map[string]uint16{}
			for _, cb := range la.ListChannelBindings() {
				n := uint16(cb.Number)
				ps := canonAddr(cb.Peer.String())
				if n < 0x4000 || n > 0x7FFF {
					x.fail([]string{"C08"}, "binding-out-of-range", "%s: client %d holds a binding for channel %#x", ctx, c.Idx, n)

					return
				}
				if o, ok := byNum[n]; ok && o != ps {
					x.fail([]string{"C08"}, "binding-number-two-peers", "%s: channel %#x bound to %s and %s", ctx, n, o, ps)

					return
				}
				if o, ok := byPeer[ps]; ok && o != n {
					x.fail([]string{"C08"}, "binding-peer-two-numbers", "%s: peer %s bound to %#x and %#x", ctx, ps, o, n)

					return
				}
				byNum[n], byPeer[ps] = ps, n
			}
		}
	}
	x.checkResources(ctx)
	if x.stop {
		return
	}
	x.checkEvents(ctx)
}

func canonAddr(s string) string {
	return strings.TrimPrefix(strings.Replace(s, "[::ffff:", "[", 1), "")
}

func (x *Exec) attributeListingDiff(c *Client, lib, mod string, st *Step) ([]string, string) {
	a := x.m.Allocs[c.Idx]
	switch {
	case a == nil && lib != "none":
		everHad := false
		for _, g := range x.m.Gone {
			everHad = everHad || g.Client == c.Idx
		}
		if !everHad {
			// this 5-tuple never allocated, yet the server finds an allocation for it: somebody
			// else's. Its Send / ChannelData would leave through a relay toward peers it never authorised.
			return []string{"C04", "C01"}, "allocation-of-another-five-tuple"
		}

		return []string{"C06", "C15", "C04"}, "allocation-outlives-model"
	case a != nil && lib == "none":
		return []string{"C06", "C14", "C04"}, "allocation-missing"
	}
	libP, libC := splitListing(lib)
	modP, modC := splitListing(mod)
	for i := 1; i < len(libP); i++ {
		if libP[i] == libP[i-1] {
			// the table lists one address twice: one of the two entries sits under another
			// address's key - it authorises relaying for a peer it does not name, and the
			// removal that goes by its address will not find it
			return []string{"C07", "C01", "C02"}, "permission-table-inconsistent"
		}
	}
	if extra := diff(libP, modP); len(extra) > 0 {
		// a permission the model does not hold: it would authorise relaying in both directions
		props := []string{"C07", "C01", "C02"}
		if st != nil && (st.Op == "CreatePermission" || st.Op == "ChannelBind") {
			for _, p := range st.P {
				pa := peerAddrOf(p)
				for _, e := range extra {
					if canonIP(pa.IP) == e && (x.w.deniedAt(x.opStart, c.Idx, pa.IP) || familyOfIP(pa.IP) != a.Family) {
						return []string{"C01"}, "vetoed-or-foreign-family-permission-installed"
					}
				}
			}
			if x.client(st.C).Idx != c.Idx {
				props = append(props, "C04")
			}
		}

		return props, "permission-not-in-model"
	}
	if missing := diff(modP, libP); len(missing) > 0 {
		return []string{"C07", "C14"}, "permission-lost-early"
	}
	if extra := diff(libC, modC); len(extra) > 0 {
		props := []string{"C08", "C07", "C01", "C02"}
		if st != nil && st.Op == "ChannelBind" && len(st.P) > 0 {
			pa := peerAddrOf(st.P[0])
			if x.w.deniedAt(x.opStart, c.Idx, pa.IP) || familyOfIP(pa.IP) != a.Family {
				props = []string{"C01"}
			}
		}

		return props, "binding-not-in-model"
	}

	return []string{"C07", "C08", "C14"}, "binding-lost-early"
}

func splitListing(s string) (perms, chans []string) {
	s = strings.TrimPrefix(s, "perms=")
	i := strings.Index(s, " chans=")
	if i < 0 {
		return nil, nil
	}
	if s[:i] != "" {
		perms = strings.Split(s[:i], ",")
	}
	if rest := s[i+7:]; rest != "" {
		chans = strings.Split(rest, ",")
	}

	return perms, chans
}

func diff(a, b []string) []string {
	in := map[string]bool{}
	for _, s := range b {
		in[s] = true
	}
	var out []string
	for _, s := range a {
		if !in[s] {
			out = append(out, s)
		}
	}

	return out
}

// checkResources: the open relay resources are exactly those of the live allocations (C15).
func (x *Exec) checkResources(ctx string) {
	owned := map[int]int{}
	for _, a := range x.m.Allocs {
		if a.RelaySock != nil {
			owned[a.RelaySock.ID] = a.Client
		}
		if a.RelayLis != nil {
			owned[a.RelayLis.ID] = a.Client
		}
	}
	x.w.gen.mu.Lock()
	made := append([]*genRes{}, x.w.gen.made...)
	x.w.gen.mu.Unlock()
	for _, r := range made {
		switch {
		case r.Sock != nil:
			_, live := owned[r.Sock.ID]
			if live && r.Sock.IsClosed() {
				x.fail([]string{"C15", "C06", "C14"}, "relay-socket-closed-early", "%s: relay socket %v of a live allocation is closed", ctx, r.Sock)

				return
			}
			if !live && !r.Sock.IsClosed() {
				x.fail([]string{"C15", "C06"}, "relay-socket-leaked", "%s: relay socket %v (handed out in step %d) is open but no live allocation owns it", ctx, r.Sock, r.Step)

				return
			}
		case r.Lis != nil:
			_, live := owned[r.Lis.ID]
			if live && r.Lis.IsClosed() {
				x.fail([]string{"C15", "C06"}, "relay-listener-closed-early", "%s: relay listener %v of a live allocation is closed", ctx, r.Lis)

				return
			}
			if !live && !r.Lis.IsClosed() {
				x.fail([]string{"C15", "C06"}, "relay-listener-leaked", "%s: relay listener %v (step %d) is open but no live allocation owns it", ctx, r.Lis, r.Step)

				return
			}
		}
	}
}

// checkEvents: created/deleted callbacks pair up and match the model's live objects (C15).
func (x *Exec) checkEvents(ctx string) {
	x.w.evMu.Lock()
	evs := append([]Event{}, x.w.events...)
	x.w.evMu.Unlock()
	bal := map[string]int{}
	keyOf := func(e *Event) (key string, d int) {
		switch e.Kind {
		case "AllocCreated":
			return "alloc|" + e.Src, 1
		case "AllocDeleted":
			return "alloc|" + e.Src, -1
		case "PermCreated":
			return "perm|" + e.Src + "|" + e.Relay + "|" + e.Peer, 1
		case "PermDeleted":
			return "perm|" + e.Src + "|" + e.Relay + "|" + e.Peer, -1
		case "ChanCreated":
			return fmt.Sprintf("chan|%s|%s|%s|%d", e.Src, e.Relay, canonAddr(e.Peer), e.Channel), 1
		case "ChanDeleted":
			return fmt.Sprintf("chan|%s|%s|%s|%d", e.Src, e.Relay, canonAddr(e.Peer), e.Channel), -1
		}

		return "", 0
	}
	for i, e := range evs {
		var key string
		var d int
		switch e.Kind {
		case "AllocCreated":
			key, d = "alloc|"+e.Src, 1
		case "AllocDeleted":
			key, d = "alloc|"+e.Src, -1
		case "PermCreated":
			key, d = "perm|"+e.Src+"|"+e.Relay+"|"+e.Peer, 1
		case "PermDeleted":
			key, d = "perm|"+e.Src+"|"+e.Relay+"|"+e.Peer, -1
		case "ChanCreated":
			key, d = fmt.Sprintf("chan|%s|%s|%s|%d", e.Src, e.Relay, canonAddr(e.Peer), e.Channel), 1
		case "ChanDeleted":
			key, d = fmt.Sprintf("chan|%s|%s|%s|%d", e.Src, e.Relay, canonAddr(e.Peer), e.Channel), -1
		default:
			continue
		}
		bal[key] += d
		if bal[key] == -1 {
			// a created and a deleted callback issued by two goroutines at the same instant
			// (an entry installed while its allocation is being closed) have no defined order:
			// they pair up if the created callback follows within that instant
			for j := i + 1; j < len(evs) && evs[j].Time.Equal(e.Time); j++ {
				if k2, d2 := keyOf(&evs[j]); k2 == key && d2 == 1 {
					key = ""

					break
				}
			}
			if key == "" {
				continue
			}
		}
		if bal[key] < 0 || bal[key] > 1 {
			what := "deleted callback without (or twice per) created callback"
			if bal[key] > 1 {
				what = "created callback twice without deleted callback"
			}
			x.fail([]string{"C15"}, "lifecycle-events-unbalanced", "%s: %s for %s (event log: %s)", ctx, what, key, eventTail(evs))

			return
		}
	}
	want := map[string]bool{}
	for _, a := range x.m.Allocs {
		src := x.w.clients[a.Client].Addr.String()
		want["alloc|"+src] = true
		relay := a.Relay.String()
		for ip := range a.Perms {
			want["perm|"+src+"|"+relay+"|"+ip] = true
		}
		for n, ch := range a.Chans {
			want[fmt.Sprintf("chan|%s|%s|%s|%d", src, relay, canonAddr(ch.Peer.String()), n)] = true
		}
	}
	for k, v := range bal {
		if v == 1 && !want[k] {
			props := []string{"C15"}
			if strings.HasPrefix(k, "chan|") || strings.HasPrefix(k, "perm|") {
				// a permission or channel that outlives its removal - or its whole allocation (C06:
				// "all its permissions and channels are gone with it")
				owner := false
				for _, a := range x.m.Allocs {
					owner = owner || strings.Contains(k, "|"+x.w.clients[a.Client].Addr.String()+"|"+a.Relay.String()+"|")
				}
				if !owner {
					props = append(props, "C06")
				}
			}
			x.fail(props, "lifecycle-deleted-missing", "%s: %s was created and is gone in the model, but no deleted callback was delivered (event log: %s)", ctx, k, eventTail(evs))

			return
		}
	}
	for k := range want {
		if bal[k] != 1 {
			x.fail([]string{"C15"}, "lifecycle-created-missing", "%s: %s is live in the model but its created/deleted callbacks sum to %d (event log: %s)", ctx, k, bal[k], eventTail(evs))

			return
		}
	}
}

func eventTail(evs []Event) string {
	var parts []string
	from := max(0, len(evs)-12)
	for _, e := range evs[from:] {
		parts = append(parts, fmt.Sprintf("%s(%s %s %s %d)", e.Kind, e.Src, e.Relay, e.Peer, e.Channel))
	}

	return strings.Join(parts, " ")
}

// ---- time and teardown ----------------------------------------------------------------------

func (x *Exec) opSleep(st *Step) {
	d := time.Duration(st.N) * time.Second
	if st.Rel != "" {
		kind := strings.TrimRight(st.Rel, "+-~^")
		var peer = peerAddrOf(0)
		if len(st.P) > 0 {
			peer = peerAddrOf(st.P[0])
		} else {
			peer = nil
		}
		dl, ok := x.m.deadlineFor(kind, x.client(st.C).Idx, peer, x.chanNumber(st))
		if !ok {
			return
		}
		now := time.Now()
		margin := time.Second
		if st.N > 1 {
			margin = time.Duration(st.N) * time.Second
		}
		if fine := strings.HasSuffix(st.Rel, "~") || strings.HasSuffix(st.Rel, "^"); fine {
			// a probe 50 µs before ("^") or after ("~") the deadline: half a clock tick, an offset no
			// harness action and no other deadline can have; the next tick returns to the usual offset
			target := dl.Add(50 * time.Microsecond)
			if strings.HasSuffix(st.Rel, "^") {
				target = dl.Add(-50 * time.Microsecond)
			}
			if !target.After(now) || target.Sub(now) > 3*time.Hour {
				return
			}
			if x.tieRestore < 0 {
				x.tieRestore = time.Duration(now.UnixNano()) % time.Second
			}
			d = target.Sub(now)
			x.St.inc("sleep-to-the-edge-of-" + kind)
		} else if strings.HasSuffix(st.Rel, "-") {
			target := dl.Add(-margin)
			if !target.After(now) {
				return
			}
			d = target.Sub(now) / time.Second * time.Second
			x.St.inc("sleep-to-before-" + kind)
		} else {
			target := dl.Add(margin)
			if !target.After(now) {
				return
			}
			d = (target.Sub(now) + time.Second - 1) / time.Second * time.Second
			x.St.inc("sleep-to-after-" + kind)
		}
	}
	if d <= 0 {
		return
	}
	for _, c := range x.w.clients {
		c.freshChallenge = false
	}
	if x.SleptFor == nil {
		x.SleptFor = map[int]int{}
	}
	x.SleptFor[x.w.stepNo] = int(d / time.Second)
	quiet := x.w.closed && x.w.callbacksActive() == 0
	logBefore, evBefore := x.w.log.Calls.Load(), x.eventCount()
	time.Sleep(d)
	x.settle()
	o := x.observe()
	x.checkWire(o, nil, nil, nil, fmt.Sprintf("sleep of %v", d))
	if !x.stop && quiet && (x.w.log.Calls.Load() != logBefore || x.eventCount() != evBefore) {
		x.fail([]string{"C15"}, "activity-after-close", "the server was closed and idle, yet during a sleep of %v it logged %d more lines and delivered %d more lifecycle events (a timer or goroutine survived Close); last log lines: %v", d, x.w.log.Calls.Load()-logBefore, x.eventCount()-evBefore, tailStr(x.w.log.Lines(), 3))
	}
}

func tailStr(l []string, n int) []string {
	if len(l) > n {
		return l[len(l)-n:]
	}

	return l
}

func (x *Exec) opRelayError(st *Step) {
	c := x.client(st.C)
	a := x.m.Allocs[c.Idx]
	if a == nil {
		return
	}
	switch {
	case a.RelaySock != nil:
		a.RelaySock.InjectReadError(errors.New("sim: injected relay read error"))
	case a.RelayLis != nil:
		a.RelayLis.InjectAcceptError(errors.New("sim: injected relay accept error"))
	default:
		return
	}
	x.settle()
	x.m.remove(c.Idx)
	x.St.inc("teardown:relay-error")
	x.checkWire(x.observe(), nil, nil, nil, "injected relay socket error")
}

// opCloseControl: a stream client hangs up; its allocation goes with the control connection.
func (x *Exec) opCloseControl(st *Step) {
	c := x.client(st.C)
	if !c.Stream || c.Dead {
		return
	}
	c.Dead = true
	_ = c.Conn.Close()
	x.settle()
	x.waitCallbacks()
	if x.m.remove(c.Idx) != nil {
		x.St.inc("teardown:control-connection-close")
	}
	x.checkWire(x.observe(), nil, nil, nil, "control connection closed by the client")
}

func (x *Exec) opCloseServer(st *Step) {
	if x.w.closed {
		return
	}
	inFlight := 0
	if st != nil && st.N > 0 {
		// peers with a live permission fire at the relays at the very moment of Close: the relay
		// loops are busy forwarding while the listening sockets and the managers go down
		for _, a := range x.m.Allocs {
			if a.RelaySock == nil || a.TCP {
				continue
			}
			for pi, ps := range x.w.peers {
				if pi < len(PeerPool) && a.permLive(ps.Local().IP) {
					for k := 0; k < st.N; k++ {
						_, _ = ps.WriteTo(synth(20+k, uint64(pi*31+k), ""), a.Relay)
						inFlight++
					}
				}
			}
		}
		if inFlight > 0 {
			x.St.inc("teardown:server-close-with-traffic-in-flight")
		}
	}
	if st != nil && st.Opt == "relay-close-error" {
		// the close of one allocation's relay socket reports an error: the others must be closed all the same
		for ci := range x.w.clients { // (in client order: never in map order)
			if a := x.m.Allocs[ci]; a != nil && a.RelaySock != nil {
				a.RelaySock.FailClose = true
				x.St.inc("teardown:server-close-with-failing-relay-close")

				break
			}
		}
	}
	x.w.closed = true
	_ = x.w.srv.Close() // an error (e.g. a listener socket the application closed itself) is not judged
	x.settle()
	x.waitCallbacks()
	if inFlight > 0 {
		_ = x.observe() // whether those datagrams still made it to the clients is not judged
	}
	for _, c := range x.w.clients {
		if c.Stream && !c.Dead {
			if !c.Conn.Peer().IsClosed() {
				x.fail([]string{"C15"}, "control-connection-open-after-close", "Server.Close left the accepted control connection of client %d open (its read loop keeps running and can still allocate)", c.Idx)

				return
			}
			c.Dead = true
		}
	}
	if len(x.m.Allocs) > 0 {
		x.St.inc("teardown:server-close-with-allocations")
	}
	for c := range x.m.Allocs {
		x.m.remove(c)
	}
	x.checkWire(x.observe(), nil, nil, nil, "Server.Close")
	if x.stop {
		return
	}
	if !x.w.srvSock.IsClosed() {
		x.fail([]string{"C15"}, "listener-open-after-close", "Server.Close left the listening socket open")

		return
	}
	if n := x.w.srv.AllocationCount(); n != 0 {
		x.fail([]string{"C15"}, "allocations-after-close", "Server.AllocationCount() = %d after Server.Close", n)
	}
}

// Run executes the whole script; it must be called inside a synctest bubble.
func Run(sc *Script, verbose bool) (x *Exec, err error) {
	w, err := NewWorld(sc.Cfg, verbose)
	if err != nil {
		return nil, err
	}
	x = &Exec{w: w, m: w.model, sc: sc, St: Stats{Labels: map[string]int{}}, tieRestore: -1}
	defer func() {
		w.Shutdown()
	}()
	x.settle()
	for _, c := range w.clients {
		x.tick()
		x.prime(c)
		if x.stop {
			return x, nil
		}
	}
	for i := range sc.Steps {
		st := &sc.Steps[i]
		w.stepNo = i
		x.tick()
		x.purgeModel()
		if w.closed && st.Op != "Sleep" {
			continue
		}
		w.tracef("step %d: %+v", i, *st)
		w.curOp = st.Op
		w.handlerYield.Store(0)
		if x.client(st.C).Dead && st.Op != "Sleep" && st.Op != "PeerData" && st.Op != "CloseServer" {
			continue
		}
		switch st.Op {
		case "CloseListenerSocket":
			// the application closes the UDP listening socket itself (Server.Close will then get an
			// error for it); the allocations made through it go away as with Server.Close
			if !x.w.srvSock.IsClosed() {
				_ = x.w.srvSock.Close()
				x.settle()
				x.waitCallbacks()
				for _, c := range x.w.clients {
					if !c.Stream {
						if x.m.remove(c.Idx) != nil {
							x.St.inc("teardown:listener-socket-closed")
						}
						c.Dead = true
					}
				}
				x.checkWire(x.observe(), nil, nil, nil, "listener socket closed by the application")
			}
		case "CloseControl":
			x.opCloseControl(st)
		case "Allocate":
			x.opAllocate(st)
		case "Refresh":
			x.opRefresh(st)
		case "CreatePermission":
			x.opCreatePermission(st)
		case "ChannelBind":
			x.opChannelBind(st)
		case "Send":
			x.opSend(st)
		case "ChannelData":
			x.opChannelData(st)
		case "PeerData":
			x.opPeerData(st)
		case "Binding":
			x.opBinding(st)
		case "Sleep":
			x.opSleep(st)
		case "RelayError":
			x.opRelayError(st)
		case "CloseServer":
			x.opCloseServer(st)
		default:
			if !x.opExtra(st) {
				return x, fmt.Errorf("unknown op %q", st.Op)
			}
		}
		if x.stop {
			break
		}
		x.purgeModel()
		x.crossCheck(fmt.Sprintf("after step %d (%s)", i, st.Op), st)
		if x.stop {
			break
		}
	}

	return x, nil
}

func (x *Exec) purgeModel() {
	for _, a := range x.m.purge(time.Now()) {
		_ = a
		x.St.inc("teardown:expiry")
	}
}
