package srvworld

import (
	"net"
	"sort"
	"time"

	"github.com/pion/turn/v5/internal/zzverif/sim"
)

// MChan is a channel binding in the reference model.
type MChan struct {
	Peer     *net.UDPAddr
	Deadline time.Time
	Binds    int
}

// MTCP is a peer TCP connection in the reference model.
type MTCP struct {
	ID       uint32
	Peer     *net.TCPAddr
	Inbound  bool
	Bound    bool
	Deadline time.Time
	SrvConn  *sim.Conn // the server's end of the peer connection
	PeerConn *sim.Conn // the peer's end
	DataConn *sim.Conn // client's data connection once bound
}

// MAlloc is an allocation in the reference model, built only from what the client saw on the wire.
type MAlloc struct {
	Client       int
	User         string
	Family       int // 1 IPv4, 2 IPv6
	TCP          bool
	Relay        *net.UDPAddr
	RelaySock    *sim.UDPSock
	RelayLis     *sim.Listener
	Deadline     time.Time
	CachedTx     [12]byte
	CachedResp   map[uint16][]byte
	Perms        map[string]time.Time
	PermInstalls map[string]int
	Chans        map[uint16]*MChan
	TCPs         map[uint32]*MTCP
	Refreshes    int
	CreatedStep  int
}

// Model is M-server.
type Model struct {
	cfg    *Config
	Allocs map[int]*MAlloc
	Gone   []*MAlloc
}

func newModel(cfg *Config) *Model {
	return &Model{cfg: cfg, Allocs: map[int]*MAlloc{}}
}

func canonIP(ip net.IP) string {
	if v4 := ip.To4(); v4 != nil {
		return v4.String()
	}

	return ip.String()
}

func familyOfIP(ip net.IP) int {
	if ip.To4() != nil {
		return 1
	}

	return 2
}

func (m *Model) liveCountOfUser(user string) int {
	n := 0
	for _, a := range m.Allocs {
		if a.User == user {
			n++
		}
	}

	return n
}

// purge removes what the deadlines say has expired at `now` (never a tie, see DESIGN §2.2).
func (m *Model) purge(now time.Time) (expired []*MAlloc) {
	for c, a := range m.Allocs {
		if !now.Before(a.Deadline) {
			delete(m.Allocs, c)
			m.Gone = append(m.Gone, a)
			expired = append(expired, a)

			continue
		}
		for ip, d := range a.Perms {
			if !now.Before(d) {
				delete(a.Perms, ip)
			}
		}
		for n, ch := range a.Chans {
			if !now.Before(ch.Deadline) {
				delete(a.Chans, n)
			}
		}
		for id, tc := range a.TCPs {
			if !tc.Bound && !now.Before(tc.Deadline) {
				delete(a.TCPs, id)
			}
		}
	}

	return expired
}

func (m *Model) remove(client int) *MAlloc {
	a := m.Allocs[client]
	if a != nil {
		delete(m.Allocs, client)
		m.Gone = append(m.Gone, a)
	}

	return a
}

func (a *MAlloc) permLive(ip net.IP) bool {
	_, ok := a.Perms[canonIP(ip)]

	return ok
}

func (a *MAlloc) chanByPeer(p *net.UDPAddr) (uint16, *MChan) {
	for n, ch := range a.Chans {
		if ch.Peer.IP.Equal(p.IP) && ch.Peer.Port == p.Port {
			return n, ch
		}
	}

	return 0, nil
}

func (a *MAlloc) sortedChans() []uint16 {
	var out []uint16
	for n := range a.Chans {
		out = append(out, n)
	}
	sort.Slice(out, func(i, j int) bool { return out[i] < out[j] })

	return out
}

// nearestDeadline returns the model deadline selected by a sleep step.
func (m *Model) deadlineFor(kind string, client int, peer *net.UDPAddr, ch uint16) (time.Time, bool) {
	a := m.Allocs[client]
	if a == nil {
		return time.Time{}, false
	}
	switch kind {
	case "alloc":
		return a.Deadline, true
	case "perm":
		if peer != nil {
			if d, ok := a.Perms[canonIP(peer.IP)]; ok {
				return d, true
			}
		}
		// any permission
		var best time.Time
		for _, d := range a.Perms {
			if best.IsZero() || d.Before(best) {
				best = d
			}
		}

		return best, !best.IsZero()
	case "chan":
		if c, ok := a.Chans[ch]; ok {
			return c.Deadline, true
		}
		var best time.Time
		for _, c := range a.Chans {
			if best.IsZero() || c.Deadline.Before(best) {
				best = c.Deadline
			}
		}

		return best, !best.IsZero()
	}

	return time.Time{}, false
}
