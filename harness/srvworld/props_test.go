package srvworld

import (
	"fmt"
	"strings"
	"testing"

	"github.com/pion/turn/v5/internal/zzverif/vkit"
)

func TestC02(t *testing.T) {
	runProp(t, &propSpec{
		id: "C02",
		profile: &Profile{
			Name: "C02", MinSteps: 6, MaxSteps: 32, MaxClient: 4, V6: true, Fragments: []string{"perm", "chan", "alloc"},
			Weights: map[string]int{"Allocate": 6, "Refresh": 4, "CreatePermission": 14, "ChannelBind": 12, "Send": 3, "ChannelData": 3, "PeerData": 36, "Sleep": 14},
		},
		nontrivial: func(st *Stats, _ *Script) bool {
			return has(st, "peer-drop:other-authorisation-live") && (has(st, "peerdata-via-channel") || has(st, "peerdata-via-indication"))
		},
	})
}

func TestC04(t *testing.T) {
	runProp(t, &propSpec{
		id: "C04",
		profile: &Profile{
			Name: "C04", MinSteps: 8, MaxSteps: 40, MaxClient: 4, OddSometimes: true, Streams: true, V6: true, RealGen: true, Fragments: []string{"perm", "chan", "alloc", "txpair", "txpair"},
			Weights: map[string]int{"Allocate": 10, "Refresh": 8, "CreatePermission": 12, "ChannelBind": 12, "Send": 12, "ChannelData": 12, "PeerData": 14, "Sleep": 6, "Binding": 2, "RelayError": 1, "CloseControl": 1},
		},
		nontrivial: func(st *Stats, sc *Script) bool {
			if len(sc.Cfg.Clients) < 2 || st.Labels["allocate-success"] < 2 {
				return false
			}

			return has(st, "cd-drop:other-clients-channel") || has(st, "txid-reused-across-clients") || has(st, "refresh-other-user") || has(st, "peer-drop:other-authorisation-live") || has(st, "allocate-437")
		},
		post: relationalC04,
	})
}

func TestC05(t *testing.T) {
	runProp(t, &propSpec{
		id: "C05",
		profile: &Profile{
			Name: "C05", MinSteps: 6, MaxSteps: 30, MaxClient: 2, BigData: true, MTU: true, Streams: true, V6: true, RealGen: true, Fragments: []string{"chan", "perm"},
			Weights: map[string]int{"Allocate": 4, "Refresh": 2, "CreatePermission": 12, "ChannelBind": 12, "Send": 20, "ChannelData": 20, "PeerData": 30, "Sleep": 6},
		},
		nontrivial: func(st *Stats, sc *Script) bool {
			relayed := has(st, "send-authorised") || has(st, "channeldata-authorised") || has(st, "peerdata-via-channel") || has(st, "peerdata-via-indication")
			if !relayed {
				return false
			}
			for _, s := range sc.Steps {
				if s.Op == "Send" || s.Op == "ChannelData" || s.Op == "PeerData" {
					if s.N%4 != 0 || s.Content != "" || (s.N > 1480 && s.N < 1720) {
						return true
					}
				}
			}

			return false
		},
		sweeps: func(r *vkit.Run) []*Script {
			// every payload length 0..1700 x direction x encapsulation on one allocation
			var out []*Script
			parts := max(r.NShards, 1)
			sc := &Script{Cfg: Config{DenyClient: -1, Clients: []int{0}}}
			sc.Steps = append(sc.Steps, Step{Op: "Allocate", Life: -1}, Step{Op: "CreatePermission", P: []int{0}, Life: -1}, Step{Op: "ChannelBind", P: []int{2}, Ch: 0, Life: -1})
			for n := r.Shard; n <= 1700; n += parts {
				seed := uint64(n)*3 + 1
				sc.Steps = append(sc.Steps,
					Step{Op: "Send", P: []int{0}, N: n, Seed: seed, Life: -1},
					Step{Op: "ChannelData", Ch: 0, N: n, Seed: seed + 1, Life: -1, Pad: map[bool]string{true: "none", false: ""}[n%2 == 1]},
					Step{Op: "PeerData", P: []int{0}, N: n, Seed: seed + 2, Life: -1},
					Step{Op: "PeerData", P: []int{2}, N: n, Seed: seed + 3, Life: -1})
			}
			out = append(out, sc)

			return out
		},
		assume: []string{"client->server datagrams of wire length >= InboundMTU may be dropped and shorter ones must be processed; peer->relay datagrams up to 1500 bytes must be relayed, longer ones may be dropped but never altered"},
	})
}

func TestC06(t *testing.T) {
	runProp(t, &propSpec{
		id: "C06",
		profile: &Profile{
			Name: "C06", MinSteps: 4, MaxSteps: 24, MaxClient: 2, Fragments: []string{"alloc"}, GenFail: true, V6: true,
			Weights: map[string]int{"Allocate": 12, "Refresh": 22, "CreatePermission": 8, "ChannelBind": 4, "Send": 10, "ChannelData": 2, "PeerData": 10, "Sleep": 30},
		},
		nontrivial: func(st *Stats, _ *Script) bool {
			return has(st, "refresh-success") && has(st, "sleep-to-before-alloc") && has(st, "sleep-to-after-alloc")
		},
	})
}

func TestC07(t *testing.T) {
	runProp(t, &propSpec{
		id: "C07",
		profile: &Profile{
			Name: "C07", MinSteps: 4, MaxSteps: 24, MaxClient: 2, LongAlloc: true, V6: true, Fragments: []string{"perm", "chan"},
			Weights: map[string]int{"Allocate": 3, "Refresh": 8, "CreatePermission": 18, "ChannelBind": 18, "Send": 10, "ChannelData": 8, "PeerData": 12, "Sleep": 26},
		},
		nontrivial: func(st *Stats, _ *Script) bool {
			refreshed := has(st, "perm-refreshed") || has(st, "chan-refreshed")
			probed := (has(st, "sleep-to-before-perm") && has(st, "sleep-to-after-perm")) || (has(st, "sleep-to-before-chan") && has(st, "sleep-to-after-chan"))

			return refreshed && probed
		},
	})
}

func TestC08(t *testing.T) {
	runProp(t, &propSpec{
		id: "C08",
		profile: &Profile{
			Name: "C08", MinSteps: 8, MaxSteps: 40, MaxClient: 3,
			Weights: map[string]int{"Allocate": 4, "Refresh": 3, "CreatePermission": 4, "ChannelBind": 44, "Send": 2, "ChannelData": 8, "PeerData": 12, "Sleep": 12},
		},
		nontrivial: func(st *Stats, _ *Script) bool {
			return has(st, "chan-bound") && (has(st, "chan-conflict-number") || has(st, "chan-conflict-peer") || has(st, "chan-out-of-range"))
		},
		sweeps: func(r *vkit.Run) []*Script {
			// ChannelBind of literal numbers on a peer that is free again (bindings expire after 5 s):
			// thorough = all 65536 numbers, quick = 64 around each class edge + a stride through the rest
			var nums []int
			if r.Thorough() {
				for n := r.Shard; n < 65536; n += max(r.NShards, 1) {
					nums = append(nums, n)
				}
			} else if r.Shard == 0 {
				for _, base := range []int{0, 0x3FC0, 0x7FC0, 0xFFC0} {
					for k := 0; k < 128 && base+k < 65536; k++ {
						nums = append(nums, base+k)
					}
				}
				for n := 257; n < 65536; n += 641 {
					nums = append(nums, n)
				}
			}
			var out []*Script
			for len(nums) > 0 {
				k := min(len(nums), 1500)
				sc := &Script{Cfg: Config{DenyClient: -1, Clients: []int{0}, AllocLifetimeS: 7200, PermTimeoutS: 5, ChanTimeoutS: 5}}
				sc.Steps = append(sc.Steps, Step{Op: "Allocate", Life: -1})
				for _, n := range nums[:k] {
					sc.Steps = append(sc.Steps, Step{Op: "ChannelBind", P: []int{0}, Ch: 1000 + n, Life: -1})
					if n >= 0x4000 && n <= 0x7FFF {
						sc.Steps = append(sc.Steps, Step{Op: "PeerData", P: []int{0}, N: 3, Seed: uint64(n), Life: -1}, Step{Op: "Sleep", N: 6, Life: -1})
					}
					if len(sc.Steps)%400 == 0 {
						sc.Steps = append(sc.Steps, Step{Op: "Refresh", Life: -1})
					}
				}
				nums = nums[k:]
				out = append(out, sc)
			}

			return out
		},
	})
}

func TestC19(t *testing.T) {
	runProp(t, &propSpec{
		id: "C19",
		profile: &Profile{
			Name: "C19", MinSteps: 6, MaxSteps: 36, MaxClient: 4, Odd: true, V6: true, Defects: true, Streams: true, GenFail: true,
			Weights: map[string]int{"Allocate": 30, "Refresh": 10, "CreatePermission": 8, "ChannelBind": 8, "Send": 3, "ChannelData": 2, "PeerData": 8, "Sleep": 8, "Binding": 10},
		},
		nontrivial: func(st *Stats, sc *Script) bool {
			return len(sc.Cfg.Clients) >= 2 && (has(st, "allocate-retransmission-judged") || has(st, "allocate-437")) && (has(st, "allocate-refused") || has(st, "createpermission-refused") || has(st, "allocate-437"))
		},
	})
}

func TestC15(t *testing.T) {
	runProp(t, &propSpec{
		id: "C15",
		profile: &Profile{
			Name: "C15", MinSteps: 6, MaxSteps: 36, MaxClient: 3, Odd: true, Teardown: true, SlowCB: true, Coincide: true, Streams: true, Fragments: []string{"perm"},
			Weights: map[string]int{"Allocate": 12, "Refresh": 10, "CreatePermission": 14, "ChannelBind": 14, "Send": 3, "ChannelData": 2, "PeerData": 4, "Sleep": 22, "RelayError": 5, "CloseServer": 3, "CloseControl": 4, "CloseListenerSocket": 2},
		},
		nontrivial: func(st *Stats, _ *Script) bool {
			td := has(st, "teardown:expiry") || has(st, "refresh-zero") || has(st, "teardown:relay-error") || has(st, "teardown:server-close-with-allocations")

			return td && has(st, "createpermission-success") && has(st, "chan-bound")
		},
	})
}

// TestC18Stall: a stream client stops reading while its relay is busy, and its allocation is torn
// down meanwhile; nobody else may be held up by that (see opStallTeardown). A lock-up shows as a
// frozen bubble, which the wall-clock watchdog of runCase reports.
func TestC18Stall(t *testing.T) {
	runProp(t, &propSpec{
		id: "C18",
		profile: &Profile{
			Name: "C18stall", MinSteps: 3, MaxSteps: 16, MaxClient: 3, Streams: true, StallStreams: true, Teardown: true, Fragments: []string{"stall", "stall", "stall", "chan"},
			Weights: map[string]int{"Allocate": 10, "Refresh": 8, "CreatePermission": 8, "ChannelBind": 8, "Send": 3, "ChannelData": 3, "PeerData": 10, "Sleep": 8, "Binding": 2, "CloseControl": 1},
		},
		nontrivial: func(st *Stats, _ *Script) bool {
			return has(st, "stall-teardown:refresh0") || has(st, "stall-teardown:expire") || has(st, "stall-teardown:close-ctrl") || has(st, "stall-teardown:chan-expire")
		},
	})
}

func TestC03(t *testing.T) {
	runProp(t, &propSpec{
		id: "C03",
		profile: &Profile{
			Name: "C03", MinSteps: 6, MaxSteps: 36, MaxClient: 3, Defects: true,
			Weights: map[string]int{"Allocate": 16, "Refresh": 16, "CreatePermission": 16, "ChannelBind": 14, "Send": 6, "ChannelData": 3, "PeerData": 6, "Sleep": 12},
		},
		nontrivial: func(st *Stats, _ *Script) bool {
			return has(st, "defective-judged") && has(st, "allocate-success")
		},
		assume: []string{"short-nonce ages between 60 and 61 minutes are not judged (one-minute resolution of the encoding); letter-case variants of a nonce are the same nonce; a consistent request under another realm is valid (the key is the handler's for the presented username and realm)"},
	})
}

func TestC09(t *testing.T) {
	runProp(t, &propSpec{
		id: "C09",
		profile: &Profile{
			Name: "C09", MinSteps: 6, MaxSteps: 30, MaxClient: 3, MTU: true,
			Weights: map[string]int{"Allocate": 6, "Refresh": 6, "CreatePermission": 8, "ChannelBind": 6, "Send": 8, "ChannelData": 4, "PeerData": 8, "Sleep": 2, "Hostile": 50, "Binding": 2},
		},
		nontrivial: func(st *Stats, _ *Script) bool {
			return has(st, "hostile-passes-demultiplexing") || has(st, "hostile-in-allocated-state")
		},
	})
}

// relationalC04 is the metamorphic form of C04: project the history onto one client (drop every
// other client's steps, keep the elapsed time), run it in a fresh world, and require that this
// client and the peers of its relay observe exactly the same.
func relationalC04(t *testing.T, r *vkit.Run, sc *Script, res caseResult) (string, string) {
	t.Helper()
	n := len(sc.Cfg.Clients)
	if n < 2 || sc.Cfg.Quota > 0 || sc.Cfg.GenFailAt > 0 || sc.Cfg.CallbackSleepS > 0 || sc.Cfg.RealGenPorts > 0 {
		return "", "" // a per-user quota, a scripted generator failure, slow callbacks and a range of a few relay ports couple clients by design
	}
	for _, st := range sc.Steps {
		if st.Opt != "" || st.TxFrom > 0 {
			return "", "" // reservation tokens and borrowed transaction ids are shared harness state
		}
		if st.Rel == "tie" || st.Rel == "alloc-tie" || st.Stall > 0 || strings.HasSuffix(st.Rel, "~") || strings.HasSuffix(st.Rel, "^") {
			return "", "" // time that passes inside another client's step cannot be kept in the projection
		}
	}
	who := int(vkit.Hash64(sc)>>8) % n
	proj := &Script{Cfg: sc.Cfg}
	for i, st := range sc.Steps {
		switch st.Op {
		case "Sleep":
			if d, ok := res.x.SleptFor[i]; ok && d > 0 {
				proj.Steps = append(proj.Steps, Step{Op: "Sleep", N: d, Life: -1})
			}
		case "CloseServer":
			proj.Steps = append(proj.Steps, st)
		default:
			if ((st.C%n)+n)%n == who {
				proj.Steps = append(proj.Steps, st)
			}
		}
	}
	r.Label("relational-projection")
	pres := runCase(t, proj, false)
	if res.x.Aborted || (pres.x != nil && pres.x.Aborted) {
		return "", "" // one of the two runs ended inside a tolerance band
	}
	if pres.x == nil || len(pres.x.Findings) > 0 {
		return "", "" // the projected history has its own finding: judged when it is generated directly
	}
	a, b := res.x.Obs[who], pres.x.Obs[who]
	for i := 0; i < len(a) || i < len(b); i++ {
		var sa, sb string
		if i < len(a) {
			sa = a[i]
		}
		if i < len(b) {
			sb = b[i]
		}
		if sa != sb {
			return "relational-divergence", fmt.Sprintf("client %d observes something else when the other clients' messages are removed from the history: observation %d is %q with them and %q without (of %d / %d observations)", who, i, sa, sb, len(a), len(b))
		}
	}

	return "", ""
}
