package srvworld

import (
	"errors"
	"fmt"
	"net"
	"os"
	"strings"
	"sync"
	"testing"
	"testing/synctest"
	"time"

	"github.com/pion/turn/v5/internal/zzverif/ref"
	"github.com/pion/turn/v5/internal/zzverif/sim"
	"github.com/pion/turn/v5/internal/zzverif/vkit"
	"pgregory.net/rapid"
)

// Storm is a concurrency case: every actor acts at the same virtual instants, from its own
// goroutine, without waiting for anybody. Only order-insensitive oracles apply.
type Storm struct {
	Seed         uint64 `json:"seed"`
	NClients     int    `json:"n_clients"`
	Rounds       int    `json:"rounds"`
	MaxLifeS     int    `json:"max_life_s"` // LIFETIME values 1..MaxLifeS so that expiries meet requests
	PermTimeoutS int    `json:"perm_timeout_s"`
	ChanTimeoutS int    `json:"chan_timeout_s"`
	CloseAtRound int    `json:"close_at_round"` // -1: only at the end
	SlowCBs      int    `json:"slow_cb_s"`      // AllocCreated/AllocDeleted callbacks sleep this long (virtual)
	SlowAuthMs   int    `json:"slow_auth_ms"`   // the auth handler sleeps this long (virtual)
	RelayErrors  bool   `json:"relay_errors"`
}

type stormResult struct {
	kind, msg string
	leak      string
	actions   int
	sameInst  int
	tcpAllocs int
	binds     int
}

func runStorm(t *testing.T, s *Storm) (res stormResult) {
	t.Helper()
	defer func() {
		if p := recover(); p != nil {
			str := fmt.Sprint(p)
			if strings.Contains(str, "blocked goroutines remain") || strings.Contains(str, "deadlock") {
				if res.kind == "" {
					res.kind, res.msg = "goroutine-leak", "after Server.Close, closing every socket and two hours of quiet, goroutines of the bubble are still blocked: "+str
				}

				return
			}
			panic(p)
		}
	}()
	synctest.Test(t, func(t *testing.T) { res = runStormInner(s) })

	return res
}

func runStormInner(s *Storm) (res stormResult) { //nolint:cyclop,gocyclo,maintidx
	cfg := Config{AllocLifetimeS: 30, PermTimeoutS: s.PermTimeoutS, ChanTimeoutS: s.ChanTimeoutS, DenyClient: -1, Deny: []int{3}}
	for i := 0; i < s.NClients; i++ {
		cfg.Clients = append(cfg.Clients, i)
	}
	if s.SlowCBs > 0 {
		cfg.CallbackSleepS, cfg.SlowCallback = s.SlowCBs, "all"
	}
	w, err := NewWorld(cfg, false)
	if err != nil {
		return stormResult{kind: "harness", msg: err.Error()}
	}
	w.curOp = "storm" // PermCreated callbacks never sleep in a storm (they may run under a lock)
	w.authSleep = time.Duration(s.SlowAuthMs) * time.Millisecond
	var mu sync.Mutex
	actions := 0
	var wg sync.WaitGroup
	closeServer := func() {
		mu.Lock()
		already := w.closed
		w.closed = true
		mu.Unlock()
		if !already {
			_ = w.srv.Close()
		}
	}
	for ci := range w.clients {
		c := w.clients[ci]
		wg.Add(1)
		go func() {
			defer wg.Done()
			r := &prng{s: s.Seed*1000003 + uint64(c.Idx)*7919}
			nonce := ""
			for round := 0; round < s.Rounds; round++ {
				time.Sleep(time.Second)
				// learn the latest nonce from whatever has arrived
				for {
					data, _, ok := c.Sock.TryRead()
					if !ok {
						break
					}
					if m, perr := ref.Parse(data); perr == nil {
						if v, has := m.Get(ref.AttrNonce); has {
							nonce = string(v)
						}
					}
				}
				k := 1 + r.n(3)
				for j := 0; j < k; j++ {
					m := &ref.Msg{Class: ref.ClassRequest, TxID: c.nextTx()}
					peer := r.n(4)
					auth := true
					switch r.n(9) {
					case 0, 1:
						m.Method = ref.MethodAllocate
						m.Add(ref.AttrRequestedTransport, []byte{17, 0, 0, 0})
						m.Add(ref.AttrLifetime, ref.U32(uint32(1+r.n(max(s.MaxLifeS, 1)))))
					case 2:
						m.Method = ref.MethodRefresh
						m.Add(ref.AttrLifetime, ref.U32(uint32(r.n(max(s.MaxLifeS, 1)+1))))
					case 3, 4:
						m.Method = ref.MethodCreatePermission
						m.Add(ref.AttrXORPeerAddress, xorPeerValue(peer, m.TxID))
						if r.n(3) == 0 {
							m.Add(ref.AttrXORPeerAddress, xorPeerValue(r.n(4), m.TxID))
						}
					case 5, 6:
						m.Method = ref.MethodChannelBind
						m.Add(ref.AttrChannelNumber, ref.ChannelNumberAttr(ChannelSlots[r.n(3)]))
						m.Add(ref.AttrXORPeerAddress, xorPeerValue(peer, m.TxID))
					case 7:
						m.Method, m.Class, auth = ref.MethodSend, ref.ClassIndication, false
						m.Add(ref.AttrXORPeerAddress, xorPeerValue(peer, m.TxID))
						m.Add(ref.AttrData, synth(r.n(30), r.next(), ""))
					default:
						auth = false
						_, _ = c.Sock.WriteTo(ref.EncodeChannelData(ChannelSlots[r.n(3)], synth(r.n(30), r.next(), ""), true), w.srvFor(c.Sock))
						mu.Lock()
						actions++
						mu.Unlock()

						continue
					}
					raw := m.Encode()
					if auth {
						u := Users[c.User]
						mm := &ref.Msg{Method: m.Method, Class: m.Class, TxID: m.TxID, Attrs: append([]ref.Attr{}, m.Attrs...)}
						mm.Add(ref.AttrUsername, []byte(u.Name))
						mm.Add(ref.AttrRealm, []byte(Realm))
						mm.Add(ref.AttrNonce, []byte(nonce))
						raw = ref.AddIntegrity(mm.Encode(), ref.LongTermKey(u.Name, Realm, u.Pass))
					}
					_, _ = c.Sock.WriteTo(raw, w.srvFor(c.Sock))
					mu.Lock()
					actions++
					mu.Unlock()
				}
			}
		}()
	}
	// peers: every round each peer fires at the relay ports that may exist
	for pi := 0; pi < 3; pi++ {
		p := w.peers[pi]
		wg.Add(1)
		go func() {
			defer wg.Done()
			r := &prng{s: s.Seed*31 + uint64(pi)}
			for round := 0; round < s.Rounds; round++ {
				time.Sleep(time.Second)
				for k := 0; k < 3; k++ {
					port := 40002 + 2*r.n(8)
					_, _ = p.WriteTo(synth(r.n(40), r.next(), ""), &net.UDPAddr{IP: RelayIP4, Port: port})
				}
				for {
					if _, _, ok := p.TryRead(); !ok {
						break
					}
				}
			}
		}()
	}
	// chaos: relay socket errors and Server.Close at a round boundary, racing with the actors
	wg.Add(1)
	go func() {
		defer wg.Done()
		r := &prng{s: s.Seed * 17}
		for round := 0; round < s.Rounds; round++ {
			time.Sleep(time.Second)
			if s.RelayErrors && r.n(4) == 0 {
				w.gen.mu.Lock()
				var open []*sim.UDPSock
				for _, g := range w.gen.made {
					if g.Sock != nil && !g.Sock.IsClosed() {
						open = append(open, g.Sock)
					}
				}
				w.gen.mu.Unlock()
				if len(open) > 0 {
					open[r.n(len(open))].InjectReadError(errors.New("sim: injected relay read error"))
				}
			}
			if s.CloseAtRound == round {
				closeServer()
			}
		}
	}()
	wg.Wait()
	synctest.Wait()
	closeServer()
	synctest.Wait()
	for i := 0; i < 3000 && w.callbacksActive() > 0; i++ {
		time.Sleep(time.Second)
	}
	time.Sleep(2 * time.Hour)
	synctest.Wait()
	res.actions = actions
	// ---- order-insensitive oracles
	if held := lockProbe(w.mgrs); held != "" {
		res.kind, res.msg = "lock-held-at-quiescence", held+" is still locked two hours after the server was closed"
	}
	if res.kind == "" {
		w.gen.mu.Lock()
		for _, g := range w.gen.made {
			if g.Sock != nil && !g.Sock.IsClosed() {
				res.kind, res.msg = "relay-socket-leaked", fmt.Sprintf("relay socket %v is still open after Server.Close and two hours", g.Sock)
			}
		}
		w.gen.mu.Unlock()
	}
	if res.kind == "" {
		if nAlloc := w.srv.AllocationCount(); nAlloc != 0 {
			res.kind, res.msg = "allocations-after-close", fmt.Sprintf("AllocationCount() = %d after Server.Close and two hours", nAlloc)
		}
	}
	if res.kind == "" {
		w.evMu.Lock()
		bal := map[string]int{}
		for _, e := range w.events {
			switch e.Kind {
			case "AllocCreated":
				bal["alloc|"+e.Src]++
			case "AllocDeleted":
				bal["alloc|"+e.Src]--
			case "PermCreated":
				bal["perm|"+e.Src+"|"+e.Relay+"|"+e.Peer]++
			case "PermDeleted":
				bal["perm|"+e.Src+"|"+e.Relay+"|"+e.Peer]--
			case "ChanCreated":
				bal[fmt.Sprintf("chan|%s|%s|%s|%d", e.Src, e.Relay, canonAddr(e.Peer), e.Channel)]++
			case "ChanDeleted":
				bal[fmt.Sprintf("chan|%s|%s|%s|%d", e.Src, e.Relay, canonAddr(e.Peer), e.Channel)]--
			}
		}
		nev := len(w.events)
		w.evMu.Unlock()
		for k, v := range bal {
			if v != 0 {
				res.kind, res.msg = "lifecycle-events-unbalanced", fmt.Sprintf("%s: created minus deleted callbacks = %+d after everything is gone (%d events in total)", k, v, nev)

				break
			}
		}
	}
	w.net.CloseAll()

	return res
}

func genStorm(rt *rapid.T) *Storm {
	s := &Storm{Seed: rapid.Uint64Range(1, 1<<40).Draw(rt, "seed")}
	s.NClients = rapid.IntRange(2, 4).Draw(rt, "nclients")
	s.Rounds = rapid.IntRange(6, 40).Draw(rt, "rounds")
	s.MaxLifeS = rapid.IntRange(1, 4).Draw(rt, "maxlife")
	s.PermTimeoutS = rapid.IntRange(1, 5).Draw(rt, "perm")
	s.ChanTimeoutS = rapid.IntRange(1, 5).Draw(rt, "chan")
	s.CloseAtRound = -1
	if rapid.IntRange(0, 2).Draw(rt, "closeEarly") == 0 {
		s.CloseAtRound = rapid.IntRange(1, s.Rounds-1).Draw(rt, "closeAt")
	}
	if rapid.IntRange(0, 2).Draw(rt, "slowcb") == 0 {
		s.SlowCBs = rapid.IntRange(1, 4).Draw(rt, "slowcbS")
	}
	if rapid.IntRange(0, 3).Draw(rt, "slowauth") == 0 {
		s.SlowAuthMs = rapid.SampledFrom([]int{1, 500, 1000, 2000}).Draw(rt, "slowauthMs")
	}
	s.RelayErrors = rapid.Bool().Draw(rt, "relayErrors")

	return s
}

func TestC18Storm(t *testing.T) {
	r := vkit.Start(t, "C18")
	defer r.Finish()
	r.Assume("interleavings are perturbed (same-instant actions from separate goroutines on all cores, coincident expiries, slow callbacks where no lock is held, race detector), not enumerated")
	do := func(s *Storm, sample string) (string, string) {
		r.Eval(1)
		res := runStorm(t, s)
		r.LabelN("storm-actions", res.actions)
		if res.actions > 0 {
			r.NonTrivial(vkit.Hash64(s))
			if s.CloseAtRound >= 0 {
				r.Label("close-racing-with-traffic")
			}
			if s.SlowCBs > 0 {
				r.Label("teardown-overlapping-slow-callback")
			}
			if sample != "" {
				r.Sample(sample, func() any { return s })
			}
		}
		if res.kind != "" && r.IsKnown("C18."+res.kind) {
			return "", ""
		}

		return res.kind, res.msg
	}
	if r.Replay != "" {
		var s Storm
		raw, _ := os.ReadFile(r.Replay)
		if err := vkit.LoadJSON(r.Replay, &s); err != nil || s.Rounds == 0 || strings.Contains(string(raw), "\"tcp_storm\"") {
			fmt.Println("REPLAY-NOT-MINE: not a storm case")

			return
		}
		kind, msg := do(&s, "")
		fmt.Printf("replay %s: kind=%q %s\n", r.Replay, kind, msg)
		if kind != "" {
			r.Violate(kind, msg, &s)
		}

		return
	}
	for _, f := range r.RegressFiles(".storm.json") {
		var s Storm
		if err := vkit.LoadJSON(f, &s); err != nil {
			t.Fatalf("bad regress file %s: %v", f, err)
		}
		if kind, msg := do(&s, ""); kind != "" {
			r.Violate(kind, "regress "+f+": "+msg, &s)
		}
	}
	if r.Violations() > 0 {
		return
	}
	r.Rapid(t, "storm", 0, r.Checks, func(rt *rapid.T) {
		s := genStorm(rt)
		r.Journal(s)
		kind, msg := do(s, "storm")
		if kind != "" {
			r.NoteFail(kind, msg, s)
			rt.Fatalf("C18 %s", kind)
		}
	})
}

func TestC18TCP(t *testing.T) {
	runTCPProp(t, "C18", false, func(st *Stats) bool { return has(st, "tcp:bind-success") && has(st, "tcp:connect-duplicate") })
}
