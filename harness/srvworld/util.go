package srvworld

import (
	"errors"
	"net"
)

func addrIPPort(a net.Addr) (net.IP, int, error) {
	switch v := a.(type) {
	case *net.UDPAddr:
		return v.IP, v.Port, nil
	case *net.TCPAddr:
		return v.IP, v.Port, nil
	}

	return nil, 0, errors.New("unknown address type")
}

// opExtra handles operations added by later files (TCP relay etc.); false = unknown.
func (x *Exec) opExtra(st *Step) bool {
	if f, ok := extraOps[st.Op]; ok {
		f(x, st)

		return true
	}

	return false
}

var extraOps = map[string]func(x *Exec, st *Step){}
