package srvworld

import (
	"bytes"
	"encoding/binary"
	"fmt"
	"net"
	"runtime"
	"sync"
	"time"

	"github.com/pion/turn/v5/internal/zzverif/ref"
	"github.com/pion/turn/v5/internal/zzverif/sim"
)

func (x *TExec) opTAllocate(st *TStep) {
	c := x.client(st.C)
	if c.closed {
		return
	}
	m := &ref.Msg{Method: ref.MethodAllocate, Class: ref.ClassRequest, TxID: c.nextTx()}
	m.Add(ref.AttrRequestedTransport, []byte{6, 0, 0, 0})
	if st.Life >= 0 {
		m.Add(ref.AttrLifetime, ref.U32(uint32(st.Life)))
	}
	ui := x.userIdx(c, st)
	t0 := time.Now()
	x.w.gen.mu.Lock()
	genBefore, failedBefore := len(x.w.gen.made), x.w.gen.failed
	x.w.gen.mu.Unlock()
	resp, _ := x.request(c, c.ctrl, &c.rbuf, ui, m)
	if x.stop || resp == nil {
		return
	}
	x.w.gen.mu.Lock()
	genFailed := x.w.gen.failed > failedBefore
	x.w.gen.mu.Unlock()
	if genFailed {
		// the operator's relay address generator had nothing to give: refused, and nothing remains
		if resp.Class == ref.ClassSuccess {
			x.fail([]string{"C19", "C20"}, "allocate-success-without-relay", "TCP Allocate answered with success although the relay address generator failed")
		}
		x.St.inc("tcp:allocate-generator-failed")

		return
	}
	if c.alloc != nil {
		if resp.Class == ref.ClassSuccess {
			x.fail([]string{"C19", "C04"}, "second-allocate-success", "second Allocate on a control connection that holds an allocation answered with success")
		}

		return
	}
	if st.Life == 0 {
		return
	}
	if resp.Class != ref.ClassSuccess {
		x.fail([]string{"X00"}, "tcp-allocate-refused", "TCP Allocate answered with %s", describe(resp))

		return
	}
	rv, _ := resp.Get(ref.AttrXORRelayedAddress)
	rip, rport, err := ref.UnxorAddr(rv, resp.TxID)
	if err != nil {
		x.fail([]string{"C19"}, "allocate-relayed-address", "TCP Allocate success without a decodable relayed address")

		return
	}
	a := &tAlloc{user: Users[ui].Name, relay: &net.TCPAddr{IP: rip, Port: rport}, perms: map[string]time.Time{}}
	a.deadline = t0.Add(grantedLifetime(&Config{AllocLifetimeS: x.w.cfg.AllocLifetimeS}, st.Life))
	x.w.gen.mu.Lock()
	for _, r := range x.w.gen.made[genBefore:] {
		if r.Lis != nil && r.Lis.TCPAddr().Port == rport {
			a.lis = r.Lis
		}
	}
	x.w.gen.mu.Unlock()
	if a.lis == nil || a.lis.IsClosed() {
		x.fail([]string{"C19", "C16"}, "allocate-relayed-address-not-bound", "TCP Allocate advertises %v but no open listener was handed out for it", a.relay)

		return
	}
	c.alloc = a
	x.St.inc("tcp:allocate")
}

func (x *TExec) opTRefresh(st *TStep) {
	c := x.client(st.C)
	if c.closed {
		return
	}
	m := &ref.Msg{Method: ref.MethodRefresh, Class: ref.ClassRequest, TxID: c.nextTx()}
	if st.Life >= 0 {
		m.Add(ref.AttrLifetime, ref.U32(uint32(st.Life)))
	}
	ui := x.userIdx(c, st)
	t0 := time.Now()
	resp, _ := x.request(c, c.ctrl, &c.rbuf, ui, m)
	if x.stop {
		return
	}
	ok := resp != nil && resp.Class == ref.ClassSuccess
	if c.alloc == nil || c.alloc.user != Users[ui].Name {
		if ok {
			x.fail([]string{"C03", "C06"}, "refresh-should-fail", "Refresh without an own allocation answered with success")
		}

		return
	}
	if !ok {
		x.fail([]string{"C06"}, "refresh-refused", "Refresh of a live TCP allocation answered with %s", respDesc(resp))

		return
	}
	g := grantedLifetime(&Config{AllocLifetimeS: x.w.cfg.AllocLifetimeS}, st.Life)
	if g == 0 {
		x.dropAlloc(c, "refresh-zero")
	} else {
		c.alloc.deadline = t0.Add(g)
	}
}

func (x *TExec) opTCreatePermission(st *TStep) {
	c := x.client(st.C)
	if c.closed {
		return
	}
	p := TCPPeers[st.P%len(TCPPeers)]
	m := &ref.Msg{Method: ref.MethodCreatePermission, Class: ref.ClassRequest, TxID: c.nextTx()}
	m.Add(ref.AttrXORPeerAddress, ref.XorAddr(p.IP, p.Port, m.TxID))
	ui := x.userIdx(c, st)
	t0 := time.Now()
	resp, _ := x.request(c, c.ctrl, &c.rbuf, ui, m)
	if x.stop {
		return
	}
	ok := resp != nil && resp.Class == ref.ClassSuccess
	if c.alloc == nil || c.alloc.user != Users[ui].Name || x.w.cfg.denied(p.IP) {
		if ok {
			x.fail([]string{"C01", "C03"}, "createpermission-should-fail", "CreatePermission (no own allocation / vetoed peer %v) answered with success", p)
		}

		return
	}
	if !ok {
		x.fail([]string{"X00"}, "createpermission-unexpectedly-refused", "CreatePermission answered with %s", respDesc(resp))

		return
	}
	c.alloc.perms[canonIP(p.IP)] = t0.Add(x.w.cfg.permTimeout())
	x.St.inc("tcp:permission")
}

func (x *TExec) client(i int) *tClient {
	n := len(x.w.clients)

	return x.w.clients[((i%n)+n)%n]
}

// liveTo reports a pending/active connection of a to peer.
func (a *tAlloc) liveTo(p *net.TCPAddr) *tConn {
	for _, tc := range a.conns {
		if !tc.gone && tc.peer.IP.Equal(p.IP) && tc.peer.Port == p.Port {
			return tc
		}
	}

	return nil
}

func (x *TExec) opConnect(st *TStep) { //nolint:cyclop
	c := x.client(st.C)
	if c.closed {
		return
	}
	pi := st.P % len(TCPPeers)
	p := TCPPeers[pi]
	m := &ref.Msg{Method: ref.MethodConnect, Class: ref.ClassRequest, TxID: c.nextTx()}
	if st.Mapped {
		// the same peer, spelled ::ffff:a.b.c.d with family IPv6: the server accepts both spellings
		m.Add(ref.AttrXORPeerAddress, ref.XorAddrMapped(p.IP, p.Port, m.TxID))
		x.St.inc("tcp:connect-peer-in-mapped-spelling")
	} else {
		m.Add(ref.AttrXORPeerAddress, ref.XorAddr(p.IP, p.Port, m.TxID))
	}
	ui := x.userIdx(c, st)
	t0 := time.Now()
	x.w.gen.mu.Lock()
	connCalls := len(x.w.gen.conns)
	x.w.gen.mu.Unlock()
	if st.N > 0 {
		x.w.gen.mu.Lock()
		x.w.gen.dialDelay = time.Duration(st.N) * time.Second
		x.w.gen.mu.Unlock()
		x.waitS = st.N + 2
		x.St.inc("tcp:connect-slow-dial")
	}
	if st.Dup {
		sim.RepeatNextRand64()
		x.St.inc("tcp:connect-with-repeating-random-source")
	}
	resp, _ := x.request(c, c.ctrl, &c.rbuf, ui, m)
	sim.CancelRepeatRand64()
	x.waitS = 0
	x.w.gen.mu.Lock()
	x.w.gen.dialDelay = 0
	x.w.gen.mu.Unlock()
	if x.stop {
		return
	}
	ok := resp != nil && resp.Class == ref.ClassSuccess
	a := c.alloc
	x.w.gen.mu.Lock()
	dialled := len(x.w.gen.conns) > connCalls
	x.w.gen.mu.Unlock()
	switch {
	case a == nil || a.user != Users[ui].Name:
		if ok {
			x.fail([]string{"C03", "C16"}, "connect-should-fail", "Connect without an own allocation answered with success")
		}

		return
	case x.w.cfg.denied(p.IP):
		x.St.inc("tcp:connect-vetoed")
		if ok || dialled {
			x.fail([]string{"C01", "C16"}, "connect-to-vetoed-peer", "Connect to operator-denied peer %v: success=%v, outbound connection attempted=%v", p, ok, dialled)
		}

		return
	case a.liveTo(p) != nil:
		x.St.inc("tcp:connect-duplicate")
		if resp == nil || resp.Class != ref.ClassError || resp.ErrorCode() != 446 {
			x.fail([]string{"C16"}, "duplicate-connect-not-446", "second Connect to %v answered with %s, expected 446", p, respDesc(resp))
		}

		return
	case pi == 2:
		x.St.inc("tcp:connect-refused-by-peer")
		if ok {
			x.fail([]string{"C16"}, "connect-success-without-connection", "Connect to a peer that refuses connections answered with success")
		}

		return
	}
	if st.N > 0 && !t0.Add(time.Duration(st.N)*time.Second+400*time.Millisecond).Before(a.deadline) {
		// the allocation's lifetime ran out while the server was still dialling: whatever is
		// answered, the connection that comes out of that dial belongs to nobody - it may not
		// stay (C15: peer connections are exactly those of the live allocations)
		x.St.inc("tcp:connect-outlives-allocation")
		x.settle()
		if pe := x.w.peers[pi].TryAccept(); pe != nil && !pe.Peer().IsClosed() {
			x.fail([]string{"C15", "C16", "C06"}, "connection-on-ended-allocation", "the allocation expired while the server was dialling %v for a Connect (answered with %s); the connection that resulted is still open at the server", p, respDesc(resp))
		}

		return
	}
	if !ok && st.Dup {
		// the id drawn was taken: refusing (or not answering) the Connect is fine, as long as the
		// connection that was dialled for it does not stay behind
		x.settle()
		if pe := x.w.peers[pi].TryAccept(); pe != nil && !pe.Peer().IsClosed() {
			x.fail([]string{"C16", "C15"}, "peer-connection-not-closed", "Connect refused (%s) after the id drawn for it was taken, but the connection dialled to %v stays open", respDesc(resp), p)
		}
		x.St.inc("tcp:connect-refused-on-id-collision")

		return
	}
	if !ok {
		props := []string{"X00"}
		for _, o := range x.w.clients {
			if o != c && o.alloc != nil && o.alloc.liveTo(p) != nil && resp != nil && resp.ErrorCode() == 446 {
				// refused because ANOTHER allocation has a connection to that peer
				props = []string{"C04", "C16"}
			}
		}
		x.fail(props, "connect-unexpectedly-refused", "Connect to %v answered with %s although this allocation has no connection to that peer", p, respDesc(resp))

		return
	}
	idv, has := resp.Get(ref.AttrConnectionID)
	if !has || len(idv) != 4 {
		x.fail([]string{"C16"}, "connect-without-id", "Connect success without CONNECTION-ID")

		return
	}
	id := binary.BigEndian.Uint32(idv)
	if x.w.seenIDs[id] {
		x.purge()        // (a slow dial may have outlasted a pending connection's bind deadline)
		inUse := !st.Dup // (with a repeating random source an id whose connection is gone may come back)
		for _, o := range x.w.clients {
			if o.alloc != nil {
				for _, tc := range o.alloc.conns {
					inUse = inUse || (tc.id == id && !tc.gone)
				}
			}
		}
		if inUse {
			x.fail(x.idProps(id, c), "connection-id-reused", "CONNECTION-ID %#x was handed out before (and names a connection that is still there)", id)

			return
		}
		// the id now names the new connection: the model's records of its former holders get an
		// id nobody was ever given, so that later binds aimed at them stay binds to a dead id
		for _, o := range x.w.clients {
			for _, al := range append([]*tAlloc{o.alloc}, x.w.gone...) {
				if al == nil {
					continue
				}
				for _, old := range al.conns {
					if old.id == id && old.gone {
						x.w.tombstones++
						old.id = 0xDEAD8000 + uint32(x.w.tombstones) //nolint:gosec
					}
				}
			}
		}
		x.St.inc("tcp:connection-id-of-a-gone-connection-drawn-again")
	}
	x.w.seenIDs[id] = true
	// a real connection from the relayed address must have reached the peer
	pe := x.w.peers[pi].TryAccept()
	if pe == nil {
		x.fail([]string{"C16"}, "connect-no-peer-connection", "Connect success names id %#x but no connection reached peer %v", id, p)

		return
	}
	ra, _ := pe.RemoteAddr().(*net.TCPAddr)
	if ra == nil || !ra.IP.Equal(a.relay.IP) || ra.Port != a.relay.Port {
		x.fail([]string{"C16"}, "connect-from-wrong-address", "the peer connection comes from %v, the relayed address is %v", pe.RemoteAddr(), a.relay)

		return
	}
	// the bind deadline runs from the moment the connection is registered (after the dial)
	treg := t0
	if st.N > 0 {
		treg = t0.Add(time.Duration(st.N)*time.Second + 400*time.Millisecond) // when the dial completed
	}
	tc := &tConn{id: id, peer: p, deadline: treg.Add(30 * time.Second), srvEnd: pe.Peer(), peerEnd: pe}
	if c.alloc != a && !tc.orphan {
		tc.gone = true // the allocation ran out while this step was under way (the purge above saw it)
	}
	a.conns = append(a.conns, tc)
	x.St.inc("tcp:connect-success")
}

// idProps: a connection id that is handed out twice breaks C16; when the connection that already
// carries it belongs to another client's allocation, one 5-tuple's connection has become
// reachable (bindable, closable) through another's id - C04.
func (x *TExec) idProps(id uint32, c *tClient) []string {
	props := []string{"C16"}
	for _, o := range x.w.clients {
		if o != c && o.alloc != nil {
			for _, tc := range o.alloc.conns {
				if tc.id == id && !tc.gone {
					return []string{"C16", "C04"}
				}
			}
		}
	}

	return props
}

func (x *TExec) opPeerConnect(st *TStep) {
	c := x.client(st.C)
	if c.hijacked != nil {
		return // a ConnectionAttempt indication would be written into what is now a data stream
	}
	pi := st.P % len(TCPPeers)
	p := TCPPeers[pi]
	var target *net.TCPAddr
	a := c.alloc
	if a != nil {
		target = a.relay
	} else {
		for i := len(x.w.gone) - 1; i >= 0 && target == nil; i-- {
			target = x.w.gone[i].relay
		}
	}
	if target == nil {
		return
	}
	src := &net.TCPAddr{IP: p.IP, Port: 0}
	if st.Same {
		src.Port = p.Port + 100
	}
	t0 := time.Now()
	pc, err := x.w.net.DialTCPFrom(src, target)
	x.settle()
	var msgs []*ref.Msg
	if !c.closed {
		msgs, _, _ = drainFrames(c.ctrl, &c.rbuf)
	}
	var others int
	for _, o := range x.w.clients {
		if o != c && !o.closed {
			om, _, _ := drainFrames(o.ctrl, &o.rbuf)
			others += len(om)
		}
	}
	if others > 0 {
		x.fail([]string{"C02", "C04"}, "connection-attempt-to-wrong-client", "an inbound peer connection to client %d's relayed address produced %d messages at other clients", c.idx, others)

		return
	}
	expect := false
	var peerSrc *net.TCPAddr
	if err == nil {
		peerSrc, _ = pc.LocalAddr().(*net.TCPAddr)
		expect = a != nil && !c.closed && peerSrc != nil
		if expect {
			if _, ok := a.perms[canonIP(p.IP)]; !ok {
				expect = false
				x.St.inc("tcp:inbound-without-permission")
			} else if a.liveTo(peerSrc) != nil {
				expect = false
				x.St.inc("tcp:inbound-duplicate")
			}
		}
	}
	var attempts []*ref.Msg
	for _, m := range msgs {
		if m.Class == ref.ClassIndication && m.Method == ref.MethodConnectionAttempt {
			attempts = append(attempts, m)
		} else {
			x.fail([]string{"C02", "C19"}, "unexpected-message", "inbound peer connection produced %s at the client", describe(m))

			return
		}
	}
	if !expect {
		if len(attempts) > 0 {
			x.fail([]string{"C02", "C16"}, "unauthorised-connection-attempt", "an inbound connection from %v without live permission (or to a dead allocation) was announced to the client", p)

			return
		}
		if err == nil {
			x.settle()
			if !pc.Peer().IsClosed() && a != nil && a.lis != nil && !a.lis.IsClosed() {
				x.fail([]string{"C02", "C16", "C15"}, "unauthorised-connection-kept", "the server keeps an unauthorised inbound peer connection from %v open", peerSrc)
			}
		}

		return
	}
	if len(attempts) != 1 {
		x.fail([]string{"C02", "C16", "C04"}, "connection-attempt-missing", "a permitted inbound connection from %v produced %d ConnectionAttempt indications", peerSrc, len(attempts))

		return
	}
	m := attempts[0]
	idv, ok1 := m.Get(ref.AttrConnectionID)
	pv, ok2 := m.Get(ref.AttrXORPeerAddress)
	ip, port, perr := ref.UnxorAddr(pv, m.TxID)
	if !ok1 || !ok2 || len(idv) != 4 || perr != nil || !ip.Equal(peerSrc.IP) || port != peerSrc.Port {
		x.fail([]string{"C16", "C05"}, "connection-attempt-attributes", "ConnectionAttempt names peer %v:%d, the connection came from %v", ip, port, peerSrc)

		return
	}
	id := binary.BigEndian.Uint32(idv)
	if x.w.seenIDs[id] {
		x.fail(x.idProps(id, c), "connection-id-reused", "CONNECTION-ID %#x was handed out before", id)

		return
	}
	x.w.seenIDs[id] = true
	a.conns = append(a.conns, &tConn{id: id, peer: peerSrc, inbound: true, deadline: t0.Add(30 * time.Second), srvEnd: pc.Peer(), peerEnd: pc})
	x.St.inc("tcp:inbound-announced")
}

// pick selects a connection of client c by slot (newest first); nil if none.
func (x *TExec) pick(c *tClient, k int) *tConn {
	if c.alloc == nil || len(c.alloc.conns) == 0 || k < 0 {
		return nil
	}
	cs := c.alloc.conns

	return cs[len(cs)-1-(k%len(cs))]
}

func (x *TExec) opConnectionBind(st *TStep) { //nolint:cyclop
	// the id may belong to another client's allocation (slot picked from client st.P)
	owner := x.client(st.P)
	c := x.client(st.C)
	tc := x.pick(owner, st.K)
	id := uint32(0xDEAD0000) + uint32(st.Seed&0xFFFF)
	if tc != nil {
		id = tc.id
	}
	onCtrl := st.Side == "ctrl" && tc != nil && !tc.gone && !tc.boundEver && c == owner && !c.closed && c.alloc != nil && !st.Tie && st.U == 0 &&
		time.Now().Before(tc.deadline) && !tc.peerEnd.IsClosed()
	var dc *sim.Conn
	var err error
	if onCtrl {
		// the request goes out on the control connection itself: this server accepts that, and the
		// control connection turns into the data connection (no further requests can be made on it)
		dc = c.ctrl
		x.St.inc("tcp:bind-on-the-control-connection")
	} else {
		x.w.dport++
		dc, err = x.w.net.DialTCPFrom(&net.TCPAddr{IP: c.addr.IP, Port: x.w.dport}, &net.TCPAddr{IP: ServerIP4, Port: ServerPort})
		if err != nil {
			return
		}
	}
	var rbuf []byte
	if onCtrl {
		rbuf = c.rbuf
	}
	m := &ref.Msg{Method: ref.MethodConnectionBind, Class: ref.ClassRequest, TxID: c.nextTx()}
	m.Add(ref.AttrConnectionID, ref.U32(id))
	ui := x.userIdx(c, st)
	// a bind at the very instant the 30 s deadline passes: it may win or lose against the timer,
	// but it cannot be answered with success and have its peer connection closed by the timer
	tied := false
	var restore time.Duration
	if st.Tie && tc != nil && !tc.gone && !tc.boundEver && c == owner && owner.alloc != nil && owner.alloc.user == Users[ui].Name &&
		owner.alloc.deadline.After(tc.deadline.Add(time.Second)) && !tc.peerEnd.IsClosed() {
		if d := time.Until(tc.deadline); d > 0 {
			restore = time.Duration(time.Now().UnixNano()) % time.Second
			time.Sleep(d)
			tied = true
			x.St.inc("tcp:bind-at-the-deadline")
			defer func() {
				// back onto the harness's own sub-second offset
				now := time.Duration(time.Now().UnixNano()) % time.Second
				time.Sleep((restore - now + time.Second) % time.Second)
			}()
		}
	}
	now := time.Now()
	if st.Side == "hangup" && !onCtrl && !tied && tc != nil && !tc.gone && !tc.boundEver && !tc.limbo && c == owner && owner.alloc != nil &&
		owner.alloc.user == Users[ui].Name && now.Before(tc.deadline) && !tc.peerEnd.IsClosed() {
		// the client sends a valid bind and closes the data connection at once: the server
		// cannot deliver its answer. Whether it counts the connection as bound or not, the peer
		// connection may not outlive the bind deadline.
		_, _ = dc.Write(x.sign(c, ui, m))
		_ = dc.Close()
		x.settle()
		if tc.srvEnd.IsClosed() {
			tc.gone = true // the server gave the pair up at once
			x.St.inc("tcp:bind-then-hangup:closed-at-once")
		} else {
			tc.limbo = true // then the bind deadline is the latest
			x.St.inc("tcp:bind-then-hangup:left-pending")
		}
		x.St.inc("tcp:bind-then-hangup")

		return
	}
	if tc != nil && tc.limbo {
		// (nothing is known about its state; a later bind is not judged)
		_ = dc.Close()
		x.settle()

		return
	}
	if tc == nil && !onCtrl && st.Seed&1 == 1 && c.nonce != "" {
		// a bind that will be refused (no such connection id) with another request right behind
		// it in the same segment: the connection stays a framed TURN connection, so both frames
		// are answered, in order
		b := &ref.Msg{Method: ref.MethodBinding, Class: ref.ClassRequest, TxID: c.nextTx()}
		if _, werr := dc.Write(append(x.sign(c, ui, m), b.Encode()...)); werr != nil {
			return
		}
		x.settle()
		msgs, _, _ := drainFrames(dc, &rbuf)
		x.St.inc("tcp:refused-bind-with-a-request-behind-it")
		switch {
		case len(msgs) >= 1 && msgs[0].TxID == m.TxID && msgs[0].Class == ref.ClassSuccess:
			x.fail([]string{"C16", "C03"}, "connectionbind-should-fail", "ConnectionBind for the unknown id %#x answered with success", id)
		case len(msgs) == 1 && msgs[0].Class == ref.ClassError && msgs[0].ErrorCode() == 438:
			// (stale nonce: both refused alike; nothing to learn here)
		case len(msgs) != 2 || msgs[0].TxID != m.TxID || msgs[1].TxID != b.TxID || msgs[1].Class != ref.ClassSuccess:
			x.fail([]string{"C10", "C09", "C19"}, "frame-behind-refused-bind-lost", "a refused ConnectionBind and a Binding request written in one segment were answered with %d messages (expected the error and the Binding success, in this order)", len(msgs))
		}
		_ = dc.Close()
		x.settle()

		return
	}
	resp, _ := x.request(c, dc, &rbuf, ui, m)
	if x.stop {
		return
	}
	if tc != nil && (c != owner || owner.alloc == nil || owner.alloc.user != Users[ui].Name) {
		tc.foreignTried = true // somebody other than the owner asked for this connection id
	}
	ok := resp != nil && resp.Class == ref.ClassSuccess
	if tied {
		if !ok {
			tc.gone = true // the timer won
			_ = dc.Close()
			x.settle()

			return
		}
		// the bind won: the connection is bound and stays (the check after the step sees to it)
		tc.bound, tc.boundEver, tc.dataEnd = true, true, dc
		x.St.inc("tcp:bind-success")

		return
	}
	want := tc != nil && !tc.gone && !tc.boundEver && owner.alloc != nil && owner.alloc.user == Users[ui].Name && now.Before(tc.deadline)
	switch {
	case tc == nil:
		x.St.inc("tcp:bind-unknown-id")
	case tc.boundEver:
		x.St.inc("tcp:bind-repeated")
	case tc.gone || !now.Before(tc.deadline):
		x.St.inc("tcp:bind-late")
	case owner.alloc != nil && owner.alloc.user != Users[ui].Name:
		x.St.inc("tcp:bind-other-user")
	}
	if ok && !want {
		x.fail([]string{"C16", "C03"}, "connectionbind-should-fail", "ConnectionBind for id %#x (known=%v bound-before=%v gone=%v owner-user-matches=%v age=%v) answered with success", id, tc != nil, tc != nil && tc.boundEver, tc != nil && tc.gone, tc != nil && owner.alloc != nil && owner.alloc.user == Users[ui].Name, func() time.Duration {
			if tc == nil {
				return 0
			}

			return 30*time.Second - tc.deadline.Sub(now)
		}())

		return
	}
	if !ok {
		if want {
			props := []string{"C16", "C03"}
			if tc.foreignTried {
				props = append(props, "C04") // another 5-tuple's request changed this allocation's connection
			}
			x.fail(props, "connectionbind-refused", "ConnectionBind for pending id %#x by the allocation's user within 30 s answered with %s", id, respDesc(resp))

			return
		}
		if !onCtrl {
			_ = dc.Close()
		}
		x.settle()

		return
	}
	tc.bound, tc.boundEver, tc.dataEnd = true, true, dc
	x.St.inc("tcp:bind-success")
	if onCtrl {
		c.closed, c.hijacked = true, tc
	}
	if tc.peerEnd.IsClosed() {
		// the peer hung up while the connection was pending: the pair ends at once
		tc.gone, tc.bound = true, false
		x.St.inc("tcp:bound-to-closed-peer")
	}
}

func (x *TExec) opTCPData(st *TStep) {
	c := x.client(st.C)
	tc := x.pick(c, st.K)
	if tc == nil || !tc.bound || tc.gone {
		return
	}
	if st.Side == "both" {
		x.opTCPDuplex(tc, st)

		return
	}
	data := synth(max(st.N, 1), st.Seed, "")
	from, to := tc.dataEnd, tc.peerEnd
	if st.Side == "peer" {
		from, to = tc.peerEnd, tc.dataEnd
	}
	cuts := max(st.Cuts, 1)
	chunk := (len(data) + cuts - 1) / cuts
	for off := 0; off < len(data); off += chunk {
		end := min(off+chunk, len(data))
		if _, err := from.Write(data[off:end]); err != nil {
			x.fail([]string{"C16"}, "bound-connection-write-failed", "write on a bound connection failed: %v", err)

			return
		}
		x.settle()
	}
	got, _ := to.ReadAvailable()
	if st.Side == "peer" {
		tc.toClient = append(tc.toClient, data...)
		tc.gotClient = append(tc.gotClient, got...)
		if !bytes.Equal(tc.toClient, tc.gotClient) {
			x.fail([]string{"C16"}, "stream-corrupted", "peer->client: %d bytes written, %d bytes arrived (first difference at %d)", len(tc.toClient), len(tc.gotClient), firstDiff(tc.toClient, tc.gotClient))
		}
	} else {
		tc.toPeer = append(tc.toPeer, data...)
		tc.gotPeer = append(tc.gotPeer, got...)
		if !bytes.Equal(tc.toPeer, tc.gotPeer) {
			x.fail([]string{"C16"}, "stream-corrupted", "client->peer: %d bytes written, %d bytes arrived (first difference at %d)", len(tc.toPeer), len(tc.gotPeer), firstDiff(tc.toPeer, tc.gotPeer))
		}
	}
	x.St.inc("tcp:data-" + map[bool]string{true: "peer-to-client", false: "client-to-peer"}[st.Side == "peer"])
}

// opTCPDuplex: both ends of a bound pair write at the same time, chunk after chunk, without
// waiting for each other - the two copy directions are busy simultaneously.
func (x *TExec) opTCPDuplex(tc *tConn, st *TStep) {
	n := min(max(st.N, 1), 24000)
	up, down := synth(n, st.Seed, ""), synth(n, st.Seed^0x5a5a5a, "")
	cuts := max(st.Cuts, 1) * 8
	chunk := (n + cuts - 1) / cuts
	var wg sync.WaitGroup
	write := func(end *sim.Conn, data []byte) {
		defer wg.Done()
		for off := 0; off < len(data); off += chunk {
			if _, err := end.Write(data[off:min(off+chunk, len(data))]); err != nil {
				return
			}
			runtime.Gosched()
		}
	}
	wg.Add(2)
	go write(tc.dataEnd, up)
	go write(tc.peerEnd, down)
	wg.Wait()
	x.settle()
	gotP, _ := tc.peerEnd.ReadAvailable()
	gotC, _ := tc.dataEnd.ReadAvailable()
	tc.toPeer, tc.gotPeer = append(tc.toPeer, up...), append(tc.gotPeer, gotP...)
	tc.toClient, tc.gotClient = append(tc.toClient, down...), append(tc.gotClient, gotC...)
	if !bytes.Equal(tc.toPeer, tc.gotPeer) {
		x.fail([]string{"C16"}, "stream-corrupted", "both directions busy, client->peer: %d bytes written, %d bytes arrived (first difference at %d)", len(tc.toPeer), len(tc.gotPeer), firstDiff(tc.toPeer, tc.gotPeer))

		return
	}
	if !bytes.Equal(tc.toClient, tc.gotClient) {
		x.fail([]string{"C16"}, "stream-corrupted", "both directions busy, peer->client: %d bytes written, %d bytes arrived (first difference at %d)", len(tc.toClient), len(tc.gotClient), firstDiff(tc.toClient, tc.gotClient))

		return
	}
	x.St.inc("tcp:data-both-directions-at-once")
}

func (x *TExec) opTCPClose(st *TStep) {
	c := x.client(st.C)
	switch st.Side {
	case "control":
		if c.closed {
			return
		}
		c.closed = true
		_ = c.ctrl.Close()
		x.settle()
		x.dropAlloc(c, "control-connection-close")

		return
	}
	tc := x.pick(c, st.K)
	if tc == nil || tc.gone {
		return
	}
	if st.Side == "peer" {
		_ = tc.peerEnd.Close()
	} else if tc.dataEnd != nil {
		_ = tc.dataEnd.Close()
	} else {
		return
	}
	x.settle()
	if tc.bound {
		// closing one side closes the other and forgets the connection
		tc.gone = true
		tc.bound = false
		x.St.inc("tcp:bound-closed-by-" + st.Side)
	} else if st.Side == "peer" {
		// an unbound connection closed by the peer: the server notices at the bind deadline at the latest
		x.St.inc("tcp:unbound-closed-by-peer")
	}
}

func (x *TExec) opTSleep(st *TStep) {
	if st.N <= 0 {
		return
	}
	time.Sleep(time.Duration(st.N) * time.Second)
	x.settle()
	for _, c := range x.w.clients {
		if c.closed {
			continue
		}
		msgs, _, _ := drainFrames(c.ctrl, &c.rbuf)
		if len(msgs) > 0 {
			x.fail([]string{"C02", "C19"}, "spontaneous-message", "client %d received %s during a sleep", c.idx, describe(msgs[0]))

			return
		}
	}
}

// check runs after every step.
func (x *TExec) check(ctx string) { //nolint:cyclop
	if x.stop {
		return
	}
	if held := lockProbe(x.w.mgrs); held != "" {
		x.fail([]string{"C16", "C18"}, "lock-held-at-quiescence", "%s: %s is still locked although every goroutine is idle", ctx, held)

		return
	}
	live := 0
	for _, c := range x.w.clients {
		if c.alloc != nil {
			live++
		}
	}
	if got := x.w.srv.AllocationCount(); got != live {
		x.fail([]string{"C15", "C06", "C16"}, "allocation-count", "%s: AllocationCount() = %d, model %d", ctx, got, live)

		return
	}
	all := []*tAlloc{}
	for _, c := range x.w.clients {
		if c.alloc != nil {
			all = append(all, c.alloc)
		}
	}
	all = append(all, x.w.gone...)
	for _, a := range all {
		dead := true
		for _, c := range x.w.clients {
			if c.alloc == a {
				dead = false
			}
		}
		if dead && a.lis != nil && !a.lis.IsClosed() {
			x.fail([]string{"C15", "C06"}, "relay-listener-leaked", "%s: relay listener %v of a deleted allocation is still open", ctx, a.lis)

			return
		}
		if !dead && a.lis.IsClosed() {
			x.fail([]string{"C15", "C06"}, "relay-listener-closed-early", "%s: relay listener of a live allocation is closed", ctx)

			return
		}
		for _, tc := range a.conns {
			switch {
			case tc.gone && !tc.srvEnd.IsClosed():
				props := []string{"C16", "C15"}
				if tc.foreignTried {
					props = append(props, "C04")
				}
				x.fail(props, "peer-connection-not-closed", "%s: peer connection %#x (%v) should be gone (unbound for 30 s, closed by the other side, or allocation deleted) but the server keeps it open", ctx, tc.id, tc.peer)

				return
			case tc.gone && tc.dataEnd != nil && !tc.dataEnd.Peer().IsClosed():
				x.fail([]string{"C16", "C15"}, "data-connection-not-closed", "%s: the client data connection of %#x is still open at the server after the peer side ended", ctx, tc.id)

				return
			case !tc.gone && !tc.limbo && tc.srvEnd.IsClosed() && !tc.peerEnd.IsClosed():
				early := []string{"C16"}
				if tc.foreignTried {
					early = append(early, "C04") // somebody else's (refused) request named this connection before
				}
				x.fail(early, "peer-connection-closed-early", "%s: the server closed pending/bound peer connection %#x (%v), age %v", ctx, tc.id, tc.peer, 30*time.Second-time.Until(tc.deadline))

				return
			}
		}
	}
	// liveness: the manager still serves a request on every open control connection
	for _, c := range x.w.clients {
		if c.closed {
			continue
		}
		m := &ref.Msg{Method: ref.MethodBinding, Class: ref.ClassRequest, TxID: c.nextTx()}
		if _, err := c.ctrl.Write(m.Encode()); err != nil {
			x.fail([]string{"C16", "C09"}, "control-connection-dead", "%s: control connection of client %d is closed by the server", ctx, c.idx)

			return
		}
		x.settle()
		msgs, _, _ := drainFrames(c.ctrl, &c.rbuf)
		if len(msgs) != 1 || msgs[0].TxID != m.TxID || msgs[0].Class != ref.ClassSuccess {
			x.fail([]string{"C16", "C09"}, "liveness-probe", "%s: Binding probe on client %d's control connection got %d messages", ctx, c.idx, len(msgs))

			return
		}
	}
}

// RunTCP executes a TScript inside a bubble.
func RunTCP(sc *TScript) (*TExec, error) {
	w, err := newTWorld(sc.Cfg)
	if err != nil {
		return nil, err
	}
	x := &TExec{w: w, St: Stats{Labels: map[string]int{}}}
	defer func() {
		_ = w.srv.Close()
		x.settle()
		if !x.stop {
			// once the server has been closed nothing remains: also the control connections it accepted
			for _, c := range w.clients {
				if !c.closed && !c.ctrl.Peer().IsClosed() {
					x.fail([]string{"C15"}, "control-connection-open-after-close", "Server.Close left the accepted control connection of client %d open (its read loop goroutine keeps running)", c.idx)

					break
				}
			}
		}
		w.net.CloseAll()
	}()
	x.settle()
	for i := range sc.Steps {
		st := &sc.Steps[i]
		w.stepNo = i
		time.Sleep(100 * time.Microsecond)
		x.purge()
		w.trace = append(w.trace, fmt.Sprintf("[%s] step %d: %+v", time.Now().UTC().Format("15:04:05.0000"), i, *st))
		switch st.Op {
		case "Allocate":
			x.opTAllocate(st)
		case "Refresh":
			x.opTRefresh(st)
		case "CreatePermission":
			x.opTCreatePermission(st)
		case "Connect":
			x.opConnect(st)
		case "PeerConnect":
			x.opPeerConnect(st)
		case "ConnectionBind":
			x.opConnectionBind(st)
		case "TCPData":
			x.opTCPData(st)
		case "TCPClose":
			x.opTCPClose(st)
		case "Sleep":
			x.opTSleep(st)
		case "HostileStream":
			x.opHostileStream(st)
		default:
			return x, fmt.Errorf("unknown tcp op %q", st.Op)
		}
		if x.stop {
			break
		}
		x.purge()
		x.check(fmt.Sprintf("after step %d (%s)", i, st.Op))
		if x.stop {
			break
		}
	}

	return x, nil
}

var _ = sim.NewNet
