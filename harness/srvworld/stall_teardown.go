package srvworld

import (
	"fmt"
	"net"
	"sync/atomic"
	"time"

	"github.com/pion/turn/v5/internal/zzverif/ref"
)

// progress counts executed steps of all bubbles of this process; the wall-clock watchdog of
// runCase reads it (a lock-up freezes the bubble's clock, so nothing inside can notice it).
var progress atomic.Int64

func init() { extraOps["StallTeardown"] = (*Exec).opStallTeardown }

// opStallTeardown: a stream client stops reading its control connection while a peer that it
// authorised keeps sending, so that the server's relay of that allocation sits in a blocked write
// (receive window closed). While it sits there the allocation is torn down - by the client's
// own Refresh(0), by the lifetime running out, by the client hanging up - or its channel binding
// expires. Whatever happens to that allocation, everybody else must still be served:
// another client's request is answered and Server.AllocationCount returns. Then the client
// reads again and life goes on.
func (x *Exec) opStallTeardown(st *Step) { //nolint:cyclop
	c := x.client(st.C)
	a := x.m.Allocs[c.Idx]
	if !c.Stream || c.Dead || x.w.cfg.StreamWindow <= 0 || a == nil || a.TCP || a.Client != c.Idx || x.w.cfg.CallbackSleepS != 0 || len(st.P) == 0 {
		x.St.inc("stall-teardown-skipped:no-stream-allocation")

		return
	}
	n := len(x.w.peers)
	ps := x.w.peers[((st.P[0]%n)+n)%n]
	src := &net.UDPAddr{IP: ps.Local().IP, Port: ps.Local().Port}
	_, ch := a.chanByPeer(src)
	if ch == nil && !a.permLive(src.IP) {
		x.St.inc("stall-teardown-skipped:peer-not-authorised")

		return
	}
	kind := st.Opt
	ui := x.userIdx(c, st)
	nonceMinutes := time.Now().Unix()/60 - c.NonceAt.Unix()/60
	if kind == "refresh0" && (!x.owns(a, ui) || nonceMinutes >= 59) {
		kind = "expire"
	}
	if kind == "chan-expire" && (ch == nil || !ch.Deadline.Add(2*time.Second).Before(a.Deadline)) {
		kind = "expire"
	}
	if d := time.Until(a.Deadline); kind == "expire" && d > 2*time.Hour {
		kind = "close-ctrl"
	}
	// 1. the client stops reading; the peer fills the window and more
	c.Stalled = true
	size := min(max(st.N, 40), 1200)
	count := 3*x.w.cfg.StreamWindow/(size+4) + 3
	for i := 0; i < count; i++ {
		_, _ = ps.WriteTo(synth(size, st.Seed+uint64(i)*977, ""), a.Relay) //nolint:gosec
	}
	x.settle()
	x.observe()
	if ch != nil {
		x.St.inc("stall-teardown:relayed-as-channeldata")
	} else {
		x.St.inc("stall-teardown:relayed-as-data-indication")
	}
	x.St.inc("stall-teardown:" + kind)
	x.w.tracef("stalled stream client %d with %d datagrams of %d bytes queued for it; now: %s", c.Idx, count, size, kind)
	// 2. the allocation goes away (or its binding expires) while the relay is stuck in the write
	switch kind {
	case "refresh0":
		rm := &ref.Msg{Method: ref.MethodRefresh, Class: ref.ClassRequest, TxID: c.nextTx()}
		rm.Add(ref.AttrLifetime, ref.U32(0))
		raw, _, _ := x.signed(c, ui, rm, "", 0)
		x.purgeModel()
		x.w.send(c, raw)
		x.m.remove(c.Idx)
		c.HasAlloc = false
	case "close-ctrl":
		c.Dead = true
		_ = c.Conn.Close()
		x.m.remove(c.Idx)
		c.HasAlloc = false
	case "chan-expire":
		time.Sleep(time.Until(ch.Deadline) + time.Second)
		x.slept = true
	default:
		time.Sleep(time.Until(a.Deadline) + time.Second)
		x.slept = true
	}
	for _, o := range x.w.clients {
		o.freshChallenge = false
	}
	x.settle()
	x.waitCallbacks()
	x.purgeModel()
	// 3. everybody else is served
	done := make(chan int, 1)
	go func() { done <- x.w.srv.AllocationCount() }()
	x.settle()
	select {
	case <-done:
	default:
		x.fail([]string{"C18"}, "allocation-count-blocked", "Server.AllocationCount does not return while stream client %d does not read (%s)", c.Idx, kind)

		return
	}
	for _, b := range x.w.clients {
		if b == c || b.Dead || x.stop {
			continue
		}
		x.tick()
		findings := len(x.Findings)
		x.opRefresh(&Step{Op: "Refresh", C: b.Idx, Life: -1})
		if len(x.Findings) > findings {
			f := &x.Findings[len(x.Findings)-1]
			f.Props = append(f.Props, "C18")
			f.Msg = fmt.Sprintf("while stream client %d does not read (%s): %s", c.Idx, kind, f.Msg)
		}
		x.St.inc("stall-teardown:other-client-served")

		break
	}
	if x.stop {
		return
	}
	// 4. the client reads again: everything queued for it drains
	c.Stalled = false
	sawRefresh := false
	for round := 0; round < 8192 && !c.Dead; round++ {
		data, _ := c.Conn.ReadAvailable()
		c.rbuf = append(c.rbuf, data...)
		for {
			k, sz, complete := ref.NextFrame(c.rbuf)
			if k == ref.FrameInvalid {
				x.fail([]string{"C09", "C10", "C18"}, "server-sent-garbage", "after the stall the server's bytes on client %d's control connection cannot begin a TURN frame: %x", c.Idx, c.rbuf[:min(len(c.rbuf), 16)])

				return
			}
			if !complete || sz == 0 {
				break
			}
			if k == ref.FrameSTUN {
				if m, err := ref.Parse(c.rbuf[:sz]); err == nil && m.Method == ref.MethodRefresh && m.Class == ref.ClassSuccess {
					sawRefresh = true
				}
			}
			c.rbuf = c.rbuf[sz:]
		}
		x.settle()
		if len(data) == 0 {
			break
		}
	}
	if kind == "refresh0" && !sawRefresh && !x.stop {
		x.fail([]string{"C18", "C06"}, "refresh0-unanswered-after-stall", "client %d sent Refresh(0) while it was not reading; after it read everything that was queued there is no Refresh success", c.Idx)

		return
	}
	c.rbuf = nil
	x.observe()
}
