package srvworld

import (
	"encoding/binary"
	"fmt"
	"net"
	"time"

	"github.com/pion/turn/v5/internal/zzverif/sim"

	"github.com/pion/turn/v5/internal/zzverif/ref"
)

type prng struct{ s uint64 }

func (p *prng) next() uint64 {
	p.s += 0x9e3779b97f4a7c15
	z := p.s
	z = (z ^ (z >> 30)) * 0xbf58476d1ce4e5b9
	z = (z ^ (z >> 27)) * 0x94d049bb133111eb

	return z ^ (z >> 31)
}
func (p *prng) n(k int) int {
	if k <= 0 {
		return 0
	}

	return int(p.next() % uint64(k))
}

// baseRequest builds a plausible request of the given kind for client c in the current state.
func (x *Exec) baseRequest(c *Client, kind int, r *prng) *ref.Msg {
	m := &ref.Msg{Class: ref.ClassRequest, TxID: c.nextTx()}
	peer := r.n(4)
	switch kind % 7 {
	case 0:
		m.Method = ref.MethodAllocate
		m.Add(ref.AttrRequestedTransport, []byte{17, 0, 0, 0})
	case 1:
		m.Method = ref.MethodRefresh
		m.Add(ref.AttrLifetime, ref.U32(uint32(600+r.n(100))))
	case 2:
		m.Method = ref.MethodCreatePermission
		m.Add(ref.AttrXORPeerAddress, xorPeerValue(peer, m.TxID))
	case 3:
		m.Method = ref.MethodChannelBind
		m.Add(ref.AttrChannelNumber, ref.ChannelNumberAttr(ChannelSlots[r.n(3)]))
		m.Add(ref.AttrXORPeerAddress, xorPeerValue(peer, m.TxID))
	case 4:
		m.Method, m.Class = ref.MethodSend, ref.ClassIndication
		m.Add(ref.AttrXORPeerAddress, xorPeerValue(peer, m.TxID))
		m.Add(ref.AttrData, synth(r.n(40), r.next(), ""))
	case 5:
		m.Method = ref.MethodConnect
		m.Add(ref.AttrXORPeerAddress, xorPeerValue(peer, m.TxID))
	default:
		m.Method = ref.MethodConnectionBind
		m.Add(ref.AttrConnectionID, ref.U32(uint32(r.next())))
	}

	return m
}

// hostileAttr returns a wrong-sized / extreme value for a TURN attribute.
func hostileAttr(r *prng) (uint16, []byte) {
	types := []uint16{ref.AttrXORPeerAddress, ref.AttrChannelNumber, ref.AttrLifetime, ref.AttrData, ref.AttrRequestedTransport,
		ref.AttrEvenPort, ref.AttrReservationToken, ref.AttrConnectionID, ref.AttrRequestedAddressFamily, ref.AttrDontFragment,
		ref.AttrXORRelayedAddress, ref.AttrUsername, ref.AttrRealm, ref.AttrNonce, ref.AttrErrorCode, ref.AttrMessageIntegrity, ref.AttrFingerprint, ref.AttrXORMappedAddress}
	t := types[r.n(len(types))]
	lens := []int{0, 1, 2, 3, 4, 5, 7, 8, 9, 16, 19, 20, 21, 64, 763, 1400}
	l := lens[r.n(len(lens))]
	v := synth(l, r.next(), "")
	if t == ref.AttrXORPeerAddress && l >= 2 && r.n(2) == 0 {
		v[0], v[1] = 0, byte(r.n(4))
	}

	return t, v
}

// hostileBytes derives the hostile datagram of a step deterministically from (N, Seed).
func (x *Exec) hostileBytes(c *Client, st *Step) (data []byte, class string) { //nolint:cyclop,gocyclo
	r := &prng{s: st.Seed*7919 + uint64(st.N)}
	ui := c.User
	mode := st.N % 13
	switch mode {
	case 12:
		raw, _, _ := x.signed(c, ui, x.baseRequest(c, r.n(7), r), "nonce-alnum-len", r.next())

		return raw, "nonce-length-sweep"
	case 0:
		l := []int{0, 1, 2, 3, 4, 8, 19, 20, 21, 28, 64, 200, 1500, 2048}[r.n(14)]
		if r.n(3) == 0 {
			l = r.n(2049)
		}

		return synth(l, r.next(), ""), "random-bytes"
	case 1:
		raw, _, _ := x.signed(c, ui, x.baseRequest(c, r.n(7), r), "", 0)
		for k := 1 + r.n(3); k > 0 && len(raw) > 0; k-- {
			raw[r.n(len(raw))] ^= 1 << r.n(8)
		}

		return raw, "bit-flips"
	case 2:
		raw, _, _ := x.signed(c, ui, x.baseRequest(c, r.n(7), r), "", 0)

		return raw[:r.n(len(raw)+1)], "truncated"
	case 3:
		raw, _, _ := x.signed(c, ui, x.baseRequest(c, r.n(7), r), "", 0)
		edits := []int{0, 4, len(raw) - 24, len(raw) - 16, len(raw), len(raw) + 4, 0xFFFC, 0xFFFF, 3}
		binary.BigEndian.PutUint16(raw[2:4], uint16(edits[r.n(len(edits))]))

		return raw, "length-field-edit"
	case 4:
		raw, _, _ := x.signed(c, ui, x.baseRequest(c, r.n(7), r), "", 0)
		// walk to a random attribute header and overrun its length
		off := 20
		var offs []int
		for off+4 <= len(raw) {
			offs = append(offs, off)
			off += 4 + (int(binary.BigEndian.Uint16(raw[off+2:off+4]))+3)&^3
		}
		if len(offs) > 0 {
			o := offs[r.n(len(offs))]
			binary.BigEndian.PutUint16(raw[o+2:o+4], uint16([]int{0xFFFF, len(raw), len(raw) - o, 5, 1}[r.n(5)]))
		}

		return raw, "attribute-length-overrun"
	case 5:
		m := x.baseRequest(c, r.n(7), r)
		if len(m.Attrs) > 0 {
			m.Attrs = append(m.Attrs, m.Attrs[r.n(len(m.Attrs))])
			if r.n(2) == 0 {
				m.Attrs[0], m.Attrs[len(m.Attrs)-1] = m.Attrs[len(m.Attrs)-1], m.Attrs[0]
			}
		}
		raw, _, _ := x.signed(c, ui, m, "", 0)

		return raw, "duplicated-reordered-signed"
	case 6:
		m := x.baseRequest(c, r.n(7), r)
		m.Add(uint16(0x7F00+r.n(16)), synth(r.n(9), r.next(), ""))
		raw, _, _ := x.signed(c, ui, m, "", 0)

		return raw, "unknown-required-attribute-signed"
	case 7:
		m := x.baseRequest(c, r.n(7), r)
		t, v := hostileAttr(r)
		if r.n(2) == 0 {
			m.Attrs = nil
		}
		m.Add(t, v)
		raw, _, _ := x.signed(c, ui, m, "", 0)

		return raw, "hostile-attribute-signed"
	case 8:
		m := &ref.Msg{TxID: c.nextTx()}
		m.Method = []int{0, 1, 2, 3, 4, 5, 6, 7, 8, 9, 10, 11, 12, 13, 0x0FFF, 0x0800}[r.n(16)]
		if r.n(4) == 0 {
			m.Method = r.n(0x1000)
		}
		m.Class = r.n(4)
		for k := r.n(3); k > 0; k-- {
			t, v := hostileAttr(r)
			m.Add(t, v)
		}
		if r.n(2) == 0 {
			raw, _, _ := x.signed(c, ui, m, "", 0)

			return raw, "method-class-grid-signed"
		}

		return m.Encode(), "method-class-grid"
	case 9:
		nums := []uint16{0x4000, 0x4001, 0x7FFF, 0x3FFF, 0x8000, 0, 1, 0xFFFF, 0x2112}
		num := nums[r.n(len(nums))]
		actual := []int{0, 1, 3, 4, 5, 100, 1500}[r.n(7)]
		declared := []int{0, 1, actual, actual + 1, actual + 4, 0xFFFF, 0xFFFC}[r.n(7)]
		b := make([]byte, 4, 4+actual)
		binary.BigEndian.PutUint16(b[0:2], num)
		binary.BigEndian.PutUint16(b[2:4], uint16(declared))

		return append(b, synth(actual, r.next(), "")...), "channeldata-header-grid"
	case 10:
		m := &ref.Msg{Method: ref.MethodSend, Class: ref.ClassIndication, TxID: c.nextTx()}
		switch r.n(5) {
		case 0:
			m.Add(ref.AttrData, synth(r.n(20), 1, ""))
		case 1:
			m.Add(ref.AttrXORPeerAddress, xorPeerValue(r.n(4), m.TxID))
		case 2:
			m.Add(ref.AttrXORPeerAddress, []byte{0, 3, 1, 2, 3, 4, 5, 6})
			m.Add(ref.AttrData, nil)
		case 3:
			m.Add(ref.AttrXORPeerAddress, xorPeerValue(0, m.TxID))
			m.Add(ref.AttrXORPeerAddress, xorPeerValue(2, m.TxID))
			m.Add(ref.AttrData, synth(5, 1, ""))
		default:
			t, v := hostileAttr(r)
			m.Add(t, v)
		}

		return m.Encode(), "send-indication-hostile"
	default:
		// a response or indication class sent to the server, or a request with FINGERPRINT garbage
		m := x.baseRequest(c, r.n(7), r)
		m.Class = []int{ref.ClassSuccess, ref.ClassError, ref.ClassIndication}[r.n(3)]
		raw := m.Encode()
		if r.n(2) == 0 {
			raw = ref.AddFingerprint(raw)
			raw[len(raw)-1] ^= 0xFF
		}

		return raw, "wrong-class-or-fingerprint"
	}
}

// opHostile delivers a hostile datagram to the listener and probes liveness afterwards (C09).
func (x *Exec) opHostile(st *Step) {
	c := x.client(st.C)
	if c.Stream {
		return // hostile streams are the TCP world's business
	}
	data, class := x.hostileBytes(c, st)
	if len(data) > 65507 {
		data = data[:65507]
	}
	x.St.inc("hostile:" + class)
	if x.m.Allocs[c.Idx] != nil {
		x.St.inc("hostile-in-allocated-state")
	}
	if k, _, _ := ref.NextFrame(data); (k == ref.FrameSTUN || k == ref.FrameChannelData) && class != "random-bytes" {
		x.St.inc("hostile-passes-demultiplexing")
	}
	before := x.fingerprint()
	x.opStart = time.Now()
	x.purgeModel()
	src := c.Sock
	if st.Rel == "stranger" {
		src = x.stranger()
	}
	_, _ = src.WriteTo(data, x.w.srvFor(src))
	x.settle()
	x.waitCallbacks()
	o := x.observe()
	accepted := false
	// whatever the server answers must be well-formed and go to the sender; relay emissions are
	// not expected from garbage unless the state allows it, in which case the model is resynced
	in, inErr := ref.Parse(data)
	for _, d := range o.s2c {
		if !sameUDP(d.To, &net.UDPAddr{IP: src.Local().IP, Port: src.Local().Port}) {
			x.fail([]string{"C09", "C19", "C04"}, "hostile-response-misdirected", "a %s datagram from %v made the server write to %v", class, src.Local(), d.To)

			return
		}
		if inErr == nil && (in.Class == ref.ClassSuccess || in.Class == ref.ClassError) && len(d.Data) >= 20 && d.Data[0]&0xC0 == 0 {
			// a response is never answered: two endpoints that answer each other's responses
			// keep a datagram bouncing between them for ever (one spoofed packet starts it)
			x.fail([]string{"C09"}, "response-answered", "a STUN %s (method %#x) from %v was answered with %d bytes - answering responses lets one spoofed datagram start an endless exchange between two servers", map[int]string{ref.ClassSuccess: "success response", ref.ClassError: "error response"}[in.Class], in.Method, src.Local(), len(d.Data))

			return
		}
		if len(d.Data) >= 4 && d.Data[0]&0xC0 == 0x40 {
			continue
		}
		rm, err := ref.Parse(d.Data)
		if err != nil {
			x.fail([]string{"C09"}, "server-sent-garbage", "a %s datagram made the server emit %d malformed bytes %x", class, len(d.Data), d.Data[:min(len(d.Data), 16)])

			return
		}
		if rm.Class == ref.ClassSuccess && rm.Method != ref.MethodBinding {
			accepted = true // e.g. a correctly signed Refresh with an extra odd attribute: timers moved
		}
	}
	if accepted {
		x.St.inc("hostile-accepted-resync")
		x.stop = true
		x.Aborted = true

		return
	}
	if after := x.fingerprint(); after != before || len(o.r2p) > 0 {
		// the hostile message happened to be acceptable (e.g. correctly signed with duplicated
		// attributes): state moved in a way the model does not follow
		x.St.inc("hostile-accepted-resync")
		x.stop = true
		x.Aborted = true

		return
	}
	// liveness: the same source and a fresh source are still served
	x.tick()
	x.opBinding(&Step{Op: "Binding", C: st.C})
	if x.stop {
		return
	}
	x.tick()
	fresh := x.stranger()
	m := &ref.Msg{Method: ref.MethodBinding, Class: ref.ClassRequest, TxID: c.nextTx()}
	_, _ = fresh.WriteTo(m.Encode(), x.w.srvAddr)
	x.settle()
	answered := false
	for _, d := range x.observe().s2c {
		if rm, err := ref.Parse(d.Data); err == nil && rm.TxID == m.TxID && rm.Class == ref.ClassSuccess && sameUDP(d.To, &net.UDPAddr{IP: fresh.Local().IP, Port: fresh.Local().Port}) {
			answered = true
		}
	}
	if !answered {
		x.fail([]string{"C09"}, "server-dead-after-hostile-input", "after a %s datagram (%d bytes) a Binding request from a fresh source is not answered", class, len(data))
	}
}

func (x *Exec) stranger() *sim.UDPSock {
	if x.strangerSock == nil {
		x.w.net.SetOwnerTag("client")
		s, err := x.w.net.BindUDP("udp4", net.IPv4(10, 7, 0, 1), 4444)
		x.w.net.SetOwnerTag("relay")
		if err != nil {
			panic(fmt.Sprint("stranger bind: ", err))
		}
		x.strangerSock = s
		x.w.extraClientSocks = append(x.w.extraClientSocks, s)
	}

	return x.strangerSock
}

func init() {
	extraOps["Hostile"] = func(x *Exec, st *Step) { x.opHostile(st) }
}
