package srvworld

import (
	"encoding/binary"
	"errors"
	"fmt"
	"net"
	"os"
	"strings"
	"sync"
	"testing"
	"testing/synctest"
	"time"

	"github.com/pion/turn/v5/internal/zzverif/ref"
	"github.com/pion/turn/v5/internal/zzverif/sim"
	"github.com/pion/turn/v5/internal/zzverif/vkit"
	"pgregory.net/rapid"
)

// TStorm is a concurrency case for TCP allocations (RFC 6062): stream clients, dialling peers
// and a chaos actor act at the same virtual instants from their own goroutines. Teardown of an
// allocation (Refresh 0, lifetime expiry, control connection closed, relay listener error,
// Server.Close) thereby meets Connect requests in flight, inbound peer connections and the
// 30 s bind timers. Only order-insensitive oracles apply.
type TStorm struct {
	Seed          uint64 `json:"seed"`
	NClients      int    `json:"n_clients"`
	Rounds        int    `json:"rounds"`
	MaxLifeS      int    `json:"max_life_s"`
	PermTimeoutS  int    `json:"perm_timeout_s"`
	CloseAtRound  int    `json:"close_at_round"`            // -1: only at the end
	DialDelayMs   int    `json:"dial_delay_ms"`             // the server's outbound dials (Connect) take this long
	DropCtrl      bool   `json:"drop_ctrl"`                 // clients sometimes close their control connection and come back
	ListenErrors  bool   `json:"listen_errors"`             // relay listeners sometimes fail in Accept
	AcceptSpin    int    `json:"accept_spin"`               // the listener's Accept yields this often before it returns a connection
	Dialers       int    `json:"dialers"`                   // goroutines that open a fresh control connection every round (also while Server.Close runs)
	SlowCreatedMs int    `json:"slow_created_ms,omitempty"` // OnAllocationCreated takes this long
	LibAuth       bool   `json:"lib_auth,omitempty"`        // the server authenticates with the library's LongTermTURNRESTAuthHandler
	TCPStorm      bool   `json:"tcp_storm"`                 // format marker
}

type tStormClient struct {
	idx   int
	addr  *net.TCPAddr
	user  int
	ctrl  *sim.Conn
	rbuf  []byte
	nonce string
	txn   uint32
	ids   []uint32 // connection ids learnt from Connect successes and ConnectionAttempt indications
}

func (c *tStormClient) tx() [12]byte {
	c.txn++
	var id [12]byte
	id[0] = byte(0xE0 + c.idx)
	binary.BigEndian.PutUint32(id[4:8], c.txn)

	return id
}

func runTStorm(t *testing.T, s *TStorm) (res stormResult) {
	t.Helper()
	defer func() {
		if p := recover(); p != nil {
			str := fmt.Sprint(p)
			if strings.Contains(str, "blocked goroutines remain") || strings.Contains(str, "deadlock") {
				if res.kind == "" {
					res.kind, res.msg = "goroutine-leak", "after Server.Close, closing every connection and two hours of quiet, goroutines of the bubble are still blocked: "+str
				}

				return
			}
			panic(p)
		}
	}()
	synctest.Test(t, func(t *testing.T) { res = runTStormInner(s) })

	return res
}

func runTStormInner(s *TStorm) (res stormResult) { //nolint:cyclop,gocyclo,maintidx
	cfg := TConfig{AllocLifetimeS: 30, PermTimeoutS: s.PermTimeoutS, Deny: []int{3}, LibAuth: s.LibAuth, SlowCreatedMs: s.SlowCreatedMs}
	w, err := newTWorld(cfg) // no clients yet: the actors dial themselves
	if err == nil && os.Getenv("VERIF_STORM_LOGFILE") != "" {
		w.log.Keep = 1000000
	}
	if err != nil {
		return stormResult{kind: "harness", msg: err.Error()}
	}
	w.gen.dialDelay = time.Duration(s.DialDelayMs) * time.Millisecond
	w.lis.AcceptSpin = s.AcceptSpin
	var mu sync.Mutex
	actions, tcpAllocs, inbound, binds := 0, 0, 0, 0
	var relays []*net.TCPAddr // relayed addresses that were handed out (peers dial them)
	closed := false
	closeServer := func() {
		mu.Lock()
		already := closed
		closed = true
		mu.Unlock()
		if !already {
			_ = w.srv.Close()
		}
	}
	srvAddr := &net.TCPAddr{IP: ServerIP4, Port: ServerPort}
	sign := func(c *tStormClient, m *ref.Msg) []byte {
		name, pass := cfg.credFor(Users[c.user])
		mm := &ref.Msg{Method: m.Method, Class: m.Class, TxID: m.TxID, Attrs: append([]ref.Attr{}, m.Attrs...)}
		mm.Add(ref.AttrUsername, []byte(name))
		mm.Add(ref.AttrRealm, []byte(Realm))
		mm.Add(ref.AttrNonce, []byte(c.nonce))

		return ref.AddIntegrity(mm.Encode(), ref.LongTermKey(name, Realm, pass))
	}
	var wg sync.WaitGroup
	for ci := 0; ci < s.NClients; ci++ {
		ca := ClientPool[ci%4]
		c := &tStormClient{idx: ci, addr: &net.TCPAddr{IP: ca.IP, Port: ca.Port}, user: ca.User}
		wg.Add(1)
		go func() {
			defer wg.Done()
			r := &prng{s: s.Seed*1000003 + uint64(c.idx)*7919}
			dport := 30000 + 1000*c.idx
			var data []*sim.Conn
			learn := func() {
				if c.ctrl == nil {
					return
				}
				raw, _ := c.ctrl.ReadAvailable()
				c.rbuf = append(c.rbuf, raw...)
				for {
					k, size, complete := ref.NextFrame(c.rbuf)
					if k == ref.FrameInvalid {
						c.rbuf = nil

						return
					}
					if !complete || size == 0 {
						return
					}
					if k == ref.FrameSTUN {
						if m, perr := ref.Parse(c.rbuf[:size]); perr == nil {
							if v, ok := m.Get(ref.AttrNonce); ok {
								c.nonce = string(v)
							}
							if v, ok := m.Get(ref.AttrConnectionID); ok && len(v) == 4 {
								c.ids = append(c.ids, binary.BigEndian.Uint32(v))
							}
							if m.Method == ref.MethodAllocate && m.Class == ref.ClassSuccess {
								if v, ok := m.Get(ref.AttrXORRelayedAddress); ok {
									if ip, port, uerr := ref.UnxorAddr(v, m.TxID); uerr == nil {
										mu.Lock()
										relays = append(relays, &net.TCPAddr{IP: ip, Port: port})
										tcpAllocs++
										mu.Unlock()
									}
								}
							}
						}
					}
					c.rbuf = c.rbuf[size:]
				}
			}
			for round := 0; round < s.Rounds; round++ {
				time.Sleep(time.Second)
				if c.ctrl == nil || c.ctrl.IsClosed() {
					// a fresh source port per connection, as a TCP stack hands out: while the server
					// still holds its end of the old connection the old 4-tuple cannot be reused
					c.addr = &net.TCPAddr{IP: c.addr.IP, Port: c.addr.Port + 10}
					conn, derr := w.net.DialTCPFrom(c.addr, srvAddr)
					if derr != nil {
						continue // the server is closed
					}
					c.ctrl, c.rbuf = conn, nil
				}
				learn()
				for j, k := 0, 1+r.n(3); j < k; j++ {
					m := &ref.Msg{Class: ref.ClassRequest, TxID: c.tx()}
					peer := TCPPeers[r.n(len(TCPPeers))]
					switch r.n(12) {
					case 0, 1, 2:
						m.Method = ref.MethodAllocate
						m.Add(ref.AttrRequestedTransport, []byte{6, 0, 0, 0})
						m.Add(ref.AttrLifetime, ref.U32(uint32(1+r.n(max(s.MaxLifeS, 1)))))
					case 3:
						m.Method = ref.MethodRefresh
						m.Add(ref.AttrLifetime, ref.U32(uint32(r.n(max(s.MaxLifeS, 1)+1))))
					case 4, 5:
						m.Method = ref.MethodCreatePermission
						m.Add(ref.AttrXORPeerAddress, ref.XorAddr(peer.IP, peer.Port, m.TxID))
					case 6, 7, 8:
						m.Method = ref.MethodConnect
						m.Add(ref.AttrXORPeerAddress, ref.XorAddr(peer.IP, peer.Port, m.TxID))
					case 9, 10:
						// bind one of the connection ids seen so far on a fresh data connection
						if len(c.ids) == 0 {
							continue
						}
						dport++
						dc, derr := w.net.DialTCPFrom(&net.TCPAddr{IP: c.addr.IP, Port: dport}, srvAddr)
						if derr != nil {
							continue
						}
						m.Method = ref.MethodConnectionBind
						m.Add(ref.AttrConnectionID, ref.U32(c.ids[len(c.ids)-1-r.n(min(len(c.ids), 3))]))
						_, _ = dc.Write(sign(c, m))
						data = append(data, dc)
						mu.Lock()
						actions++
						binds++
						mu.Unlock()

						continue
					default:
						if s.DropCtrl && r.n(3) == 0 {
							_ = c.ctrl.Close() // the allocation goes with its control connection
							mu.Lock()
							actions++
							mu.Unlock()
						}

						continue
					}
					_, _ = c.ctrl.Write(sign(c, m))
					mu.Lock()
					actions++
					mu.Unlock()
				}
				// data connections: say something, hang up now and then
				for i, dc := range data {
					if dc == nil || dc.IsClosed() {
						continue
					}
					_, _ = dc.ReadAvailable()
					switch r.n(6) {
					case 0:
						_ = dc.Close()
						data[i] = nil
					case 1, 2:
						_, _ = dc.Write(synth(1+r.n(40), r.next(), ""))
					}
				}
			}
		}()
	}
	// newcomers: a fresh connection to the listener every round, a Binding request, gone a round later
	for di := 0; di < s.Dialers; di++ {
		wg.Add(1)
		go func() {
			defer wg.Done()
			var last *sim.Conn
			for round := 0; round < s.Rounds; round++ {
				time.Sleep(time.Second)
				if last != nil {
					_ = last.Close()
				}
				conn, derr := w.net.DialTCPFrom(&net.TCPAddr{IP: net.IPv4(10, 1, 9, byte(di+1)), Port: 20000 + round}, srvAddr)
				if derr != nil {
					last = nil

					continue
				}
				m := &ref.Msg{Method: ref.MethodBinding, Class: ref.ClassRequest}
				m.TxID[0], m.TxID[1] = byte(di), byte(round)
				_, _ = conn.Write(m.Encode())
				last = conn
				mu.Lock()
				actions++
				mu.Unlock()
			}
			if last != nil {
				_ = last.Close()
			}
		}()
	}
	// peers: dial the relayed addresses handed out so far, answer and close what the server dialled
	for pi := 0; pi < 3; pi++ {
		lis := w.peers[[]int{0, 1, 3}[pi]]
		ip := lis.TCPAddr().IP
		wg.Add(1)
		go func() {
			defer wg.Done()
			r := &prng{s: s.Seed*31 + uint64(pi)}
			var conns []*sim.Conn
			for round := 0; round < s.Rounds; round++ {
				time.Sleep(time.Second)
				mu.Lock()
				var targets []*net.TCPAddr
				for k := 0; k < 2 && len(relays) > 0; k++ {
					targets = append(targets, relays[len(relays)-1-r.n(min(len(relays), 4))])
				}
				mu.Unlock()
				for _, ra := range targets {
					if conn, derr := w.net.DialTCPFrom(&net.TCPAddr{IP: ip}, ra); derr == nil {
						conns = append(conns, conn)
						mu.Lock()
						inbound++
						mu.Unlock()
					}
				}
				for {
					conn := lis.TryAccept()
					if conn == nil {
						break
					}
					conns = append(conns, conn)
				}
				for i, conn := range conns {
					if conn == nil || conn.IsClosed() {
						continue
					}
					_, _ = conn.ReadAvailable()
					switch r.n(8) {
					case 0:
						_ = conn.Close()
						conns[i] = nil
					case 1, 2:
						_, _ = conn.Write(synth(1+r.n(40), r.next(), ""))
					}
				}
			}
		}()
	}
	// chaos: relay listener errors and Server.Close at a round boundary, racing with the actors
	wg.Add(1)
	go func() {
		defer wg.Done()
		r := &prng{s: s.Seed * 17}
		for round := 0; round < s.Rounds; round++ {
			time.Sleep(time.Second)
			if s.ListenErrors && r.n(4) == 0 {
				w.gen.mu.Lock()
				var open []*sim.Listener
				for _, g := range w.gen.made {
					if g.Lis != nil && !g.Lis.IsClosed() {
						open = append(open, g.Lis)
					}
				}
				w.gen.mu.Unlock()
				if len(open) > 0 {
					open[r.n(len(open))].InjectAcceptError(errors.New("sim: injected accept error"))
				}
			}
			if s.CloseAtRound == round {
				closeServer()
			}
		}
	}()
	wg.Wait()
	synctest.Wait()
	closeServer()
	synctest.Wait()
	time.Sleep(2 * time.Hour)
	synctest.Wait()
	res.actions, res.sameInst = actions, inbound
	res.tcpAllocs, res.binds = tcpAllocs, binds
	if held := lockProbe(w.mgrs); held != "" {
		res.kind, res.msg = "lock-held-at-quiescence", held+" is still locked two hours after the server was closed"
	}
	if res.kind == "" {
		w.gen.mu.Lock()
		for _, g := range w.gen.made {
			if g.Lis != nil && !g.Lis.IsClosed() {
				res.kind, res.msg = "relay-listener-leaked", fmt.Sprintf("relay listener %v is still open after Server.Close and two hours", g.Lis)
				if f := os.Getenv("VERIF_STORM_LOGFILE"); f != "" {
					_ = os.WriteFile(f, []byte(res.msg+"\n"+strings.Join(w.log.Lines(), "\n")), 0o600)
				}
			}
		}
		w.gen.mu.Unlock()
	}
	if res.kind == "" {
		for _, cn := range w.net.Conns() {
			if la, ok := cn.LocalAddr().(*net.TCPAddr); ok && la.Port == ServerPort && la.IP.Equal(ServerIP4) && !cn.IsClosed() {
				res.kind, res.msg = "control-connection-open-after-close", fmt.Sprintf("the server still holds its end of %v two hours after Server.Close (accepted while Close was running)", cn)

				break
			}
		}
	}
	if res.kind == "" {
		if nAlloc := w.srv.AllocationCount(); nAlloc != 0 {
			res.kind, res.msg = "allocations-after-close", fmt.Sprintf("AllocationCount() = %d after Server.Close and two hours", nAlloc)
		}
	}
	if res.kind == "" {
		w.evMu.Lock()
		bal := map[string]int{}
		for _, e := range w.events {
			switch e.Kind {
			case "AllocCreated":
				bal[e.Src]++
			case "AllocDeleted":
				bal[e.Src]--
			}
		}
		w.evMu.Unlock()
		for k, v := range bal {
			if v != 0 {
				res.kind, res.msg = "lifecycle-events-unbalanced", fmt.Sprintf("allocation of %s: created minus deleted callbacks = %+d after everything is gone", k, v)

				break
			}
		}
	}
	w.net.CloseAll()

	return res
}

func genTStorm(rt *rapid.T) *TStorm {
	s := &TStorm{Seed: rapid.Uint64Range(1, 1<<40).Draw(rt, "seed"), TCPStorm: true}
	s.NClients = rapid.IntRange(1, 4).Draw(rt, "nclients")
	s.Rounds = rapid.IntRange(6, 50).Draw(rt, "rounds")
	s.MaxLifeS = rapid.IntRange(1, 6).Draw(rt, "maxlife")
	s.PermTimeoutS = rapid.IntRange(2, 40).Draw(rt, "perm")
	s.CloseAtRound = -1
	if rapid.IntRange(0, 2).Draw(rt, "closeEarly") == 0 {
		s.CloseAtRound = rapid.IntRange(1, s.Rounds-1).Draw(rt, "closeAt")
	}
	if rapid.IntRange(0, 1).Draw(rt, "slowDial") == 0 {
		s.DialDelayMs = rapid.SampledFrom([]int{1, 100, 600, 1600, 3600}).Draw(rt, "dialDelay")
	}
	s.DropCtrl = rapid.Bool().Draw(rt, "dropCtrl")
	s.Dialers = rapid.SampledFrom([]int{0, 1, 4, 8}).Draw(rt, "dialers")
	s.AcceptSpin = rapid.SampledFrom([]int{0, 0, 50, 400, 2000}).Draw(rt, "acceptSpin")
	s.LibAuth = rapid.Bool().Draw(rt, "libAuth")
	s.SlowCreatedMs = rapid.SampledFrom([]int{0, 0, 300, 1500, 4000}).Draw(rt, "slowCreatedMs")
	s.ListenErrors = rapid.Bool().Draw(rt, "listenErrors")

	return s
}

func TestC18TCPStorm(t *testing.T) {
	r := vkit.Start(t, "C18")
	defer r.Finish()
	do := func(s *TStorm, sample string) (string, string) {
		r.Eval(1)
		res := runTStorm(t, s)
		r.LabelN("tcp-storm-actions", res.actions)
		r.LabelN("tcp-storm-allocations", res.tcpAllocs)
		r.LabelN("tcp-storm-inbound-peer-connections", res.sameInst)
		r.LabelN("tcp-storm-bind-attempts", res.binds)
		if res.tcpAllocs > 0 && res.sameInst > 0 {
			r.NonTrivial(vkit.Hash64(s))
			if s.CloseAtRound >= 0 {
				r.Label("tcp-storm:close-racing-with-traffic")
			}
			if sample != "" {
				r.Sample(sample, func() any { return s })
			}
		}
		if res.kind != "" && r.IsKnown("C18."+res.kind) {
			return "", ""
		}

		return res.kind, res.msg
	}
	if r.Replay != "" {
		var s TStorm
		if err := vkit.LoadJSON(r.Replay, &s); err != nil || !s.TCPStorm {
			fmt.Println("REPLAY-NOT-MINE: not a TCP storm case")

			return
		}
		kind, msg := do(&s, "")
		fmt.Printf("replay %s: kind=%q %s\n", r.Replay, kind, msg)
		if kind != "" {
			r.Violate(kind, msg, &s)
		}

		return
	}
	for _, f := range r.RegressFiles(".tstorm.json") {
		var s TStorm
		if err := vkit.LoadJSON(f, &s); err != nil {
			t.Fatalf("bad regress file %s: %v", f, err)
		}
		for i := 0; i < 8; i++ { // storms are schedule-dependent by nature
			if kind, msg := do(&s, ""); kind != "" {
				r.Violate(kind, "regress "+f+": "+msg, &s)

				break
			}
		}
	}
	if r.Violations() > 0 {
		return
	}
	r.Rapid(t, "tcp-storm", 0, r.Checks, func(rt *rapid.T) {
		s := genTStorm(rt)
		r.Journal(s)
		kind, msg := do(s, "tcp-storm")
		if kind != "" {
			r.NoteFail(kind, msg, s)
			rt.Fatalf("C18 %s", kind)
		}
	})
}
