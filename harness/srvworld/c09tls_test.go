package srvworld

import (
	"crypto/ecdsa"
	"crypto/elliptic"
	"crypto/rand"
	"crypto/tls"
	"crypto/x509"
	"crypto/x509/pkix"
	"fmt"
	"math/big"
	"net"
	"strings"
	"sync"
	"testing"
	"testing/synctest"
	"time"

	"github.com/pion/turn/v5"
	"github.com/pion/turn/v5/internal/zzverif/ref"
	"github.com/pion/turn/v5/internal/zzverif/sim"
	"github.com/pion/turn/v5/internal/zzverif/vkit"
	"pgregory.net/rapid"
)

// TLSParty is one connection to the server's TLS listener.
type TLSParty struct {
	// Kind: silent (connects, sends nothing) | partial-hello (the first N bytes of a genuine
	// ClientHello, then nothing) | garbage (N arbitrary bytes instead of a handshake) |
	// hello-then-garbage (a complete handshake, then N arbitrary bytes) | good (handshake, Binding)
	Kind  string `json:"kind"`
	N     int    `json:"n,omitempty"`
	Seed  uint64 `json:"seed,omitempty"`
	Close bool   `json:"close,omitempty"` // the party hangs up right after its bytes
	GapMs int    `json:"gap_ms,omitempty"`
}

// C09TLSCase: byte strings delivered as prefixes of TLS streams; also the replay format.
type C09TLSCase struct {
	Parties []TLSParty `json:"parties"`
	TLS     bool       `json:"c09_tls"`
}

var (
	tlsCertOnce sync.Once
	tlsCert     tls.Certificate
)

func testCert() tls.Certificate {
	tlsCertOnce.Do(func() {
		key, _ := ecdsa.GenerateKey(elliptic.P256(), rand.Reader)
		tmpl := &x509.Certificate{
			SerialNumber: big.NewInt(1), Subject: pkix.Name{CommonName: "sim.turn"},
			NotBefore: time.Date(1990, 1, 1, 0, 0, 0, 0, time.UTC), NotAfter: time.Date(2200, 1, 1, 0, 0, 0, 0, time.UTC),
			KeyUsage: x509.KeyUsageDigitalSignature, ExtKeyUsage: []x509.ExtKeyUsage{x509.ExtKeyUsageServerAuth}, DNSNames: []string{"sim.turn"},
		}
		der, _ := x509.CreateCertificate(rand.Reader, tmpl, tmpl, &key.PublicKey, key)
		tlsCert = tls.Certificate{Certificate: [][]byte{der}, PrivateKey: key}
	})

	return tlsCert
}

// cutConn lets the first `left` bytes through and swallows the rest (a party that stops talking
// in the middle of its ClientHello).
type cutConn struct {
	net.Conn
	left int
}

func (c *cutConn) Write(b []byte) (int, error) {
	k := min(c.left, len(b))
	if k > 0 {
		if _, err := c.Conn.Write(b[:k]); err != nil {
			return 0, err
		}
		c.left -= k
	}

	return len(b), nil
}

type c09tlsResult struct {
	kind, msg string
	served    int
	pending   int
}

func runC09TLS(t *testing.T, c *C09TLSCase, teardown bool) (res c09tlsResult) {
	t.Helper()
	defer func() {
		if p := recover(); p != nil {
			s := fmt.Sprint(p)
			if strings.Contains(s, "blocked goroutines remain") || strings.Contains(s, "deadlock") {
				if res.kind == "" {
					res.kind, res.msg = "goroutine-stuck", "after Server.Close and closing every connection, goroutines are still blocked: "+s
				}

				return
			}
			res.kind, res.msg = "panic", s
		}
	}()
	cert := testCert() // (made outside the bubble: the key generation may use the runtime's own goroutines)
	synctest.Test(t, func(t *testing.T) { res = runC09TLSInner(c, cert, teardown) })

	return res
}

func runC09TLSInner(c *C09TLSCase, cert tls.Certificate, teardown bool) (res c09tlsResult) { //nolint:cyclop
	n := sim.NewNet()
	logger := sim.NewLogger(80)
	shim := &World{net: n}
	gen := &simGen{w: shim}
	lis, err := n.ListenTCPAt("tcp4", ServerIP4, 5349)
	if err != nil {
		return c09tlsResult{kind: "harness", msg: err.Error()}
	}
	srv, err := turn.NewServer(turn.ServerConfig{
		Realm: Realm, LoggerFactory: logger,
		AuthHandler: func(ra *turn.RequestAttributes) (string, []byte, bool) {
			return "alice", ref.LongTermKey("alice", ra.Realm, "pw-alice"), ra.Username == "alice"
		},
		ListenerConfigs: []turn.ListenerConfig{{
			Listener:              tls.NewListener(lis, &tls.Config{Certificates: []tls.Certificate{cert}, MinVersion: tls.VersionTLS12}),
			RelayAddressGenerator: gen,
		}},
	})
	if err != nil {
		return c09tlsResult{kind: "harness", msg: err.Error()}
	}
	var open []net.Conn
	var dialled []*sim.Conn
	defer func() {
		_ = srv.Close()
		for _, o := range open {
			_ = o.Close()
		}
		n.CloseAll()
	}()
	srvAddr := &net.TCPAddr{IP: ServerIP4, Port: 5349}
	port := 20000
	dial := func(host byte) (*sim.Conn, error) {
		port++
		dc, derr := n.DialTCPFrom(&net.TCPAddr{IP: net.IPv4(10, 1, 0, host), Port: port}, srvAddr)
		if derr == nil {
			dialled = append(dialled, dc)
		}

		return dc, derr
	}
	ccfg := &tls.Config{InsecureSkipVerify: true, MinVersion: tls.VersionTLS12} //nolint:gosec
	fail := func(kind, f string, a ...any) c09tlsResult {
		r := res
		r.kind, r.msg = kind, fmt.Sprintf(f, a...)+"\n  log tail:\n    "+strings.Join(logger.Lines(), "\n    ")

		return r
	}
	// good: a well-formed party - TLS handshake, one Binding request, the success response - must
	// be served within 5 s whatever the other connections of the listener are doing
	good := func(ctx string) *c09tlsResult {
		raw, derr := dial(9)
		if derr != nil {
			r := fail("harness", "dial: %v", derr)

			return &r
		}
		open = append(open, raw)
		type outcome struct {
			err  error
			resp *ref.Msg
		}
		done := make(chan outcome, 1)
		t0 := time.Now()
		go func() {
			_ = raw.SetDeadline(time.Now().Add(5 * time.Second))
			tc := tls.Client(raw, ccfg)
			if herr := tc.Handshake(); herr != nil {
				done <- outcome{err: fmt.Errorf("TLS handshake: %w", herr)}

				return
			}
			m := &ref.Msg{Method: ref.MethodBinding, Class: ref.ClassRequest}
			m.TxID[0], m.TxID[11] = 0x9A, byte(port)
			if _, werr := tc.Write(m.Encode()); werr != nil {
				done <- outcome{err: fmt.Errorf("write: %w", werr)}

				return
			}
			var buf []byte
			tmp := make([]byte, 2048)
			for {
				k, rerr := tc.Read(tmp)
				buf = append(buf, tmp[:k]...)
				if kind, size, complete := ref.NextFrame(buf); kind == ref.FrameSTUN && complete && size > 0 {
					r, perr := ref.Parse(buf[:size])
					done <- outcome{err: perr, resp: r}

					return
				}
				if rerr != nil {
					done <- outcome{err: fmt.Errorf("read: %w", rerr)}

					return
				}
			}
		}()
		time.Sleep(6 * time.Second)
		synctest.Wait()
		select {
		case o := <-done:
			if o.err != nil || o.resp == nil || o.resp.Method != ref.MethodBinding || o.resp.Class != ref.ClassSuccess {
				r := fail("well-formed-party-not-served", "%s: a new, well-formed party (TLS handshake, Binding request) got no Binding success within 5 s (started %v into the case): err=%v resp=%s", ctx, t0.Sub(time.Date(2000, 1, 1, 0, 0, 0, 0, time.UTC)), o.err, respDesc(o.resp))

				return &r
			}
		default:
			r := fail("well-formed-party-hangs", "%s: a well-formed party's connection neither completed nor failed although its deadline passed", ctx)

			return &r
		}
		_ = raw.Close()
		res.served++

		return nil
	}
	if r := good("before any other party"); r != nil {
		r.kind = "harness"

		return *r
	}
	for i, p := range c.Parties {
		ctx := fmt.Sprintf("after party %d (%s, n=%d, close=%v)", i, p.Kind, p.N, p.Close)
		if p.Kind == "good" {
			if r := good(ctx); r != nil {
				return *r
			}

			continue
		}
		raw, derr := dial(byte(1 + i%5))
		if derr != nil {
			return fail("harness", "dial: %v", derr)
		}
		open = append(open, raw)
		junk := make([]byte, p.N)
		for j := range junk {
			junk[j] = byte(p.Seed>>(uint(j%8)*8)) ^ byte(j*131)
		}
		switch p.Kind {
		case "silent":
			res.pending++
		case "partial-hello":
			cc := &cutConn{Conn: raw, left: p.N}
			go func() {
				_ = raw.SetReadDeadline(time.Now().Add(60 * time.Second))
				_ = tls.Client(cc, ccfg).Handshake()
			}()
			res.pending++
		case "garbage":
			_, _ = raw.Write(junk)
		case "hello-then-garbage":
			tc := tls.Client(raw, ccfg)
			hs := make(chan error, 1)
			go func() {
				_ = raw.SetDeadline(time.Now().Add(5 * time.Second))
				hs <- tc.Handshake()
			}()
			time.Sleep(time.Second)
			synctest.Wait()
			select {
			case herr := <-hs:
				if herr != nil {
					return fail("well-formed-party-not-served", "%s: the TLS handshake of this party failed: %v", ctx, herr)
				}
				_ = raw.SetDeadline(time.Time{})
				_, _ = tc.Write(junk)
			default:
				return fail("well-formed-party-hangs", "%s: the TLS handshake of this party did not finish within a second", ctx)
			}
		}
		synctest.Wait()
		if p.Close {
			_ = raw.Close()
		}
		time.Sleep(time.Duration(p.GapMs)*time.Millisecond + 300*time.Microsecond)
		synctest.Wait()
	}
	if r := good("after all parties"); r != nil {
		return *r
	}
	if teardown {
		// C15: once the server has been closed nothing remains - no connection the listener
		// accepted may still be open at the server's end, however its handshake went
		_ = srv.Close()
		time.Sleep(11 * time.Second) // longer than the handshake timeout
		synctest.Wait()
		for i, dc := range dialled {
			if !dc.Peer().IsClosed() {
				return fail("accepted-connection-open-after-close", "connection %d (%v) accepted by the TLS listener is still open at the server's end after Server.Close", i, dc.LocalAddr())
			}
		}
	}

	return res
}

func genC09TLS(rt *rapid.T) *C09TLSCase {
	c := &C09TLSCase{TLS: true}
	for i, k := 0, rapid.IntRange(1, 8).Draw(rt, "nparties"); i < k; i++ {
		p := TLSParty{Kind: rapid.SampledFrom([]string{"silent", "silent", "partial-hello", "partial-hello", "garbage", "hello-then-garbage", "good"}).Draw(rt, "kind")}
		switch p.Kind {
		case "partial-hello":
			p.N = rapid.OneOf(rapid.IntRange(0, 8), rapid.IntRange(0, 300)).Draw(rt, "n")
		case "garbage", "hello-then-garbage":
			p.N = rapid.OneOf(rapid.IntRange(0, 8), rapid.IntRange(0, 300), rapid.SampledFrom([]int{5, 6, 16389, 20000})).Draw(rt, "n")
			p.Seed = rapid.Uint64().Draw(rt, "seed")
		}
		p.Close = rapid.IntRange(0, 3).Draw(rt, "close") == 0
		p.GapMs = rapid.SampledFrom([]int{0, 0, 1, 500, 3000, 9999, 10001, 12000}).Draw(rt, "gapMs")
		c.Parties = append(c.Parties, p)
	}

	return c
}

func TestC09TLS(t *testing.T) {
	r := vkit.Start(t, "C09")
	defer r.Finish()
	r.Assume("a well-formed party (TLS handshake + Binding) is served within 5 s of virtual time whatever other connections of the same listener do; no real server work takes virtual time, so any wait is a wait for another party")
	do := func(c *C09TLSCase, sample string) (string, string) {
		r.Eval(1)
		res := runC09TLS(t, c, false)
		r.LabelN("tls:well-formed-parties-served", res.served)
		r.LabelN("tls:handshakes-left-pending", res.pending)
		for _, p := range c.Parties {
			r.Label("tls-party:" + p.Kind)
		}
		if res.pending > 0 {
			r.NonTrivial(vkit.Hash64(c))
			if sample != "" {
				r.Sample(sample, func() any { return c })
			}
		}
		if res.kind != "" && r.IsKnown("C09."+res.kind) {
			return "", ""
		}

		return res.kind, res.msg
	}
	if r.Replay != "" {
		var c C09TLSCase
		if err := vkit.LoadJSON(r.Replay, &c); err != nil || !c.TLS {
			fmt.Println("REPLAY-NOT-MINE: not a TLS listener case")

			return
		}
		kind, msg := do(&c, "")
		fmt.Printf("replay %s: kind=%q %s\n", r.Replay, kind, msg)
		if kind != "" {
			r.Violate(kind, msg, &c)
		}

		return
	}
	for _, f := range r.RegressFiles(".tls.json") {
		var c C09TLSCase
		if err := vkit.LoadJSON(f, &c); err != nil {
			t.Fatalf("bad regress file %s: %v", f, err)
		}
		if kind, msg := do(&c, ""); kind != "" {
			r.Violate(kind, "regress "+f+": "+msg, &c)
		}
	}
	if r.Violations() > 0 {
		return
	}
	r.Rapid(t, "tls-listener", 0, r.Checks, func(rt *rapid.T) {
		c := genC09TLS(rt)
		r.Journal(c)
		kind, msg := do(c, "tls-listener")
		if kind != "" {
			r.NoteFail(kind, msg, c)
			rt.Fatalf("C09 %s", kind)
		}
	})
}

// TestC15TLS: the same parties, judged for C15 - after Server.Close no connection that the TLS
// listener accepted is left open at the server's end (completed, failed and pending handshakes).
func TestC15TLS(t *testing.T) {
	r := vkit.Start(t, "C15")
	defer r.Finish()
	do := func(c *C09TLSCase, sample string) (string, string) {
		r.Eval(1)
		res := runC09TLS(t, c, true)
		for _, p := range c.Parties {
			r.Label("tls-party:" + p.Kind)
		}
		if len(c.Parties) > 0 {
			r.NonTrivial(vkit.Hash64(c))
			if sample != "" {
				r.Sample(sample, func() any { return c })
			}
		}
		if res.kind != "" && r.IsKnown("C15."+res.kind) {
			return "", ""
		}

		return res.kind, res.msg
	}
	if r.Replay != "" {
		var c C09TLSCase
		if err := vkit.LoadJSON(r.Replay, &c); err != nil || !c.TLS {
			fmt.Println("REPLAY-NOT-MINE: not a TLS listener case")

			return
		}
		kind, msg := do(&c, "")
		fmt.Printf("replay %s: kind=%q %s\n", r.Replay, kind, msg)
		if kind != "" {
			r.Violate(kind, msg, &c)
		}

		return
	}
	for _, f := range r.RegressFiles(".tls.json") {
		var c C09TLSCase
		if err := vkit.LoadJSON(f, &c); err != nil {
			t.Fatalf("bad regress file %s: %v", f, err)
		}
		if kind, msg := do(&c, ""); kind != "" {
			r.Violate(kind, "regress "+f+": "+msg, &c)
		}
	}
	if r.Violations() > 0 {
		return
	}
	r.Rapid(t, "tls-teardown", 0, r.Checks, func(rt *rapid.T) {
		c := genC09TLS(rt)
		r.Journal(c)
		kind, msg := do(c, "tls-teardown")
		if kind != "" {
			r.NoteFail(kind, msg, c)
			rt.Fatalf("C15 %s", kind)
		}
	})
}
