package srvworld

import "github.com/pion/turn/v5/internal/server"

// foreignNonce mints a nonce with another server instance's key (valid structure, wrong key).
func foreignNonce() string {
	nh, err := server.NewShortNonceHash(0)
	if err != nil {
		return "0"
	}
	n, err := nh.Generate()
	if err != nil {
		return "0"
	}

	return n
}
