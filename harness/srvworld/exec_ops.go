package srvworld

import (
	"bytes"
	"encoding/binary"
	"errors"
	"fmt"
	"net"
	"strings"
	"time"

	"github.com/pion/turn/v5/internal/zzverif/ref"
)

func synth(n int, seed uint64, content string) []byte {
	b := make([]byte, n)
	x := seed*2654435761 | 1
	for i := range b {
		x ^= x << 13
		x ^= x >> 7
		x ^= x << 17
		b[i] = byte(x)
	}
	switch content {
	case "zero":
		for i := range b {
			b[i] = 0
		}
	case "stun":
		if n >= 20 {
			binary.BigEndian.PutUint16(b[0:2], 0x0001)
			binary.BigEndian.PutUint16(b[2:4], uint16(n-20))
			binary.BigEndian.PutUint32(b[4:8], ref.MagicCookie)
		}
	case "chandata":
		if n >= 4 {
			binary.BigEndian.PutUint16(b[0:2], 0x4000)
			binary.BigEndian.PutUint16(b[2:4], uint16(n-4))
		}
	case "x4000":
		if n >= 2 {
			b[0], b[1] = 0x40, 0x00
		}
	}

	return b
}

func xorPeerValue(peerIdx int, tx [12]byte) []byte {
	p := peerAddrOf(peerIdx)
	if peerIdx < FirstCrowdPeer && peerIdx%len(PeerPool) == 6 {
		// IPv4-mapped address sent in its 16-byte (family IPv6) encoding
		v := make([]byte, 20)
		v[1] = 2
		binary.BigEndian.PutUint16(v[2:4], uint16(p.Port)^uint16(ref.MagicCookie>>16))
		key := make([]byte, 16)
		binary.BigEndian.PutUint32(key[0:4], ref.MagicCookie)
		copy(key[4:], tx[:])
		ip16 := p.IP.To16()
		for i := 0; i < 16; i++ {
			v[4+i] = ip16[i] ^ key[i]
		}

		return v
	}

	return ref.XorAddr(p.IP, p.Port, tx)
}

func (x *Exec) client(i int) *Client {
	n := len(x.w.clients)

	return x.w.clients[((i%n)+n)%n]
}

func (x *Exec) userIdx(c *Client, st *Step) int {
	if st.U <= 0 {
		return c.User
	}

	return (st.U - 1) % len(Users)
}

// exchange sends one request datagram and returns the (checked) response, if any.
func (x *Exec) exchange(c *Client, raw []byte, method int, emits []emit, dels []deliver, ctx string) *reqInfo {
	rq := &reqInfo{c: c, tx: txOf(raw), method: method}
	c.LastTx = rq.tx
	x.opStart = time.Now()
	x.slept = false
	x.purgeModel() // the request is processed at this very instant
	x.w.send(c, raw)
	if x.dupNext {
		// the network duplicates the datagram: the second copy is right behind the first
		rq.dup, x.dupNext = true, false
		x.w.send(c, raw)
		x.St.inc("request-datagram-duplicated")
	}
	x.settle()
	x.waitCallbacks()
	o := x.observe()
	if len(x.extraReq) > 0 {
		x.slept = true // the pipelined request changed state as well: no before/after comparison for this one
	}
	reqs := append([]*reqInfo{rq}, x.extraReq...)
	x.checkWire(o, reqs, emits, dels, ctx)
	for _, e := range x.extraReq {
		if !x.stop && (e.resp == nil || e.resp.Class != ref.ClassSuccess) {
			x.fail([]string{"C06", "C19"}, "pipelined-refresh-refused", "%s: the Refresh(0) sent just before it was answered with %s", ctx, respDesc(e.resp))
		}
	}
	x.extraReq = nil

	return rq
}

func (x *Exec) learnNonce(c *Client, m *ref.Msg) {
	if v, ok := m.Get(ref.AttrNonce); ok {
		c.Nonce = string(v)
		c.NonceAt = time.Now()
		if c.Nonce0 == "" {
			c.Nonce0 = c.Nonce
			c.Nonce0At = time.Now()
		}
	}
	if v, ok := m.Get(ref.AttrRealm); ok {
		c.RealmSeen = string(v)
	}
}

// prime obtains the first nonce with an unauthenticated Allocate (which must be challenged).
func (x *Exec) prime(c *Client) {
	m := &ref.Msg{Method: ref.MethodAllocate, Class: ref.ClassRequest, TxID: c.nextTx()}
	m.Add(ref.AttrRequestedTransport, []byte{17, 0, 0, 0})
	rq := x.exchange(c, m.Encode(), ref.MethodAllocate, nil, nil, "prime")
	if x.stop {
		return
	}
	x.judgeChallenge(rq, 401, "unauthenticated Allocate")
}

func (x *Exec) judgeChallenge(rq *reqInfo, code int, what string) {
	if rq.resp == nil {
		x.fail([]string{"C03"}, "no-challenge", "%s got no response, expected a %d challenge", what, code)

		return
	}
	if rq.resp.Class != ref.ClassError || rq.resp.ErrorCode() != code {
		x.fail([]string{"C03"}, "wrong-challenge", "%s answered with %s, expected error %d", what, describe(rq.resp), code)

		return
	}
	nv, ok1 := rq.resp.Get(ref.AttrNonce)
	rv, ok2 := rq.resp.Get(ref.AttrRealm)
	if !ok1 || !ok2 || len(nv) == 0 {
		x.fail([]string{"C03"}, "challenge-incomplete", "%s: %d challenge lacks NONCE or REALM", what, code)

		return
	}
	if string(rv) != Realm {
		x.fail([]string{"C03"}, "challenge-realm", "%s: challenge carries realm %q, configured realm is %q", what, rv, Realm)

		return
	}
	x.learnNonce(rq.c, rq.resp)
	rq.c.freshChallenge = true
}

// judgeDefective applies C03's oracle to the response of a request with a credential defect.
func (x *Exec) judgeDefective(rq *reqInfo, defect string, before string, what string) {
	if x.stop {
		return
	}
	x.St.inc("defective-judged")
	x.St.inc("defect:" + defect)
	if x.m.Allocs[rq.c.Idx] != nil {
		x.St.inc("defective-on-live-allocation")
	}
	after := x.fingerprint()
	if before != after && !x.slept {
		x.fail([]string{"C03"}, "defective-request-changed-state", "%s with credential defect %q changed server state:\n before: %s\n after:  %s", what, defect, before, after)

		return
	}
	if rq.resp != nil && rq.resp.Class == ref.ClassSuccess {
		x.fail([]string{"C03"}, "defective-request-success", "%s with credential defect %q was answered with success", what, defect)

		return
	}
	switch defect {
	case "nomi", "nomi-bare":
		x.judgeChallenge(rq, 401, what+" without MESSAGE-INTEGRITY")
	case "nonce-random", "nonce-alphabet", "nonce-mac-flip", "nonce-ts-flip", "nonce-old", "nonce-old-fresh-appended", "nonce-other-server", "nonce-alnum-len":
		if x.w.cfg.NoAuth {
			return
		}
		x.judgeChallenge(rq, 438, what+" with a forged/stale nonce ("+defect+")")
	}
}

// fingerprint is the observable server state used by the "no effect" oracles.
func (x *Exec) fingerprint() string {
	var b bytes.Buffer
	fmt.Fprintf(&b, "count=%d events=%d open=%d", x.w.srv.AllocationCount(), x.eventCount(), x.openGenResources())
	for _, c := range x.w.clients {
		fmt.Fprintf(&b, " | c%d: %s", c.Idx, x.libListing(c))
	}

	return b.String()
}

func (x *Exec) eventCount() int {
	x.w.evMu.Lock()
	defer x.w.evMu.Unlock()

	return len(x.w.events)
}

func (x *Exec) openGenResources() int {
	x.w.gen.mu.Lock()
	defer x.w.gen.mu.Unlock()
	n := 0
	for _, r := range x.w.gen.made {
		switch {
		case r.Sock != nil && !r.Sock.IsClosed():
			n++
		case r.Lis != nil && !r.Lis.IsClosed():
			n++
		case r.Conn != nil && !r.Conn.IsClosed():
			n++
		}
	}

	return n
}

func grantedLifetime(cfg *Config, life int64) time.Duration {
	if life >= 0 && life < 3600 {
		return time.Duration(life) * time.Second
	}

	return cfg.allocLifetime()
}

var errSkip = errors.New("skip")

// authExchange signs m (applying the step's credential defect), sends it, handles C03's oracle for
// defective requests and the transparent retry after a legitimate 438 (nonce older than an hour).
// proceed=false means the step is finished (defective request judged, or the case stopped).
func (x *Exec) authExchange(c *Client, ui int, m *ref.Msg, st *Step, method int, what string) (rq *reqInfo, before string, proceed bool) {
	for attempt := 0; attempt < 2; attempt++ {
		raw, valid, judged := x.signed(c, ui, m, st.Defect, st.Seed)
		before = x.fingerprint()
		fresh := c.freshChallenge
		c.freshChallenge = false
		nonceAge := time.Since(c.NonceAt)
		nonceMinutes := time.Now().Unix()/60 - c.NonceAt.Unix()/60
		x.nonceFresh = nonceMinutes <= 60 && nonceAge <= 60*time.Minute
		x.nonceStale = nonceMinutes > 60
		rq = x.exchange(c, raw, method, nil, nil, what)
		if x.stop {
			return rq, before, false
		}
		if !judged {
			x.resync()

			return rq, before, false
		}
		defect := st.Defect
		if x.w.cfg.NoAuth && valid {
			valid = false
			defect = "noauth-handler"
		}
		if !valid {
			x.judgeDefective(rq, defect, before, what)

			return rq, before, false
		}
		x.judgeFreshNonce(rq, fresh, what)
		if x.stop {
			return rq, before, false
		}
		if defect == "" && x.nonceStale && rq.resp != nil && !(rq.resp.Class == ref.ClassError && rq.resp.ErrorCode() == 438) {
			x.fail([]string{"C03"}, "stale-nonce-accepted", "%s carrying a nonce issued %v ago (%d minute boundaries) was not answered with 438 but with %s", what, nonceAge, nonceMinutes, respDesc(rq.resp))

			return rq, before, false
		}
		if rq.resp != nil && rq.resp.Class == ref.ClassError && rq.resp.ErrorCode() == 438 && (defect == "" || defect == "nonce-lower" || defect == "other-realm") {
			switch {
			case nonceMinutes <= 60 && nonceAge <= 60*time.Minute:
				x.fail([]string{"C03", "C14"}, "valid-nonce-rejected", "%s with correct credentials and a nonce issued %v ago was answered 438", what, nonceAge)

				return rq, before, false
			case attempt == 0:
				// legitimately stale: adopt the new nonce and try again, as a real client does
				x.judgeChallenge(rq, 438, what+" with a nonce older than an hour")
				if x.stop {
					return rq, before, false
				}
				x.St.inc("stale-nonce-retry")
				x.tick()

				continue
			}
		}

		return rq, before, true
	}

	return rq, before, true
}

// owns: requests of user ui act on allocation a - the users are the same, or the operator's
// AuthHandler gives everybody the same (empty) user id.
func (x *Exec) owns(a *MAlloc, ui int) bool {
	return a.User == Users[ui].Name || x.w.cfg.EmptyUserID
}

// txFor is the transaction id of a scripted request: fresh, another client's last one, or an extreme value.
func (x *Exec) txFor(c *Client, st *Step) (id [12]byte) {
	switch {
	case st.TxFrom > 0:
		x.St.inc("txid-reused-across-clients")

		return x.client(st.TxFrom - 1).LastTx
	case st.TxFrom == -1:
		x.St.inc("txid-all-zero")

		return id
	case st.TxFrom == -2:
		for i := range id {
			id[i] = 0xFF
		}
		x.St.inc("txid-all-ones")

		return id
	}

	return c.nextTx()
}

// ---- Allocate -------------------------------------------------------------------------------

func (x *Exec) opAllocate(st *Step) { //nolint:cyclop,gocyclo,maintidx
	c := x.client(st.C)
	ui := x.userIdx(c, st)
	if st.Rel == "after-refresh0" && st.Defect == "" && !c.Stream && !st.Retx && st.TxFrom == 0 && x.w.cfg.CallbackSleepS == 0 {
		// pipelined: a Refresh(0) and, without waiting for its answer, a new Allocate. The server
		// handles them in order, so the outcome is that of the sequential history; what differs is
		// that the old allocation's teardown is still under way when the new one is made.
		nonceMinutes := time.Now().Unix()/60 - c.NonceAt.Unix()/60
		if a := x.m.Allocs[c.Idx]; a != nil && x.owns(a, ui) && nonceMinutes < 59 {
			rm := &ref.Msg{Method: ref.MethodRefresh, Class: ref.ClassRequest, TxID: c.nextTx()}
			rm.Add(ref.AttrLifetime, ref.U32(0))
			raw, _, _ := x.signed(c, ui, rm, "", 0)
			x.purgeModel()
			x.w.send(c, raw)
			x.extraReq = append(x.extraReq, &reqInfo{c: c, tx: rm.TxID, method: ref.MethodRefresh})
			x.m.remove(c.Idx)
			c.HasAlloc = false
			x.St.inc("refresh0-then-allocate-pipelined")
		}
	}
	m := &ref.Msg{Method: ref.MethodAllocate, Class: ref.ClassRequest}
	switch {
	case st.Retx && c.HasAlloc:
		m.TxID = c.AllocTx
		x.St.inc("allocate-retransmission")
	case st.TxFrom > 0:
		m.TxID = x.client(st.TxFrom - 1).LastTx
		x.St.inc("txid-reused-across-clients")
	case st.TxFrom == -1:
		// the all-zero transaction id: unusual, legal, and what a zero-valued message carries
		x.St.inc("txid-all-zero")
	case st.TxFrom == -2:
		for i := range m.TxID {
			m.TxID[i] = 0xFF
		}
		x.St.inc("txid-all-ones")
	default:
		m.TxID = c.nextTx()
	}
	malformed := ""
	switch st.Opt {
	case "notransport":
		malformed = "no REQUESTED-TRANSPORT"
	case "badtransport":
		m.Add(ref.AttrRequestedTransport, []byte{99, 0, 0, 0})
		malformed = "unsupported transport"
	default:
		if st.Tcp {
			m.Add(ref.AttrRequestedTransport, []byte{6, 0, 0, 0})
		} else {
			m.Add(ref.AttrRequestedTransport, []byte{17, 0, 0, 0})
		}
	}
	if st.Life >= 0 {
		m.Add(ref.AttrLifetime, ref.U32(uint32(st.Life)))
	}
	switch st.Fam {
	case 1, 2:
		m.Add(ref.AttrRequestedAddressFamily, []byte{byte(st.Fam), 0, 0, 0})
	case 3:
		m.Add(ref.AttrRequestedAddressFamily, []byte{9, 0, 0, 0})
		malformed = "invalid address family"
	}
	even, token := false, false
	switch st.Opt {
	case "evenport":
		even = true
	case "token":
		token = true
	case "token+even":
		even, token = true, true
		malformed = "RESERVATION-TOKEN with EVEN-PORT"
	case "token+fam":
		token = true
		if st.Fam == 0 {
			m.Add(ref.AttrRequestedAddressFamily, []byte{1, 0, 0, 0})
		}
		malformed = "RESERVATION-TOKEN with REQUESTED-ADDRESS-FAMILY"
	case "dontfrag":
		m.Add(ref.AttrDontFragment, nil)
		malformed = "DONT-FRAGMENT unsupported"
	}
	wantPort := 0
	if token {
		tok := x.lastToken
		if tok == nil || time.Since(x.lastTokenAt) >= 30*time.Second || x.lastTokenStream != c.Stream {
			// (a reservation lives in the allocation manager of the listener it was made on)
			if tok == nil {
				tok = []byte("NOSUCHTK")
			}
			if malformed == "" {
				malformed = "unknown or expired reservation token"
			}
		} else {
			wantPort = x.lastTokenPort + 1
		}
		if st.Fam != 0 && malformed == "" {
			malformed = "RESERVATION-TOKEN with REQUESTED-ADDRESS-FAMILY"
		}
		m.Add(ref.AttrReservationToken, tok)
	}
	if even {
		m.Add(ref.AttrEvenPort, []byte{0x80})
	}
	genBefore := len(x.w.gen.made)
	failsBefore := x.w.gen.failed + x.w.gen.rangeFull
	// lost response: the server's write of the answer fails; the client retransmits the very same
	// request and must get the answer it would have got (C19)
	lost := st.RespLost && st.Defect == "" && !c.Stream && !st.Retx && st.TxFrom == 0 && x.m.Allocs[c.Idx] == nil && x.w.cfg.CallbackSleepS == 0
	if lost {
		x.w.srvSock.FailWrites(1)
	}
	cfg := &x.w.cfg
	x.dupNext = st.Dup && !lost && st.Defect == "" && !c.Stream && malformed == "" && cfg.GenFailAt == 0 && cfg.Quota == 0 && cfg.RealGenPorts == 0 &&
		cfg.CallbackSleepS == 0 && !cfg.NoAuth && st.Opt == "" && st.Rel == ""
	rq, before, proceed := x.authExchange(c, ui, m, st, ref.MethodAllocate, "Allocate")
	x.dupNext = false
	x.w.srvSock.FailWrites(0)
	if !proceed {
		return
	}
	lostRetry := false
	var firstAttempt time.Time
	genBeforeRetry := -1
	if lost && rq.resp == nil {
		x.St.inc("response-lost:allocate")
		switch {
		case x.nonceStale:
			return // what got lost was the 438 challenge
		case !x.nonceFresh:
			x.resync()

			return
		}
		firstAttempt = x.opStart // the allocation, if the lost attempt created it, counts from then
		x.tick()
		failsBefore = x.w.gen.failed + x.w.gen.rangeFull // (a generator failure may have hit the lost attempt)
		genBeforeRetry = len(x.w.gen.made)
		rq, _, proceed = x.authExchange(c, ui, m, st, ref.MethodAllocate, "Allocate (retransmitted after a lost response)")
		if !proceed {
			return
		}
		lostRetry = true
		x.St.inc("allocate-retransmitted-after-lost-response")
	}
	user := Users[ui].Name
	if a := x.m.Allocs[c.Idx]; a != nil {
		if rq.tx == a.CachedTx {
			// retransmission: same success again, nothing created
			if rq.resp == nil || rq.resp.Class != ref.ClassSuccess {
				x.fail([]string{"C19"}, "retransmitted-allocate-not-success", "retransmitted Allocate (same transaction id) answered with %s", respDesc(rq.resp))

				return
			}
			for t, v := range a.CachedResp {
				got, ok := rq.resp.Get(t)
				if !ok || !bytes.Equal(got, v) {
					x.fail([]string{"C19"}, "retransmitted-allocate-differs", "retransmitted Allocate: attribute %#x is %x, the first success carried %x", t, got, v)

					return
				}
			}
			if len(rq.resp.Attrs) != len(a.CachedResp)+1 {
				x.fail([]string{"C19"}, "retransmitted-allocate-differs", "retransmitted Allocate: %d attributes, the first success had %d (+MESSAGE-INTEGRITY)", len(rq.resp.Attrs), len(a.CachedResp))

				return
			}
			if after := x.fingerprint(); after != before && !x.slept {
				x.fail([]string{"C19", "C15"}, "retransmitted-allocate-created", "retransmitted Allocate changed server state:\n before: %s\n after:  %s", before, after)
			}
			x.St.inc("allocate-retransmission-judged")

			return
		}
		// a different Allocate on a live 5-tuple
		if rq.resp == nil || rq.resp.Class != ref.ClassError || rq.resp.ErrorCode() != 437 {
			x.fail([]string{"C19", "C04"}, "second-allocate-not-437", "Allocate with a new transaction id on a 5-tuple that holds an allocation answered with %s, expected 437", respDesc(rq.resp))

			return
		}
		if after := x.fingerprint(); after != before && !x.slept {
			x.fail([]string{"C19", "C04", "C15"}, "second-allocate-changed-state", "437-rejected Allocate changed server state:\n before: %s\n after:  %s", before, after)
		}
		x.St.inc("allocate-437")

		return
	}
	// no allocation at this 5-tuple
	refuse := malformed
	if refuse == "" && st.Life == 0 {
		refuse = "LIFETIME 0"
	}
	if refuse == "" && x.w.cfg.Quota > 0 && x.m.liveCountOfUser(user) >= x.w.cfg.Quota {
		refuse = "quota reached"
	}
	success := rq.resp != nil && rq.resp.Class == ref.ClassSuccess
	genFailed := x.w.gen.failed+x.w.gen.rangeFull > failsBefore // scripted failure, or the library's generator found no free port
	if refuse != "" || genFailed {
		if success {
			props := []string{"X00"}
			if st.Life == 0 {
				props = []string{"C06"}
			}
			x.fail(props, "allocate-should-fail", "Allocate (%s) answered with success", refuse)

			return
		}
		if after := x.fingerprint(); after != before && !x.slept {
			x.fail([]string{"C15", "C19"}, "failed-allocate-changed-state", "refused Allocate (%s) changed server state:\n before: %s\n after:  %s", refuse, before, after)
		}
		x.St.inc("allocate-refused")

		return
	}
	if !success && lostRetry {
		x.fail([]string{"C19"}, "retransmitted-allocate-not-success", "the answer to a well-formed Allocate was lost (write error at the server); its retransmission with the same transaction id was answered with %s", respDesc(rq.resp))

		return
	}
	if !success && st.Opt == "evenport" && x.w.cfg.RealGenPorts > 0 && rq.resp != nil && strings.Contains(respDesc(rq.resp), "code=508") {
		// the library's port-range generator over a handful of ports: when the even ones are taken
		// every probe lands on an odd port and the search for an even one gives up - a legitimate 508
		if after := x.fingerprint(); after != before && !x.slept {
			x.fail([]string{"C15", "C19"}, "failed-allocate-changed-state", "refused Allocate (no even port in the range) changed server state:\n before: %s\n after:  %s", before, after)
		}
		x.St.inc("allocate-refused:no-even-port-in-range")

		return
	}
	if !success {
		x.fail([]string{"X00"}, "allocate-unexpectedly-refused", "well-formed Allocate answered with %s", respDesc(rq.resp))

		return
	}
	// ---- judge the success response (C19, C06) ----
	resp := rq.resp
	if x.slept && time.Since(x.opStart) >= grantedLifetime(&x.w.cfg, st.Life) {
		// a scripted slow callback delayed the response beyond the granted lifetime: the
		// allocation has come and gone before the client heard of it (operator-induced)
		x.St.inc("allocate-expired-during-callback")

		return
	}
	mv, ok := resp.Get(ref.AttrXORMappedAddress)
	mip, mport, merr := ref.UnxorAddr(mv, resp.TxID)
	if !ok || merr != nil || !mip.Equal(c.Addr.IP) || mport != c.Addr.Port {
		x.fail([]string{"C19"}, "allocate-mapped-address", "Allocate success reports mapped address %v:%d, the request came from %v", mip, mport, c.Addr)

		return
	}
	lv, ok := resp.Get(ref.AttrLifetime)
	want := grantedLifetime(&x.w.cfg, st.Life)
	if !ok || len(lv) != 4 || time.Duration(binary.BigEndian.Uint32(lv))*time.Second != want {
		x.fail([]string{"C06", "C19"}, "allocate-lifetime", "Allocate success reports LIFETIME %x, expected %v (requested %d, default %v)", lv, want, st.Life, x.w.cfg.allocLifetime())

		return
	}
	rv, ok := resp.Get(ref.AttrXORRelayedAddress)
	rip, rport, rerr := ref.UnxorAddr(rv, resp.TxID)
	if !ok || rerr != nil {
		x.fail([]string{"C19"}, "allocate-relayed-address", "Allocate success without a decodable XOR-RELAYED-ADDRESS")

		return
	}
	fam := st.Fam
	if fam == 0 {
		fam = x.w.defaultFamily(c)
	}
	relay := &net.UDPAddr{IP: rip, Port: rport}
	a := &MAlloc{
		Client: c.Idx, User: user, Family: fam, TCP: st.Tcp, Relay: relay,
		// (the deadline is corrected below when a lost first attempt had already created the allocation)
		Deadline: x.opStart.Add(want), CachedTx: rq.tx, CachedResp: map[uint16][]byte{},
		Perms: map[string]time.Time{}, PermInstalls: map[string]int{}, Chans: map[uint16]*MChan{}, TCPs: map[uint32]*MTCP{},
		CreatedStep: x.w.stepNo,
	}
	for _, at := range resp.Attrs {
		if at.Type != ref.AttrMessageIntegrity {
			a.CachedResp[at.Type] = at.Value
		}
	}
	// the advertised address must be a socket bound in this step, open, and nobody else's
	x.w.gen.mu.Lock()
	made := append([]*genRes{}, x.w.gen.made[genBefore:]...)
	x.w.gen.mu.Unlock()
	for _, r := range made {
		if r.Sock != nil && !r.Sock.IsClosed() && r.Sock.Local().Port == rport && r.Sock.Local().IP.Equal(rip) {
			a.RelaySock = r.Sock
		}
		if r.Lis != nil && !r.Lis.IsClosed() && r.Lis.TCPAddr().Port == rport && r.Lis.TCPAddr().IP.Equal(rip) {
			a.RelayLis = r.Lis
		}
	}
	if a.RelaySock == nil && a.RelayLis == nil {
		x.fail([]string{"C19", "C20", "C06", "C04"}, "allocate-relayed-address-not-bound", "Allocate success advertises %v but no open socket bound at that address was handed out for this request", relay)

		return
	}
	if (familyOfIP(rip) == 1) != (fam == 1) {
		x.fail([]string{"C19"}, "allocate-family", "relayed address %v does not have the requested family %d", relay, fam)

		return
	}
	for _, o := range x.m.Allocs {
		if o.Relay.Port == rport && o.Relay.IP.Equal(rip) && o.TCP == a.TCP {
			x.fail([]string{"C19", "C20", "C04", "C05"}, "allocate-relayed-address-shared", "relayed address %v is already the relayed address of client %d's live allocation", relay, o.Client)

			return
		}
	}
	if even {
		tv, ok := resp.Get(ref.AttrReservationToken)
		if rport%2 != 0 || !ok || len(tv) != 8 {
			x.fail([]string{"C19"}, "allocate-even-port", "EVEN-PORT Allocate got port %d and token %x", rport, tv)

			return
		}
		x.lastToken, x.lastTokenAt, x.lastTokenPort, x.lastTokenStream = tv, time.Now(), rport, c.Stream
		x.St.inc("allocate-evenport")
	}
	if wantPort != 0 {
		if rport != wantPort {
			x.fail([]string{"C19"}, "allocate-reserved-port", "Allocate with RESERVATION-TOKEN got port %d, the reservation was for %d", rport, wantPort)

			return
		}
		x.lastToken = nil
		x.St.inc("allocate-token")
	}
	if lostRetry && genBeforeRetry == len(x.w.gen.made) {
		// the retransmission was answered from the response cache: the lost attempt made the allocation
		a.Deadline = firstAttempt.Add(want)
	}
	x.m.Allocs[c.Idx] = a
	c.AllocTx, c.HasAlloc = rq.tx, true
	x.St.inc("allocate-success")
	if st.Tcp {
		x.St.inc("allocate-tcp")
	}
}

func respDesc(m *ref.Msg) string {
	if m == nil {
		return "silence"
	}

	return describe(m)
}

// judgeFreshNonce: a nonce just handed out in a challenge must be accepted (C03).
func (x *Exec) judgeFreshNonce(rq *reqInfo, fresh bool, what string) {
	if !fresh || rq.resp == nil {
		return
	}
	if rq.resp.Class == ref.ClassError && rq.resp.ErrorCode() == 438 {
		x.fail([]string{"C03"}, "fresh-nonce-rejected", "%s with correct credentials and the nonce the server just issued was answered %d", what, rq.resp.ErrorCode())
	}
}

// dupOK: the step's request datagram may be delivered twice (Step.Dup) - only where nothing else
// unusual happens in the step, so that both copies are served alike.
func (x *Exec) dupOK(c *Client, st *Step, lost bool) bool {
	cfg := &x.w.cfg

	return st.Dup && !lost && st.Defect == "" && !c.Stream && st.Rel == "" && st.Opt == "" && st.Fam == 0 && !st.Retx && cfg.GenFailAt == 0 && cfg.Quota == 0 &&
		cfg.CallbackSleepS == 0 && !cfg.NoAuth
}

// ---- Refresh --------------------------------------------------------------------------------

func (x *Exec) opRefresh(st *Step) {
	c := x.client(st.C)
	ui := x.userIdx(c, st)
	m := &ref.Msg{Method: ref.MethodRefresh, Class: ref.ClassRequest}
	if st.Retx && c.HasRefreshTx {
		// the retransmission of the client's last Refresh (its answer was lost, or is late): a
		// Refresh with a non-zero lifetime simply refreshes again (RFC 5766 section 7.2)
		m.TxID = c.RefreshTx
		x.St.inc("refresh-retransmission")
	} else {
		m.TxID = x.txFor(c, st)
	}
	c.RefreshTx, c.HasRefreshTx = m.TxID, true
	if st.Life >= 0 {
		m.Add(ref.AttrLifetime, ref.U32(uint32(st.Life)))
	}
	switch st.Fam {
	case 1, 2:
		m.Add(ref.AttrRequestedAddressFamily, []byte{byte(st.Fam), 0, 0, 0})
	case 3:
		m.Add(ref.AttrRequestedAddressFamily, []byte{9, 0, 0, 0})
	}
	// a Refresh at the very instant the allocation expires: it may be served before the expiry
	// (success, the allocation lives on for the granted lifetime) or after it (437) - but not both
	tied := false
	if st.Rel == "tie" && st.Defect == "" && st.Fam == 0 && st.Life != 0 {
		if a := x.m.Allocs[c.Idx]; a != nil && x.owns(a, ui) {
			x.tieWith(a.Deadline, "allocation")
			if tied = time.Now().Equal(a.Deadline); tied {
				a.Deadline = a.Deadline.Add(time.Nanosecond) // the answer decides whether it expired
			}
		}
	}
	// lost response: the server's write of the answer fails; the request itself took effect
	lost := st.RespLost && st.Defect == "" && !c.Stream && !tied && st.Fam == 0 && x.w.cfg.CallbackSleepS == 0
	if lost {
		x.w.srvSock.FailWrites(1)
	}
	x.dupNext = x.dupOK(c, st, lost) && !tied
	rq, before, proceed := x.authExchange(c, ui, m, st, ref.MethodRefresh, "Refresh")
	x.dupNext = false
	x.w.srvSock.FailWrites(0)
	if !proceed {
		return
	}
	a := x.m.Allocs[c.Idx]
	success := rq.resp != nil && rq.resp.Class == ref.ClassSuccess
	if lost && rq.resp == nil && a != nil && x.owns(a, ui) {
		x.St.inc("response-lost:refresh")
		switch {
		case x.nonceStale:
			return // what got lost was the 438 challenge
		case !x.nonceFresh:
			x.resync()

			return
		}
		// processed with a valid nonce by the owner: it took effect although the answer never arrived
		want := grantedLifetime(&x.w.cfg, st.Life)
		if want == 0 {
			x.m.remove(c.Idx)
			x.St.inc("refresh-zero")
		} else {
			a.Deadline = x.opStart.Add(want)
			a.Refreshes++
		}

		return
	}
	user := Users[ui].Name
	switch {
	case a == nil:
		if success {
			x.fail([]string{"C06"}, "refresh-without-allocation", "Refresh on a 5-tuple without allocation answered with success")
		}
		x.St.inc("refresh-no-allocation")
	case !x.owns(a, ui):
		if success {
			x.fail([]string{"C03", "C04"}, "refresh-by-other-user", "user %s refreshed the allocation of user %s", user, a.User)

			return
		}
		if after := x.fingerprint(); after != before && !x.slept {
			x.fail([]string{"C03", "C04"}, "refresh-by-other-user-effect", "Refresh by another user changed state:\n before: %s\n after:  %s", before, after)
		}
		x.St.inc("refresh-other-user")
	case st.Fam == 3 || (st.Fam != 0 && st.Fam != a.Family):
		if success {
			x.fail([]string{"X00"}, "refresh-family-mismatch-success", "Refresh with mismatching REQUESTED-ADDRESS-FAMILY answered with success")
		}
		x.St.inc("refresh-family-mismatch")
	default:
		if !success && tied && (rq.resp == nil || (rq.resp.Class == ref.ClassError && rq.resp.ErrorCode() == 437)) {
			// (this server does not answer a Refresh for which it finds no allocation)
			x.m.remove(c.Idx) // served after the expiry
			x.St.inc("tie:refresh-after-expiry")

			return
		}
		if !success {
			x.fail([]string{"C06", "C14", "C09"}, "refresh-refused", "Refresh of a live allocation (model deadline in %v) by its owner answered with %s", time.Until(a.Deadline), respDesc(rq.resp))

			return
		}
		want := grantedLifetime(&x.w.cfg, st.Life)
		lv, ok := rq.resp.Get(ref.AttrLifetime)
		if !ok || len(lv) != 4 || time.Duration(binary.BigEndian.Uint32(lv))*time.Second != want {
			x.fail([]string{"C06"}, "refresh-lifetime", "Refresh success reports LIFETIME %x, expected %v (requested %d)", lv, want, st.Life)

			return
		}
		if want == 0 {
			x.m.remove(c.Idx)
			x.St.inc("refresh-zero")
		} else {
			a.Deadline = x.opStart.Add(want)
			a.Refreshes++
			x.St.inc("refresh-success")
		}
	}
}

// ---- CreatePermission -----------------------------------------------------------------------

// tieWith makes the step act at the very instant the given deadline passes (no margin): the
// request and the expiry timer meet, either order is legitimate, and a request answered with
// success must leave an entry that lasts its full timeout from that instant.
func (x *Exec) tieWith(dl time.Time, what string) {
	if d := time.Until(dl); d > 0 && d < 2*time.Hour {
		if x.tieRestore < 0 {
			x.tieRestore = time.Duration(time.Now().UnixNano()) % time.Second
		}
		time.Sleep(d)
		x.slept = true
		for _, c := range x.w.clients {
			c.freshChallenge = false // time has passed: nobody's nonce is "just issued" any more
		}
		x.w.handlerYield.Store(300)
		x.St.inc("tie:" + what)
		x.w.tracef("tie: acting at the instant the %s expires", what)
	}
}

func (x *Exec) opCreatePermission(st *Step) {
	c := x.client(st.C)
	ui := x.userIdx(c, st)
	if st.Rel == "tie" && len(st.P) == 1 && st.Defect == "" {
		if a := x.m.Allocs[c.Idx]; a != nil {
			if dl, ok := a.Perms[canonIP(peerAddrOf(st.P[0]).IP)]; ok && a.Deadline.After(dl.Add(time.Second)) {
				x.tieWith(dl, "permission")
			}
		}
	}
	m := &ref.Msg{Method: ref.MethodCreatePermission, Class: ref.ClassRequest, TxID: x.txFor(c, st)}
	for i, p := range st.P {
		v := xorPeerValue(p, m.TxID)
		if st.Opt == "trunc-first" && i == 0 {
			// a truncated address (family and port intact, 1-3 / 1-15 address bytes) in front of
			// well-formed ones: the request as a whole is malformed
			cut := 5 + int(st.Seed%3)
			if len(v) > 8 {
				cut = 5 + int(st.Seed%15)
			}
			m.Add(ref.AttrXORPeerAddress, v[:cut])
			x.St.inc("createpermission-truncated-first-peer")
		}
		m.Add(ref.AttrXORPeerAddress, v)
	}
	lost := st.RespLost && st.Defect == "" && !c.Stream && st.Opt == ""
	if lost {
		x.w.srvSock.FailWrites(1)
	}
	x.dupNext = x.dupOK(c, st, lost)
	rq, _, proceed := x.authExchange(c, ui, m, st, ref.MethodCreatePermission, "CreatePermission")
	x.dupNext = false
	x.w.srvSock.FailWrites(0)
	if !proceed {
		return
	}
	a := x.m.Allocs[c.Idx]
	success := rq.resp != nil && rq.resp.Class == ref.ClassSuccess
	lostResp := lost && rq.resp == nil
	refuse, props := "", []string{"X00"}
	switch {
	case a == nil:
		refuse, props = "no allocation", []string{"C06"}
	case !x.owns(a, ui):
		refuse, props = "other user's allocation", []string{"C03", "C04"}
	case len(st.P) == 0:
		refuse = "no peer address"
	case st.Opt == "trunc-first":
		refuse, props = "a truncated XOR-PEER-ADDRESS in front of the well-formed ones", []string{"C11", "C07", "C09"}
	default:
		for _, p := range st.P {
			pa := peerAddrOf(p)
			if familyOfIP(pa.IP) != a.Family {
				refuse, props = "peer of the other address family", []string{"C01"}
				x.St.inc("perm-wrong-family")
			} else if x.w.deniedAt(x.opStart, c.Idx, pa.IP) {
				refuse, props = "peer vetoed by the permission handler", []string{"C01"}
				x.St.inc("perm-vetoed")
			}
		}
	}
	if refuse != "" {
		if success {
			x.fail(props, "createpermission-should-fail", "CreatePermission (%s) answered with success", refuse)

			return
		}
		x.St.inc("createpermission-refused")

		return
	}
	if lostResp {
		// the response was lost on the way out: the client cannot know whether the request took
		// effect; both outcomes are acceptable, so take the library's word for it and go on
		x.St.inc("response-lost:createpermission")
		switch {
		case x.nonceStale:
			return // what got lost was the 438 challenge: the request itself was never processed
		case !x.nonceFresh:
			x.resync() // nonce age inside the unjudged band

			return
		}
		success = true // processed with a valid nonce and admissible: it took effect
	}
	if !success {
		x.fail([]string{"X00"}, "createpermission-unexpectedly-refused", "admissible CreatePermission answered with %s", respDesc(rq.resp))

		return
	}
	// Peers are installed in order; a scripted slow OnPermissionCreated (only invoked for a
	// permission that did not exist) delays the following ones by the callback's duration.
	t := x.opStart
	var cbSleep time.Duration
	if x.w.cfg.CallbackSleepS > 0 && (x.w.cfg.SlowCallback == "PermCreated" || x.w.cfg.SlowCallback == "all") {
		cbSleep = time.Duration(x.w.cfg.CallbackSleepS)*time.Second + 500*time.Millisecond
	}
	for _, p := range st.P {
		ip := canonIP(peerAddrOf(p).IP)
		d, ok := a.Perms[ip]
		live := ok && t.Before(d)
		if live {
			x.St.inc("perm-refreshed")
		}
		a.Perms[ip] = t.Add(x.w.cfg.permTimeout())
		a.PermInstalls[ip]++
		if !live {
			t = t.Add(cbSleep)
		}
	}
	x.St.inc("createpermission-success")
}

// ---- ChannelBind ----------------------------------------------------------------------------

func (x *Exec) opChannelBind(st *Step) { //nolint:cyclop
	c := x.client(st.C)
	ui := x.userIdx(c, st)
	num := x.chanNumber(st)
	pi := 0
	if len(st.P) > 0 {
		pi = st.P[0]
	}
	pa := peerAddrOf(pi)
	if st.Rel == "tie" && st.Defect == "" {
		if a := x.m.Allocs[c.Idx]; a != nil {
			if ch, ok := a.Chans[num]; ok && sameUDP(ch.Peer, pa) && a.Deadline.After(ch.Deadline.Add(time.Second)) {
				x.tieWith(ch.Deadline, "channel binding")
			}
		}
	}
	// at the very instant the allocation itself expires: served before the expiry (success, and
	// everything goes with the allocation) or after it (no allocation) - either way nothing of
	// the request may outlive the allocation
	allocTie := false
	if st.Rel == "alloc-tie" && st.Defect == "" && x.w.cfg.CallbackSleepS == 0 {
		if a := x.m.Allocs[c.Idx]; a != nil && x.owns(a, ui) {
			x.tieWith(a.Deadline, "allocation (ChannelBind)")
			allocTie = time.Now().Equal(a.Deadline)
		}
	}
	m := &ref.Msg{Method: ref.MethodChannelBind, Class: ref.ClassRequest, TxID: x.txFor(c, st)}
	m.Add(ref.AttrChannelNumber, ref.ChannelNumberAttr(num))
	m.Add(ref.AttrXORPeerAddress, xorPeerValue(pi, m.TxID))
	if allocTie {
		a := x.m.Allocs[c.Idx]
		a.Deadline = a.Deadline.Add(time.Nanosecond) // still there for the bookkeeping of the exchange
		raw, _, _ := x.signed(c, ui, m, "", 0)
		x.exchange(c, raw, ref.MethodChannelBind, nil, nil, "ChannelBind at the instant the allocation expires")
		x.m.remove(c.Idx)
		x.slept = true
		x.St.inc("tie:channelbind-at-allocation-expiry")

		return
	}
	lost := st.RespLost && st.Defect == "" && !c.Stream
	if lost {
		x.w.srvSock.FailWrites(1)
	}
	x.dupNext = x.dupOK(c, st, lost)
	rq, before, proceed := x.authExchange(c, ui, m, st, ref.MethodChannelBind, "ChannelBind")
	x.dupNext = false
	x.w.srvSock.FailWrites(0)
	if !proceed {
		return
	}
	a := x.m.Allocs[c.Idx]
	success := rq.resp != nil && rq.resp.Class == ref.ClassSuccess
	if lost && rq.resp == nil {
		// response lost on the way out: accept either outcome (see CreatePermission)
		x.St.inc("response-lost:channelbind")
		switch {
		case x.nonceStale:
			return // the lost response was the 438 challenge
		case !x.nonceFresh:
			x.resync()

			return
		}
		if !strings.Contains(x.libListing(c), fmt.Sprintf("%#x->%s", num, canonAddr(pa.String()))) {
			// no binding: the request had no effect - or the server undid the binding after the
			// failed write and kept the permission it had refreshed; the client cannot tell
			if a != nil && x.owns(a, ui) {
				libP, _ := splitListing(x.libListing(c))
				_, had := a.Perms[canonIP(pa.IP)]
				for _, lp := range libP {
					if lp == canonIP(pa.IP) && !had && familyOfIP(pa.IP) == a.Family && !x.w.deniedAt(x.opStart, c.Idx, pa.IP) {
						a.Perms[lp] = x.opStart.Add(x.w.cfg.permTimeout())
						a.PermInstalls[lp]++
					}
				}
			}

			return
		}
		if a == nil || !x.owns(a, ui) || !ref.ValidChannel(num) {
			return // the cross-check after the step judges a binding that must not exist
		}
		if ch, ok := a.Chans[num]; ok && !sameUDP(ch.Peer, pa) {
			return
		}
		if on, ch := a.chanByPeer(pa); ch != nil && on != num {
			return
		}
		if familyOfIP(pa.IP) != a.Family || x.w.deniedAt(x.opStart, c.Idx, pa.IP) {
			return
		}
		success = true
	}
	user := Users[ui].Name
	switch {
	case a == nil:
		if success {
			x.fail([]string{"C06"}, "channelbind-without-allocation", "ChannelBind without allocation answered with success")
		}

		return
	case !x.owns(a, ui):
		if success {
			x.fail([]string{"C03", "C04"}, "channelbind-by-other-user", "user %s bound a channel in the allocation of %s", user, a.User)
		}

		return
	}
	if familyOfIP(pa.IP) != a.Family || x.w.deniedAt(x.opStart, c.Idx, pa.IP) {
		if success {
			x.fail([]string{"C01"}, "channelbind-should-fail", "ChannelBind to a vetoed / wrong-family peer %v answered with success", pa)
		}
		x.St.inc("chan-vetoed-or-family")

		return
	}
	must400 := func(why string) {
		if rq.resp == nil || rq.resp.Class != ref.ClassError || rq.resp.ErrorCode() != 400 {
			x.fail([]string{"C08"}, "channelbind-not-400", "ChannelBind %#x -> %v (%s) answered with %s, expected 400", num, pa, why, respDesc(rq.resp))

			return
		}
		if after := x.fingerprint(); after != before && !x.slept {
			x.fail([]string{"C08"}, "rejected-channelbind-changed-state", "rejected ChannelBind (%s) changed state:\n before: %s\n after:  %s", why, before, after)
		}
	}
	if !ref.ValidChannel(num) {
		x.St.inc("chan-out-of-range")
		must400("number outside 0x4000-0x7FFF")

		return
	}
	if ch, ok := a.Chans[num]; ok && !sameUDP(ch.Peer, pa) {
		x.St.inc("chan-conflict-number")
		must400("number already bound to " + ch.Peer.String())

		return
	}
	if on, ch := a.chanByPeer(pa); ch != nil && on != num {
		x.St.inc("chan-conflict-peer")
		must400(fmt.Sprintf("peer already bound to %#x", on))

		return
	}
	if !success {
		x.fail([]string{"C08", "C07"}, "channelbind-refused", "conflict-free ChannelBind %#x -> %v answered with %s (model channels %v)", num, pa, respDesc(rq.resp), a.sortedChans())

		return
	}
	if ch, ok := a.Chans[num]; ok {
		ch.Deadline = x.opStart.Add(x.w.cfg.chanTimeout())
		ch.Binds++
		x.St.inc("chan-refreshed")
	} else {
		a.Chans[num] = &MChan{Peer: &net.UDPAddr{IP: pa.IP, Port: pa.Port}, Deadline: x.opStart.Add(x.w.cfg.chanTimeout()), Binds: 1}
		x.St.inc("chan-bound")
	}
	ip := canonIP(pa.IP)
	a.Perms[ip] = x.opStart.Add(x.w.cfg.permTimeout())
	a.PermInstalls[ip]++
}

func (x *Exec) chanNumber(st *Step) uint16 {
	if st.Ch >= 1000 {
		return uint16(st.Ch - 1000) // literal number (sweeps)
	}
	n := len(ChannelSlots)

	return ChannelSlots[((st.Ch%n)+n)%n]
}

// ---- data -----------------------------------------------------------------------------------

func (x *Exec) opSend(st *Step) {
	c := x.client(st.C)
	pi := 0
	if len(st.P) > 0 {
		pi = st.P[0]
	}
	pa := peerAddrOf(pi)
	payload := synth(st.N, st.Seed, st.Content)
	m := &ref.Msg{Method: ref.MethodSend, Class: ref.ClassIndication, TxID: c.nextTx()}
	m.Add(ref.AttrXORPeerAddress, xorPeerValue(pi, m.TxID))
	m.Add(ref.AttrData, payload)
	raw := m.Encode()
	if len(raw) > 65507 {
		return
	}
	var emits []emit
	a := x.m.Allocs[c.Idx]
	optional := len(raw) >= x.w.cfg.inboundMTU()
	if a != nil && !a.TCP && a.permLive(pa.IP) {
		emits = append(emits, emit{sock: a.RelaySock, to: pa, payload: payload, optional: optional})
		x.St.inc("send-authorised")
		if optional {
			x.St.inc("send-oversize")
		}
	} else {
		x.St.inc("send-unauthorised")
		x.St.inc("send-drop:" + x.dropReason(a, pa))
	}
	relayFails := st.RespLost && len(emits) == 1 && a.RelaySock != nil
	if relayFails {
		// the relay socket refuses this one datagram (a transient sendto error): it is lost,
		// and nothing else changes - the allocation lives on, as the later steps check
		a.RelaySock.FailWrites(1)
		emits = nil
		x.St.inc("send-relay-write-fails")
	}
	x.w.splitNext = st.Split
	x.w.send(c, raw)
	x.settle()
	if relayFails {
		a.RelaySock.FailWrites(0)
	}
	x.checkWire(x.observe(), nil, emits, nil, fmt.Sprintf("Send indication (%d bytes) from client %d to %v", len(payload), c.Idx, pa))
}

func (x *Exec) dropReason(a *MAlloc, pa *net.UDPAddr) string {
	switch {
	case a == nil:
		for _, g := range x.m.Gone {
			if g.Client >= 0 {
				return "allocation-gone"
			}
		}

		return "no-allocation"
	case a.TCP:
		return "tcp-allocation"
	case x.w.deniedAt(x.opStart, a.Client, pa.IP):
		return "vetoed-peer"
	case familyOfIP(pa.IP) != a.Family:
		return "wrong-family"
	case a.PermInstalls[canonIP(pa.IP)] > 0:
		return "permission-expired"
	default:
		return "no-permission"
	}
}

func (x *Exec) opChannelData(st *Step) {
	c := x.client(st.C)
	num := x.chanNumber(st)
	if c.Stream && !ref.ValidChannel(num) {
		// on a stream such bytes cannot begin a frame and may cost the connection: that is the
		// hostile-stream stage's subject (C09), not a relay probe
		x.St.inc("stream-invalid-prefix-skipped")

		return
	}
	payload := synth(st.N, st.Seed, st.Content)
	frame := ref.EncodeChannelData(num, payload, st.Pad != "none" || c.Stream) // padding is mandatory on streams
	if st.Pad == "extra" && !c.Stream {
		// a datagram that is longer than the message it carries (padding and then some): the
		// length field says where the application data ends
		frame = append(frame, synth(4+int(st.Seed%9), st.Seed+7, "")...)
		x.St.inc("channeldata-with-trailing-bytes")
	}
	if len(frame) > 65507 && !c.Stream {
		return // does not fit into one UDP datagram
	}
	var emits []emit
	a := x.m.Allocs[c.Idx]
	optional := len(frame) >= x.w.cfg.inboundMTU()
	if a != nil && !a.TCP && a.Chans[num] != nil {
		emits = append(emits, emit{sock: a.RelaySock, to: a.Chans[num].Peer, payload: payload, optional: optional})
		x.St.inc("channeldata-authorised")
	} else {
		x.St.inc("channeldata-unauthorised")
		switch {
		case a == nil:
			x.St.inc("cd-drop:no-allocation")
		case !ref.ValidChannel(num):
			x.St.inc("cd-drop:invalid-number")
		default:
			other := false
			for _, o := range x.m.Allocs {
				if o != a && o.Chans[num] != nil {
					other = true
				}
			}
			if other {
				x.St.inc("cd-drop:other-clients-channel")
			} else {
				x.St.inc("cd-drop:unbound-or-expired")
			}
		}
	}
	x.w.splitNext = st.Split
	x.w.send(c, frame)
	x.settle()
	x.checkWire(x.observe(), nil, emits, nil, fmt.Sprintf("ChannelData %#x (%d bytes) from client %d", num, len(payload), c.Idx))
}

// relayTarget picks the relayed address a peer datagram is aimed at: the client's live
// allocation, else its most recent dead one.
func (x *Exec) relayTarget(ci int) (*net.UDPAddr, *MAlloc) {
	c := x.client(ci)
	if a := x.m.Allocs[c.Idx]; a != nil {
		return a.Relay, a
	}
	for i := len(x.m.Gone) - 1; i >= 0; i-- {
		if x.m.Gone[i].Client == c.Idx {
			return x.m.Gone[i].Relay, nil
		}
	}

	return nil, nil
}

func (x *Exec) opPeerData(st *Step) {
	pi := 0
	if len(st.P) > 0 {
		pi = st.P[0]
	}
	n := len(x.w.peers)
	ps := x.w.peers[((pi%n)+n)%n]
	src := &net.UDPAddr{IP: ps.Local().IP, Port: ps.Local().Port}
	target, a := x.relayTarget(st.C)
	if target == nil {
		return
	}
	// the relayed address may meanwhile belong to another client's allocation (port re-use)
	if a == nil {
		for _, o := range x.m.Allocs {
			if sameUDP(o.Relay, target) && !o.TCP {
				a = o
			}
		}
	}
	payload := synth(st.N, st.Seed, st.Content)
	if len(payload) > 65507 {
		return
	}
	var dels []deliver
	optional := len(payload) > 1500
	if a != nil && !a.TCP {
		if num, ch := a.chanByPeer(src); ch != nil {
			dels = append(dels, deliver{client: a.Client, viaChan: true, ch: num, peer: src, payload: payload, optional: optional})
			x.St.inc("peerdata-via-channel")
		} else if a.permLive(src.IP) {
			dels = append(dels, deliver{client: a.Client, peer: src, payload: payload, optional: optional})
			x.St.inc("peerdata-via-indication")
		}
	}
	if len(dels) == 0 {
		x.St.inc("peerdata-unauthorised")
		switch {
		case a == nil:
			x.St.inc("peer-drop:allocation-gone")
		case len(a.Perms) > 0 || len(a.Chans) > 0:
			x.St.inc("peer-drop:other-authorisation-live")
		default:
			x.St.inc("peer-drop:no-permission")
		}
	} else if optional {
		x.St.inc("peerdata-oversize")
	}
	if tc := x.client(st.C); st.RespLost && a != nil && !x.w.clients[a.Client].Stream && st.Stall == 0 && len(dels) == 1 && tc.Idx == a.Client {
		// the server's write of this relayed datagram to the client fails (a transient sendto
		// error on the listening socket): that one datagram is lost and nothing else changes -
		// what is authorised stays authorised, as the later probes check
		x.w.srvSock.FailWrites(1)
		dels = nil
		x.St.inc("peerdata-server-write-fails")
	}
	_, _ = ps.WriteTo(payload, target)
	// (the later datagrams are only looked at by the server when the client reads again: what
	// authorises them must outlive the stall, and nothing else may expire meanwhile)
	stallEnd := time.Now().Add(time.Duration(st.Stall+1) * time.Second)
	outlives := a != nil && a.Deadline.After(stallEnd)
	if outlives {
		for _, d := range a.Perms {
			outlives = outlives && d.After(stallEnd)
		}
		for _, ch := range a.Chans {
			outlives = outlives && ch.Deadline.After(stallEnd)
		}
	}
	if tc := x.client(st.C); st.Stall > 0 && tc.Stream && x.w.cfg.StreamWindow > 0 && len(dels) == 1 && !optional && outlives && tc.Idx == a.Client {
		// the stream client stops reading while further datagrams arrive for it: the server's
		// write blocks at the window; once the client reads again every datagram must arrive
		// whole, in order, none altered or merged
		for i := 1; i < max(st.Burst, 2); i++ {
			more := synth(st.N, st.Seed+uint64(i)*977, st.Content)
			d := dels[0]
			d.payload = more
			dels = append(dels, d)
			_, _ = ps.WriteTo(more, target)
		}
		x.settle()
		x.w.tracef("stall %ds with %d datagrams for the stream client; authorisation outlives %v", st.Stall, len(dels), stallEnd.Sub(x.w.t0))
		time.Sleep(time.Duration(st.Stall)*time.Second + 300*time.Microsecond)
		x.slept = true
		x.St.inc("stream-client-stalled")
	}
	x.settle()
	x.w.srvSock.FailWrites(0)
	x.checkWire(x.observe(), nil, nil, dels, fmt.Sprintf("peer datagram (%d bytes) %v -> relay %v", len(payload), src, target))
}

func (x *Exec) opBinding(st *Step) {
	c := x.client(st.C)
	m := &ref.Msg{Method: ref.MethodBinding, Class: ref.ClassRequest, TxID: c.nextTx()}
	if st.TxFrom > 0 {
		m.TxID = x.client(st.TxFrom - 1).LastTx
	}
	rq := x.exchange(c, m.Encode(), ref.MethodBinding, nil, nil, "Binding")
	if x.stop {
		return
	}
	if rq.resp == nil || rq.resp.Class != ref.ClassSuccess {
		x.fail([]string{"C19", "C09"}, "binding-not-answered", "Binding request answered with %s", respDesc(rq.resp))

		return
	}
	v, ok := rq.resp.Get(ref.AttrXORMappedAddress)
	ip, port, err := ref.UnxorAddr(v, rq.resp.TxID)
	if !ok || err != nil || !ip.Equal(c.Addr.IP) || port != c.Addr.Port {
		x.fail([]string{"C19"}, "binding-mapped-address", "Binding success reports %v:%d, the request came from %v", ip, port, c.Addr)
	}
	x.St.inc("binding")
}
