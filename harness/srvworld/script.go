// Package srvworld executes generated scripts against a real turn.Server inside a synctest bubble
// over simnet, keeps the reference model M-server (DESIGN.md §3) in step and reports findings per
// property.
package srvworld

import (
	"net"
	"time"
)

// Config is the generated server configuration and cast of a script.
type Config struct {
	AllocLifetimeS int   `json:"alloc_lifetime_s"` // 0 = library default (10 min)
	PermTimeoutS   int   `json:"perm_timeout_s"`   // 0 = default (5 min)
	ChanTimeoutS   int   `json:"chan_timeout_s"`   // 0 = default (10 min)
	InboundMTU     int   `json:"inbound_mtu"`      // 0 = default (1600)
	Strict         bool  `json:"strict_family"`
	Clients        []int `json:"clients"`     // indices into the client address pool
	Deny           []int `json:"deny"`        // peer-pool indices the permission handler refuses
	DenyClient     int   `json:"deny_client"` // -1: deny for everybody; else only for this client index
	// DenyStream: peers that only the stream listener's permission handler refuses (the UDP
	// listener of the same server admits them): each listener has its own policy
	DenyStream     []int  `json:"deny_stream,omitempty"`
	DenyAfterS     int    `json:"deny_after_s,omitempty"` // >0: the deny list only applies from this many seconds after start
	NoAuth         bool   `json:"no_auth,omitempty"`      // no AuthHandler configured
	Quota          int    `json:"quota,omitempty"`        // >0: at most this many allocations per user (QuotaHandler)
	GenFailAt      int    `json:"gen_fail_at,omitempty"`  // >0: the n-th relay allocation attempt fails
	CallbackSleepS int    `json:"callback_sleep_s,omitempty"`
	SlowCallback   string `json:"slow_callback,omitempty"`        // which lifecycle callback sleeps
	RealGenPorts   int    `json:"real_generator_ports,omitempty"` // > 0: UDP relay sockets come from the library's port-range generator over this many ports
	StreamWindow   int    `json:"stream_window,omitempty"`        // stream clients' receive window in bytes (0 = unbounded): the server's writes block while that much is unread
	DualStack      bool   `json:"dual_stack,omitempty"`           // the UDP listener is the dual-stack wildcard socket [::]:3478 and serves both families
	ServerV6       bool   `json:"server_v6,omitempty"`            // the UDP listener is bound to an IPv6 address
	Stream         []int  `json:"stream_clients,omitempty"`       // client indices that talk to the server over a TCP control connection
	// EmptyUserID: the operator's AuthHandler returns "" as the user id for everybody (it does not
	// use user ids): all authenticated users are then one owner as far as allocations go
	EmptyUserID bool `json:"empty_user_id,omitempty"`
	// ProbeChanDeleted: from inside OnChannelDeleted the bound peer sends one more datagram to the
	// relayed address - the binding whose end is being announced must not carry it to the client
	ProbeChanDeleted bool `json:"probe_chan_deleted,omitempty"`
}

// Step is one scripted action. Everything is symbolic (indices into pools) and resolved against
// the model at execution time.
type Step struct {
	Op       string `json:"op"`
	C        int    `json:"c,omitempty"`       // client index
	U        int    `json:"u,omitempty"`       // user index; 0 = the client's own user, k>0 = user k-1
	P        []int  `json:"p,omitempty"`       // peer pool indices
	Ch       int    `json:"ch,omitempty"`      // channel slot index
	Life     int64  `json:"life,omitempty"`    // LIFETIME seconds; -1 = attribute absent
	N        int    `json:"n,omitempty"`       // payload length / sleep seconds / misc
	Seed     uint64 `json:"seed,omitempty"`    // payload content
	Rel      string `json:"rel,omitempty"`     // sleep target: "" absolute, alloc-/alloc+/perm-/perm+/chan-/chan+
	Defect   string `json:"defect,omitempty"`  // credential defect (C03)
	Retx     bool   `json:"retx,omitempty"`    // Allocate: reuse the transaction id of the client's last Allocate
	TxFrom   int    `json:"tx_from,omitempty"` // >0: reuse the last transaction id of client TxFrom-1
	Fam      int    `json:"fam,omitempty"`     // REQUESTED-ADDRESS-FAMILY: 0 absent, 1 v4, 2 v6, 3 invalid value
	Tcp      bool   `json:"tcp,omitempty"`     // Allocate: REQUESTED-TRANSPORT TCP
	Opt      string `json:"opt,omitempty"`     // Allocate option: evenport | token | token+even | dontfrag | notransport | badtransport | token+fam
	Content  string `json:"content,omitempty"` // payload content class: "" random, zero, stun, chandata, x4000
	Pad      string `json:"pad,omitempty"`     // ChannelData from client: "" padded, none
	Stall    int    `json:"stall,omitempty"`   // PeerData: the (stream) client does not read for this many seconds while Burst datagrams arrive for it
	Burst    int    `json:"burst,omitempty"`
	Split    int    `json:"split,omitempty"`     // Send / ChannelData from a stream client: the frame is written in two segments, cut at this offset
	Dup      bool   `json:"dup,omitempty"` // Allocate over UDP: the network delivers the request datagram twice, back to back
	RespLost bool   `json:"resp_lost,omitempty"` // the listener socket fails to write the response (CreatePermission / ChannelBind)
}

// Script is a whole case.
type Script struct {
	Cfg   Config `json:"cfg"`
	Steps []Step `json:"steps"`
}

// ClientAddr describes one entry of the client address pool.
type ClientAddr struct {
	IP   net.IP
	Port int
	User int // default user index
}

// Pools (fixed, so that scripts are small and shrink well).
var (
	ServerIP4  = net.IPv4(10, 0, 0, 1)
	ServerIP6  = net.ParseIP("fd00::1")
	ServerPort = 3478
	RelayIP4   = net.IPv4(10, 9, 0, 1)
	RelayIP6   = net.ParseIP("fd00:9::1")

	ClientPool = []ClientAddr{
		{IP: net.IPv4(10, 1, 0, 1), Port: 5000, User: 0},
		{IP: net.IPv4(10, 1, 0, 1), Port: 5001, User: 0}, // same IP, other port, same user
		{IP: net.IPv4(10, 1, 0, 2), Port: 5000, User: 1}, // other IP, same port, other user
		{IP: net.IPv4(10, 1, 0, 3), Port: 6000, User: 3},
		{IP: net.ParseIP("fd00:1::1"), Port: 5000, User: 1}, // IPv6 client (needs ServerV6)
		{IP: net.ParseIP("fd00:1::2"), Port: 5001, User: 0},
		// IPv6 clients whose address bytes resemble an IPv4 client's (need DualStack): the
		// first four bytes, the last four bytes, and the IPv4-mapped prefix with another host.
		{IP: net.ParseIP("0a01:0001::"), Port: 5000, User: 1},      // first 4 bytes = 10.1.0.1 (client 0)
		{IP: net.ParseIP("0a01:0002::"), Port: 5000, User: 0},      // first 4 bytes = 10.1.0.2 (client 2)
		{IP: net.ParseIP("::0a01:0001"), Port: 5001, User: 3},      // last 4 bytes = 10.1.0.1 (client 1), IPv4-compatible form
		{IP: net.ParseIP("::fffe:0a01:0003"), Port: 6000, User: 1}, // one bit off the IPv4-mapped form of client 3
	}

	PeerPool = []*net.UDPAddr{
		{IP: net.IPv4(10, 2, 0, 1), Port: 7000},
		{IP: net.IPv4(10, 2, 0, 1), Port: 7001},    // same IP as peer 0, other port
		{IP: net.IPv4(10, 2, 0, 2), Port: 7000},    // other IP, same port
		{IP: net.IPv4(10, 2, 0, 3), Port: 7000},    // usually operator-denied
		{IP: net.ParseIP("fd00:2::1"), Port: 7000}, // IPv6 peer
		{IP: net.IPv4(10, 2, 0, 4), Port: 9},
		{IP: net.ParseIP("::ffff:10.2.0.2"), Port: 7000}, // IPv4-mapped form of peer 2's IP
		{IP: net.ParseIP("fd00:2::2"), Port: 7000},       // second IPv6 peer: other address, same port as peer 4
		{IP: net.ParseIP("fd00:2::1"), Port: 7009},       // same IPv6 address as peer 4, other port
	}

	Users = []struct{ Name, Pass string }{
		{"alice", "pw-alice"},
		{"bob", "pw-bob"},
		{"carol", "pw-carol"},
		{"acme:1001", "pw-acme"}, // ids that differ only before / only after a colon
		{"globex:1001", "pw-globex"},
		{"acme:2002", "pw-acme2"},
	}

	// ChannelSlots covers all classes of channel numbers.
	ChannelSlots = []uint16{0x4000, 0x4001, 0x5000, 0x7FFE, 0x7FFF, 0x3FFF, 0x8000, 0x0000, 0x0001, 0xFFFF, 0x4002, 0x6000}
)

// Realm is the configured realm.
const Realm = "sim.realm"

// Defaults of pion/turn as documented.
const (
	DefaultAllocLifetime = 10 * time.Minute
	DefaultPermTimeout   = 5 * time.Minute
	DefaultChanTimeout   = 10 * time.Minute
)

func (c *Config) allocLifetime() time.Duration {
	if c.AllocLifetimeS == 0 {
		return DefaultAllocLifetime
	}

	return time.Duration(c.AllocLifetimeS) * time.Second
}

func (c *Config) permTimeout() time.Duration {
	if c.PermTimeoutS == 0 {
		return DefaultPermTimeout
	}

	return time.Duration(c.PermTimeoutS) * time.Second
}

func (c *Config) chanTimeout() time.Duration {
	if c.ChanTimeoutS == 0 {
		return DefaultChanTimeout
	}

	return time.Duration(c.ChanTimeoutS) * time.Second
}

func (c *Config) inboundMTU() int {
	if c.InboundMTU == 0 {
		return 1600
	}

	return c.InboundMTU
}

// v6Client reports whether client i of a dual-stack world has an IPv6 address.
func (c *Config) v6Client(i int) bool {
	return c.DualStack && i >= 0 && i < len(c.Clients) && ClientPool[c.Clients[i]%len(ClientPool)].IP.To4() == nil
}

func (c *Config) isStream(client int) bool {
	for _, s := range c.Stream {
		if s == client {
			return true
		}
	}

	return false
}

func (c *Config) denied(client int, ip net.IP) bool {
	if c.DenyClient >= 0 && c.DenyClient != client {
		return false
	}
	for _, d := range c.Deny {
		if d >= 0 && d < len(PeerPool) && PeerPool[d].IP.Equal(ip) {
			return true
		}
	}

	return false
}
