package srvworld

import (
	"bytes"
	"encoding/binary"
	"fmt"
	"math/big"
	"net"
	"strings"
	"testing/synctest"
	"time"

	"github.com/pion/turn/v5/internal/zzverif/ref"
	"github.com/pion/turn/v5/internal/zzverif/sim"
)

// Finding is one oracle failure; Props lists every property whose statement it contradicts.
type Finding struct {
	Props []string `json:"props"`
	Kind  string   `json:"kind"`
	Msg   string   `json:"msg"`
	Step  int      `json:"step"`
}

func (f *Finding) has(p string) bool {
	for _, q := range f.Props {
		if q == p {
			return true
		}
	}

	return false
}

// Stats are per-case classification counters (for labels and the non-triviality rules).
type Stats struct {
	Labels map[string]int
}

func (s *Stats) inc(l string) { s.Labels[l]++ }

// Exec runs one script.
type Exec struct {
	w        *World
	m        *Model
	sc       *Script
	Findings []Finding
	St       Stats
	wireAt   int
	evAt     int
	stop     bool

	strangerSock *sim.UDPSock
	// Obs is the normalised per-client observation log (relational form of C04)
	Obs                    map[int][]string
	SleptFor               map[int]int // step index -> whole seconds actually slept
	Aborted                bool        // the case was ended without verdict (documented tolerance band)
	opStart                time.Time
	dupNext                bool // the next request datagram is delivered twice (Step.Dup)
	slept                  bool // virtual time advanced inside the current step (slow callback)
	lastToken              []byte
	lastTokenAt            time.Time
	lastTokenPort          int
	lastTokenStream        bool
	nonceFresh, nonceStale bool          // state of the client's nonce at the last authenticated request
	extraReq               []*reqInfo    // requests sent just before the next exchange, without waiting for their answers
	tieRestore             time.Duration // sub-second offset to return to after a deliberate tie (-1: none)
}

func (x *Exec) fail(props []string, kind, f string, a ...any) {
	x.Findings = append(x.Findings, Finding{Props: props, Kind: kind, Msg: fmt.Sprintf(f, a...), Step: x.w.stepNo})
	x.stop = true
	x.w.tracef("FINDING %v %s: %s", props, kind, fmt.Sprintf(f, a...))
}

// tick advances the clock by 100 µs: every harness action gets a sub-second offset of its own,
// so that (sleeps being whole seconds) no action ever coincides with an expiry armed by another
// one. After a deliberate tie (tieWith) the clock sits on the offset of an older action; the
// next tick first moves on to the offset that was current before the detour.
func (x *Exec) tick() {
	if x.tieRestore >= 0 {
		now := time.Duration(time.Now().UnixNano()) % time.Second
		time.Sleep((x.tieRestore - now + time.Second) % time.Second)
		x.tieRestore = -1
	}
	time.Sleep(100 * time.Microsecond)
	progress.Add(1)
}

func (x *Exec) settle() { synctest.Wait() }

// Obs is what went over the wire since the last observation.
type Obs struct {
	c2s   []*sim.Datagram
	s2c   []*sim.Datagram
	r2p   []*sim.Datagram
	p2r   []*sim.Datagram
	other []*sim.Datagram
}

// judgeChanProbe: a datagram sent by the bound peer from inside OnChannelDeleted (the end of
// the binding has been announced). As a Data indication it may still be relayed (a permission for
// the peer's address may be alive), as ChannelData never: the binding that gave it the number is over.
func (x *Exec) judgeChanProbe(d *sim.Datagram, fromServer bool) {
	if !fromServer {
		return // the probe itself on its way to the relayed address
	}
	if x.w.curOp == "ChannelBind" {
		// (the client binds the channel again in this very step: the datagram may come through the new binding)
		x.St.inc("chan-deleted-probe-during-channelbind")

		return
	}
	if len(d.Data) >= 4 && d.Data[0]&0xC0 == 0x40 {
		x.fail([]string{"C02", "C07"}, "relayed-through-ended-binding", "a datagram the peer sent while OnChannelDeleted for its binding was running reached %v as ChannelData on channel %#x: the binding whose end was being announced still relayed", d.To, uint16(d.Data[0])<<8|uint16(d.Data[1]))

		return
	}
	x.St.inc("chan-deleted-probe-relayed-as-data-indication")
}

func (x *Exec) observe() *Obs {
	o := &Obs{}
	ds := x.w.net.Wire(x.wireAt)
	x.wireAt += len(ds)
	relay := map[int]bool{}
	x.w.gen.mu.Lock()
	for _, r := range x.w.gen.made {
		if r.Sock != nil {
			relay[r.Sock.ID] = true
		}
	}
	x.w.gen.mu.Unlock()
	cl := map[int]bool{}
	for _, c := range x.w.clients {
		if c.Sock != nil {
			cl[c.Sock.ID] = true
		}
	}
	for _, s := range x.w.extraClientSocks {
		cl[s.ID] = true
		for {
			if _, _, ok := s.TryRead(); !ok {
				break
			}
		}
	}
	pr := map[int]bool{}
	for _, p := range x.w.peers {
		pr[p.ID] = true
	}
	for _, d := range ds {
		if x.w.cfg.ProbeChanDeleted && bytes.Contains(d.Data, ChanDeletedProbe) {
			x.judgeChanProbe(d, d.SrcSock == x.w.srvSock.ID)

			continue
		}
		switch {
		case d.SrcSock == x.w.srvSock.ID:
			o.s2c = append(o.s2c, d)
		case relay[d.SrcSock]:
			o.r2p = append(o.r2p, d)
		case cl[d.SrcSock]:
			o.c2s = append(o.c2s, d)
		case pr[d.SrcSock]:
			o.p2r = append(o.p2r, d)
		default:
			o.other = append(o.other, d)
		}
	}
	// what the server wrote on stream control connections, frame by frame, as pseudo-datagrams
	for _, c := range x.w.clients {
		if !c.Stream || c.Conn == nil || c.Stalled {
			continue
		}
		data, _ := c.Conn.ReadAvailable()
		c.rbuf = append(c.rbuf, data...)
		for round := 0; x.w.cfg.StreamWindow > 0 && len(data) > 0 && round < 4096; round++ {
			// flow control: taking bytes out lets a blocked writer go on
			synctest.Wait()
			data, _ = c.Conn.ReadAvailable()
			c.rbuf = append(c.rbuf, data...)
		}
		for {
			k, size, complete := ref.NextFrame(c.rbuf)
			if k == ref.FrameInvalid {
				x.fail([]string{"C09", "C10", "C19", "C05"}, "server-sent-garbage", "the server wrote bytes that cannot begin a TURN frame on client %d's control connection: %x", c.Idx, c.rbuf[:min(len(c.rbuf), 16)])
				c.rbuf = nil

				break
			}
			if !complete || size == 0 {
				break
			}
			if x.w.cfg.ProbeChanDeleted && bytes.Contains(c.rbuf[:size], ChanDeletedProbe) {
				x.judgeChanProbe(&sim.Datagram{Time: time.Now(), From: x.w.srvAddr, To: c.Addr, Data: append([]byte{}, c.rbuf[:size]...), SrcSock: -1}, true)
				c.rbuf = c.rbuf[size:]

				continue
			}
			o.s2c = append(o.s2c, &sim.Datagram{Time: time.Now(), From: x.w.srvAddr, To: c.Addr, Data: append([]byte{}, c.rbuf[:size]...), SrcSock: -1})
			c.rbuf = c.rbuf[size:]
		}
	}
	// drain harness-side sockets (the monitors read the wire log)
	for _, c := range x.w.clients {
		if c.Sock == nil {
			continue
		}
		for {
			if _, _, ok := c.Sock.TryRead(); !ok {
				break
			}
		}
	}
	for _, p := range x.w.peers {
		for {
			if _, _, ok := p.TryRead(); !ok {
				break
			}
		}
	}

	return o
}

// ---- credentials ---------------------------------------------------------------------------

type cred struct {
	user, pass, realm, nonce string
}

func (x *Exec) validCred(c *Client, userIdx int) cred {
	u := Users[userIdx%len(Users)]
	realm := c.RealmSeen
	if realm == "" {
		realm = Realm
	}

	return cred{user: u.Name, pass: u.Pass, realm: realm, nonce: c.Nonce}
}

const b36 = "0123456789ABCDEFGHIJKLMNOPQRSTUVWXYZ"

func b36decode(s string) []byte {
	n := big.NewInt(0)
	for _, ch := range strings.ToUpper(s) {
		d := strings.IndexRune(b36, ch)
		if d < 0 {
			return nil
		}
		n.Mul(n, big.NewInt(36))
		n.Add(n, big.NewInt(int64(d)))
	}

	return n.Bytes()
}

func b36encode(b []byte) string {
	n := new(big.Int).SetBytes(b)
	if n.Sign() == 0 {
		return "0"
	}
	var out []byte
	r := new(big.Int)
	for n.Sign() > 0 {
		n.DivMod(n, big.NewInt(36), r)
		out = append(out, b36[r.Int64()])
	}
	for i, j := 0, len(out)-1; i < j; i, j = i+1, j-1 {
		out[i], out[j] = out[j], out[i]
	}

	return string(out)
}

// signed builds an authenticated request; defect (if any) is applied per DESIGN §4 C03.
// judged=false means the defect's expected verdict is not decidable (tolerances).
func (x *Exec) signed(c *Client, userIdx int, m *ref.Msg, defect string, seed uint64) (raw []byte, valid bool, judged bool) { //nolint:cyclop,gocyclo
	cr := x.validCred(c, userIdx)
	valid, judged = true, true
	withUser, withRealm, withNonce, withMI := true, true, true, true
	hmacMode := ""
	alter := false
	emptyKey := false
	keyRealm := ""
	appendNonce := false
	switch defect {
	case "":
	case "nomi":
		withMI, valid = false, false
	case "nomi-bare":
		withMI, withUser, withRealm, withNonce, valid = false, false, false, false, false
	case "wrongpass":
		cr.pass += "x"
		valid = false
	case "otheruserpass":
		cr.pass = Users[(userIdx+1)%len(Users)].Pass
		valid = false
	case "unknownuser":
		cr.user = "mallory"
		valid = false
	case "unknownuser-emptykey":
		// a user the handler does not know, signed with the empty key a careless server
		// would end up using for it
		cr.user = "mallory"
		emptyKey = true
		valid = false
	case "hmac-trunc", "hmac-ext", "hmac-flip":
		hmacMode = defect
		valid = false
	case "altered":
		alter = true
		valid = false
	case "no-username":
		withUser, valid = false, false
	case "no-realm":
		withRealm, valid = false, false
	case "no-nonce":
		withNonce, valid = false, false
	case "nonce-random":
		cr.nonce = fmt.Sprintf("zz%x!", seed)
		valid = false
	case "nonce-alphabet":
		b := make([]byte, len(cr.nonce))
		s := seed | 1
		for i := range b {
			s = s*6364136223846793005 + 1442695040888963407
			b[i] = b36[(s>>33)%36]
		}
		if string(b) == cr.nonce {
			b[0] = b36[(strings.IndexByte(b36, b[0])+1)%36]
		}
		cr.nonce = string(b)
		valid = false
	case "nonce-alnum-len":
		// a well-formed-looking nonce (right alphabet) of any length 0..70
		n := int(seed % 71)
		b := make([]byte, n)
		sd := seed | 1
		for i := range b {
			sd = sd*6364136223846793005 + 1442695040888963407
			b[i] = b36[(sd>>33)%36]
		}
		if string(b) == cr.nonce {
			b = append(b, 'Z')
		}
		cr.nonce = string(b)
		valid = false
	case "nonce-mac-flip", "nonce-ts-flip":
		nb := b36decode(cr.nonce)
		for len(nb) < 16 {
			nb = append([]byte{0}, nb...)
		}
		if len(nb) == 16 {
			if defect == "nonce-mac-flip" {
				nb[4+int(seed%12)] ^= 1 << (seed / 12 % 8)
			} else {
				nb[int(seed%4)] ^= 1 << (seed / 4 % 8)
			}
			cr.nonce = b36encode(nb)
		} else {
			cr.nonce = "0"
		}
		valid = false
	case "nonce-old", "nonce-old-fresh-appended":
		// (the second form carries, behind MESSAGE-INTEGRITY, a second NONCE attribute with the
		// client's newest nonce: what follows the integrity attribute is not covered by it and
		// decides nothing - the request is as old as the nonce that was signed)
		appendNonce = defect == "nonce-old-fresh-appended"
		cr.nonce = c.Nonce0
		age := time.Since(c.Nonce0At)
		// minute granularity: the nonce carries floor(mint/60s); accepted while the minute
		// difference is <= 60
		mintMin := c.Nonce0At.Unix() / 60
		nowMin := time.Now().Unix() / 60
		switch {
		case nowMin-mintMin <= 60 && age <= 60*time.Minute:
			valid = true
		case age >= 61*time.Minute:
			valid = false
		default:
			judged = false
		}
	case "nonce-lower":
		cr.nonce = strings.ToLower(cr.nonce) // same nonce: letter case is not significant
	case "nonce-other-server":
		cr.nonce = x.foreignNonce()
		valid = false
	case "other-realm":
		cr.realm = "other.realm" // consistent request under another realm: valid by definition (§8)
	case "realm-attr-other-key-own":
		// REALM names another realm while the HMAC key is the user's key in the server's realm: the
		// key the handler returns for the presented username and realm is another one
		keyRealm = cr.realm
		cr.realm = "other.realm"
		valid = false
	default:
		panic("unknown defect " + defect)
	}
	mm := &ref.Msg{Method: m.Method, Class: m.Class, TxID: m.TxID, Attrs: append([]ref.Attr{}, m.Attrs...)}
	if withUser {
		mm.Add(ref.AttrUsername, []byte(cr.user))
	}
	if withRealm {
		mm.Add(ref.AttrRealm, []byte(cr.realm))
	}
	if withNonce {
		mm.Add(ref.AttrNonce, []byte(cr.nonce))
	}
	raw = mm.Encode()
	if !withMI {
		return raw, valid, judged
	}
	if keyRealm == "" {
		keyRealm = cr.realm
	}
	key := ref.LongTermKey(cr.user, keyRealm, cr.pass)
	if emptyKey {
		key = nil
	}
	signedRaw := ref.AddIntegrity(raw, key)
	switch hmacMode {
	case "hmac-flip":
		signedRaw[len(signedRaw)-1-int(seed%20)] ^= 1 << (seed / 20 % 8)
	case "hmac-trunc":
		// 16-byte HMAC value (attribute length 16)
		signedRaw = signedRaw[:len(signedRaw)-4]
		binary.BigEndian.PutUint16(signedRaw[len(signedRaw)-18:], 16)
		binary.BigEndian.PutUint16(signedRaw[2:4], uint16(len(signedRaw)-20))
	case "hmac-ext":
		signedRaw = append(signedRaw, 1, 2, 3, 4)
		binary.BigEndian.PutUint16(signedRaw[len(signedRaw)-26:], 24)
		binary.BigEndian.PutUint16(signedRaw[2:4], uint16(len(signedRaw)-20))
	}
	if alter {
		// flip a bit in the transaction id after signing... the id is covered by the HMAC
		signedRaw[8+int(seed%12)] ^= 0x01
	}
	if appendNonce {
		v := []byte(c.Nonce)
		attr := make([]byte, 4+(len(v)+3)&^3)
		binary.BigEndian.PutUint16(attr[0:2], ref.AttrNonce)
		binary.BigEndian.PutUint16(attr[2:4], uint16(len(v))) //nolint:gosec
		copy(attr[4:], v)
		signedRaw = append(signedRaw, attr...)
		binary.BigEndian.PutUint16(signedRaw[2:4], uint16(len(signedRaw)-20)) //nolint:gosec
	}

	return signedRaw, valid, judged
}

// txOf extracts the transaction id of an encoded message.
func txOf(raw []byte) (id [12]byte) {
	if len(raw) >= 20 {
		copy(id[:], raw[8:20])
	}

	return id
}

func (x *Exec) foreignNonce() string {
	return foreignNonce()
}

// FirstCrowdPeer: peer indices from here on name hosts of a crowd (10.3.x.y:7000) that exist only
// as addresses - enough of them to fill whatever table the server keeps per allocation.
const FirstCrowdPeer = 1000

func peerAddrOf(i int) *net.UDPAddr {
	if i >= FirstCrowdPeer {
		k := i - FirstCrowdPeer

		return &net.UDPAddr{IP: net.IPv4(10, 3, byte(k/200), byte(k%200+1)), Port: 7000}
	}
	p := PeerPool[((i%len(PeerPool))+len(PeerPool))%len(PeerPool)]

	return p
}

// waitCallbacks lets slow lifecycle callbacks (scripted virtual sleeps) finish, so that the
// response they delay is on the wire before the step is judged.
func (x *Exec) waitCallbacks() {
	for i := 0; i < 2000; i++ {
		x.w.evMu.Lock()
		n := x.w.cbActive
		x.w.evMu.Unlock()
		if n == 0 {
			return
		}
		x.slept = true
		for _, c := range x.w.clients {
			c.freshChallenge = false
		}
		time.Sleep(time.Second)
		x.settle()
	}
}
