package srvworld

import (
	"fmt"
	"os"
	"regexp"
	"runtime/pprof"
	"sort"
	"strconv"
	"strings"
	"testing"
	"testing/synctest"
	"time"

	"github.com/pion/turn/v5/internal/zzverif/vkit"
	"pgregory.net/rapid"
)

// caseResult is what one bubble produced.
type caseResult struct {
	x    *Exec
	err  error
	leak string
}

// runCase executes sc in a fresh bubble.
func runCase(t *testing.T, sc *Script, verbose bool) (res caseResult) {
	t.Helper()
	defer func() {
		if p := recover(); p != nil {
			s := fmt.Sprint(p)
			if strings.Contains(s, "blocked goroutines remain") || strings.Contains(s, "deadlock") {
				res.leak = s

				return
			}
			panic(p)
		}
	}()
	// a lock-up (a goroutine waiting for a mutex whose holder waits for something that does not
	// come) freezes the bubble's clock for good; a wall-clock watchdog outside the bubble turns
	// "no step finished for two minutes" into a crash report with all stacks
	stop := make(chan struct{})
	defer close(stop)
	go lockupWatchdog(stop)
	synctest.Test(t, func(t *testing.T) {
		res.x, res.err = Run(sc, verbose)
	})

	return res
}

func lockupWatchdog(stop chan struct{}) {
	limit := 120 * time.Second
	if v, err := strconv.Atoi(os.Getenv("VERIF_LOCKUP_S")); err == nil && v > 0 {
		limit = time.Duration(v) * time.Second
	}
	last, since := progress.Load(), time.Now()
	tk := time.NewTicker(time.Second)
	defer tk.Stop()
	for {
		select {
		case <-stop:
			return
		case <-tk.C:
		}
		if cur := progress.Load(); cur != last {
			last, since = cur, time.Now()
		} else if time.Since(since) > limit {
			fmt.Printf("fatal error: lock-up: no step of the case finished for %v of wall-clock time (goroutines that wait for a mutex cannot be woken by virtual time)\n", limit)
			_ = pprof.Lookup("goroutine").WriteTo(os.Stdout, 1)
			os.Exit(3)
		}
	}
}

// propSpec describes one property's check over the server world.
type propSpec struct {
	id         string
	profile    *Profile
	nontrivial func(st *Stats, sc *Script) bool
	assume     []string
	// sweeps returns deterministic scripts that enumerate a finite sub-space (run before the search)
	sweeps func(r *vkit.Run) []*Script
	// post runs an additional (relational) oracle on a case that produced no finding
	post func(t *testing.T, r *vkit.Run, sc *Script, res caseResult) (kind, msg string)
}

func labelsOf(st *Stats) []string {
	out := make([]string, 0, len(st.Labels))
	for k := range st.Labels {
		out = append(out, k)
	}
	sort.Strings(out)

	return out
}

// judge turns the findings of one executed case into the verdict for property id.
func judge(r *vkit.Run, id string, res caseResult) (kind, msg string) {
	if res.err != nil {
		return "harness-error", res.err.Error()
	}
	if res.leak != "" && (id == "C15" || id == "C18") && !r.IsKnown(id+".goroutine-leak") {
		return "goroutine-leak", "after Server.Close and closing every simulated socket, goroutines of the bubble are still blocked: " + res.leak
	}
	x := res.x
	for i := range x.Findings {
		f := &x.Findings[i]
		if any := os.Getenv("VERIF_ANY"); any != "" && (any == "1" || any == f.Kind) {
			return f.Kind, fmt.Sprintf("step %d: %s", f.Step, f.Msg)
		}
		if !f.has(id) {
			r.Label("foreign-finding:" + strings.Join(f.Props, "+") + ":" + f.Kind)

			continue
		}
		if r.IsKnown(id + "." + f.Kind) {
			continue
		}

		return f.Kind, fmt.Sprintf("step %d: %s", f.Step, f.Msg)
	}

	return "", ""
}

type replayFile struct {
	Script   *Script   `json:"script"`
	Findings []Finding `json:"findings,omitempty"`
	Trace    []string  `json:"trace,omitempty"`
	Log      []string  `json:"server_log_tail,omitempty"`
	Events   []string  `json:"lifecycle_events,omitempty"`
}

func mkReplay(sc *Script, res caseResult) *replayFile {
	rf := &replayFile{Script: sc}
	if res.x != nil {
		rf.Findings = res.x.Findings
		rf.Trace = res.x.w.trace
		rf.Log = res.x.w.log.Lines()
		for _, e := range res.x.w.events {
			rf.Events = append(rf.Events, fmt.Sprintf("%s %s src=%s relay=%s peer=%s ch=%d", e.Time.UTC().Format("15:04:05.0000"), e.Kind, e.Src, e.Relay, e.Peer, e.Channel))
		}
	}

	return rf
}

func runProp(t *testing.T, ps *propSpec) {
	t.Helper()
	r := vkit.Start(t, ps.id)
	defer r.Finish()
	for _, a := range ps.assume {
		r.Assume(a)
	}
	r.Assume("one request at a time per listener, world brought to quiescence (synctest.Wait) before each observation; timeouts and lifetimes are whole seconds; harness actions sit on unique 100µs phases so that no expiry ties with an action")
	account := func(sc *Script, res caseResult, sampleKind string) {
		r.Eval(1)
		if res.x == nil {
			return
		}
		for k, v := range res.x.St.Labels {
			r.LabelN(k, v)
		}
		if ps.nontrivial(&res.x.St, sc) {
			r.Label("case:nontrivial")
			r.NonTrivial(vkit.Hash64(sc))
			r.Sample(sampleKind, func() any { return sc })
		}
	}
	if r.Replay != "" {
		if raw, _ := os.ReadFile(r.Replay); !strings.Contains(string(raw), "\"deny_client\"") {
			fmt.Println("REPLAY-NOT-MINE: not a UDP-world script")

			return
		}
		var rf replayFile
		if err := vkit.LoadJSON(r.Replay, &rf); err != nil {
			t.Fatalf("cannot load replay %s: %v", r.Replay, err)
		}
		if rf.Script == nil { // a journaled bare script (crash isolation)
			rf.Script = &Script{}
			if err := vkit.LoadJSON(r.Replay, rf.Script); err != nil || len(rf.Script.Steps) == 0 {
				t.Fatalf("cannot load replay %s as a script: %v", r.Replay, err)
			}
		}
		res := runCase(t, rf.Script, true)
		account(rf.Script, res, "")
		kind, msg := judge(r, ps.id, res)
		if res.x != nil {
			for _, l := range res.x.w.trace {
				fmt.Println("  " + l)
			}
			for _, f := range res.x.Findings {
				fmt.Printf("  finding %v %s: %s\n", f.Props, f.Kind, f.Msg)
			}
		}
		if kind == "" && ps.post != nil && res.x != nil && len(res.x.Findings) == 0 {
			kind, msg = ps.post(t, r, rf.Script, res)
		}
		fmt.Printf("replay %s: verdict kind=%q %s\n", r.Replay, kind, msg)
		if kind != "" {
			r.Violate(kind, msg, mkReplay(rf.Script, res))
		}

		return
	}
	for _, f := range r.RegressFiles(".json") {
		if raw, _ := os.ReadFile(f); !strings.Contains(string(raw), "\"deny_client\"") {
			continue // another stage's regress input
		}
		var rf replayFile
		if err := vkit.LoadJSON(f, &rf); err != nil || rf.Script == nil {
			t.Fatalf("bad regress file %s: %v", f, err)
		}
		reps := 1
		if strings.Contains(f, "sched-") {
			reps = 6 // the outcome depends on which goroutine runs first at one virtual instant
		}
		if m := regexp.MustCompile(`sched(\d+)-`).FindStringSubmatch(f); m != nil {
			reps, _ = strconv.Atoi(m[1]) // (a rarer schedule: more repetitions)
		}
		for i := 0; i < reps; i++ {
			res := runCase(t, rf.Script, false)
			r.Label("regress")
			account(rf.Script, res, "")
			if kind, msg := judge(r, ps.id, res); kind != "" {
				r.Violate(kind, "regress "+f+": "+msg, mkReplay(rf.Script, res))

				break
			}
		}
	}
	if r.Violations() > 0 {
		return
	}
	if ps.sweeps != nil {
		for i, sc := range ps.sweeps(r) {
			res := runCase(t, sc, false)
			r.Label("sweep")
			account(sc, res, "")
			if i == 0 {
				r.Sample("sweep", func() any {
					short := *sc
					if len(short.Steps) > 10 {
						short.Steps = short.Steps[:10]
					}

					return map[string]any{"first_steps": short, "steps": len(sc.Steps)}
				})
			}
			if res.x != nil {
				r.LabelN("sweep-steps", len(sc.Steps))
			}
			if kind, msg := judge(r, ps.id, res); kind != "" {
				r.Violate(kind, "sweep: "+msg, mkReplay(sc, res))

				return
			}
		}
	}
	prof := *ps.profile
	if r.Thorough() && r.Size > 0 {
		prof.MaxSteps = r.Size
	}
	r.Rapid(t, "search", 0, r.Checks, func(rt *rapid.T) {
		sc := GenScript(rt, &prof)
		r.Journal(sc)
		res := runCase(t, sc, false)
		account(sc, res, "generated")
		if kind, msg := judge(r, ps.id, res); kind != "" {
			r.NoteFail(kind, msg, mkReplay(sc, res))
			rt.Fatalf("%s %s", ps.id, kind)
		}
		if ps.post != nil && res.x != nil && len(res.x.Findings) == 0 {
			if kind, msg := ps.post(t, r, sc, res); kind != "" && !r.IsKnown(ps.id+"."+kind) {
				r.NoteFail(kind, msg, mkReplay(sc, res))
				rt.Fatalf("%s %s", ps.id, kind)
			}
		}
	})
}
