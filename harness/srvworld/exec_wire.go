package srvworld

import (
	"bytes"
	"encoding/binary"
	"net"

	"github.com/pion/turn/v5/internal/zzverif/ref"
	"github.com/pion/turn/v5/internal/zzverif/sim"
)

// reqInfo is a request delivered to the server in the current step.
type reqInfo struct {
	c      *Client
	tx     [12]byte
	method int
	resp   *ref.Msg
	raw    []byte
	nresp  int
	dup    bool // the network delivered the request datagram twice, back to back
}

// deliver is a message the model expects at a client because of peer traffic.
type deliver struct {
	client   int
	viaChan  bool
	ch       uint16
	peer     *net.UDPAddr
	payload  []byte
	optional bool // datagram larger than the documented limit: may be dropped, never altered
}

// emit is a datagram the model expects to leave a relay socket.
type emit struct {
	sock     *sim.UDPSock
	to       *net.UDPAddr
	payload  []byte
	optional bool
}

func sameUDP(a, b *net.UDPAddr) bool {
	return a != nil && b != nil && a.IP.Equal(b.IP) && a.Port == b.Port
}

// record appends the normalised view of this step's traffic to the per-client observation logs:
// what each client received (ports of relayed addresses, nonces, tokens and transaction ids
// left out) and what left each client's relay socket.
func (x *Exec) record(o *Obs) {
	if x.Obs == nil {
		x.Obs = map[int][]string{}
	}
	for _, d := range o.s2c {
		ci := x.w.clientIndex(d.To)
		if ci < 0 {
			continue
		}
		if len(d.Data) >= 4 && d.Data[0]&0xC0 == 0x40 {
			x.Obs[ci] = append(x.Obs[ci], "recv channeldata "+itoa(int(binary.BigEndian.Uint16(d.Data[0:2])))+" "+hashStr(d.Data[4:]))

			continue
		}
		m, err := ref.Parse(d.Data)
		if err != nil {
			x.Obs[ci] = append(x.Obs[ci], "recv garbage")

			continue
		}
		desc := "recv " + describe(m)
		for _, a := range m.Attrs {
			switch a.Type {
			case ref.AttrLifetime, ref.AttrData, ref.AttrChannelNumber, ref.AttrErrorCode:
				desc += " " + itoa(int(a.Type)) + "=" + hashStr(a.Value)
			case ref.AttrXORPeerAddress:
				ip, port, _ := ref.UnxorAddr(a.Value, m.TxID)
				desc += " peer=" + ip.String() + ":" + itoa(port)
			case ref.AttrXORMappedAddress:
				ip, port, _ := ref.UnxorAddr(a.Value, m.TxID)
				desc += " mapped=" + ip.String() + ":" + itoa(port)
			case ref.AttrXORRelayedAddress:
				ip, _, _ := ref.UnxorAddr(a.Value, m.TxID)
				desc += " relayed=" + ip.String()
			default:
				desc += " attr" + itoa(int(a.Type))
			}
		}
		x.Obs[ci] = append(x.Obs[ci], desc)
	}
	for _, d := range o.r2p {
		for ci, a := range x.m.Allocs {
			if a.RelaySock != nil && a.RelaySock.ID == d.SrcSock {
				x.Obs[ci] = append(x.Obs[ci], "relay emits to "+d.To.String()+" "+hashStr(d.Data))
			}
		}
	}
}

func hashStr(b []byte) string {
	h := uint64(14695981039346656037)
	for _, c := range b {
		h ^= uint64(c)
		h *= 1099511628211
	}

	return itoa(len(b)) + "/" + itoa(int(h%1000003))
}

// checkWire judges everything the server put on the wire in this step.
func (x *Exec) checkWire(o *Obs, reqs []*reqInfo, emits []emit, dels []deliver, ctx string) { //nolint:cyclop,gocyclo
	x.record(o)
	// (1) relay -> peer
	usedE := make([]bool, len(emits))
	for _, d := range o.r2p {
		matched := false
		for i, e := range emits {
			if usedE[i] || e.sock.ID != d.SrcSock || !sameUDP(e.to, d.To) {
				continue
			}
			if !bytes.Equal(e.payload, d.Data) {
				x.fail([]string{"C05"}, "relay-payload-altered", "%s: datagram relayed to %v carries %d bytes, the client submitted %d bytes (first difference at %d)", ctx, d.To, len(d.Data), len(e.payload), firstDiff(d.Data, e.payload))

				return
			}
			if !sameUDP(d.From, x.relayAddrOfSock(e.sock)) {
				x.fail([]string{"C05", "C19"}, "relay-source", "%s: relayed datagram has source %v, the allocation's relayed address is %v", ctx, d.From, x.relayAddrOfSock(e.sock))

				return
			}
			usedE[i] = true
			matched = true

			break
		}
		if !matched {
			props := []string{"C01"}
			why := x.whyUnauthorised(d)
			props = append(props, why.props...)
			x.fail(props, "unauthorised-emission", "%s: relay socket #%d sent %d bytes to %v although the model holds no authorisation (%s)", ctx, d.SrcSock, len(d.Data), d.To, why.text)

			return
		}
	}
	for i, e := range emits {
		if !usedE[i] && !e.optional {
			x.fail([]string{"C05", "C06", "C07", "C14", "C09"}, "authorised-not-relayed", "%s: %d bytes for %v were authorised (live permission/channel) but never left the relay socket", ctx, len(e.payload), e.to)

			return
		}
	}
	// (2) server listener -> anybody
	usedD := make([]bool, len(dels))
	for _, d := range o.s2c {
		ci := x.w.clientIndex(d.To)
		isCD := len(d.Data) >= 4 && d.Data[0]&0xC0 == 0x40
		if isCD {
			num := binary.BigEndian.Uint16(d.Data[0:2])
			l := int(binary.BigEndian.Uint16(d.Data[2:4]))
			if !ref.ValidChannel(num) {
				x.fail([]string{"C08"}, "channeldata-number-out-of-range", "%s: server emitted ChannelData with number %#x", ctx, num)

				return
			}
			if l > len(d.Data)-4 {
				x.fail([]string{"C05", "C11"}, "channeldata-length", "%s: server emitted ChannelData declaring %d bytes but carrying %d", ctx, l, len(d.Data)-4)

				return
			}
			rest := d.Data[4+l:]
			if len(rest) > 3 || (4+l+len(rest))%4 != 0 && len(rest) != 0 || !allZero(rest) {
				// (non-zero padding is bytes the client receives that the bound peer never sent:
				// leftovers of another datagram, possibly one that had to be discarded - C02)
				x.fail([]string{"C05", "C11", "C02"}, "channeldata-padding", "%s: ChannelData with %d payload bytes is followed by %d trailing bytes %x", ctx, l, len(rest), rest)

				return
			}
			x.matchDelivery(d, ci, true, num, nil, d.Data[4:4+l], dels, usedD, ctx)
			if x.stop {
				return
			}

			continue
		}
		m, err := ref.Parse(d.Data)
		if err != nil {
			x.fail([]string{"C09", "C19"}, "server-sent-garbage", "%s: server sent %d bytes to %v that are neither STUN nor ChannelData: %x", ctx, len(d.Data), d.To, d.Data[:min(len(d.Data), 24)])

			return
		}
		switch m.Class {
		case ref.ClassSuccess, ref.ClassError:
			var rq *reqInfo
			for _, r := range reqs {
				if r.tx == m.TxID {
					rq = r

					break
				}
			}
			if rq == nil {
				x.fail([]string{"C19"}, "response-unknown-txid", "%s: response %s to %v carries a transaction id no request of this step used", ctx, describe(m), d.To)

				return
			}
			if !sameUDP(d.To, rq.c.Addr) {
				x.fail([]string{"C19", "C04"}, "response-misdirected", "%s: response to client %d's request was sent to %v instead of %v", ctx, rq.c.Idx, d.To, rq.c.Addr)

				return
			}
			if m.Method != rq.method {
				x.fail([]string{"C19"}, "response-method", "%s: request method %#x answered with method %#x", ctx, rq.method, m.Method)

				return
			}
			rq.nresp++
			if rq.nresp == 2 && rq.dup && rq.resp != nil && rq.resp.Class == m.Class && rq.resp.ErrorCode() == m.ErrorCode() {
				// the second copy of a duplicated datagram is a retransmission: the same answer again
				if m.Class == ref.ClassSuccess && m.Method == ref.MethodAllocate {
					r1, _ := rq.resp.Get(ref.AttrXORRelayedAddress)
					r2, _ := m.Get(ref.AttrXORRelayedAddress)
					if !bytes.Equal(r1, r2) {
						x.fail([]string{"C04", "C19"}, "duplicated-allocate-two-relays", "%s: the two copies of one Allocate datagram were answered with two different relayed addresses: two allocations for one 5-tuple", ctx)

						return
					}
				}
				x.St.inc("duplicated-datagram-answered-twice-alike")

				continue
			}
			if rq.nresp > 1 {
				challenge := func(r *ref.Msg) bool {
					return r != nil && r.Class == ref.ClassError && (r.ErrorCode() == 401 || r.ErrorCode() == 438)
				}
				if prev := rq.resp; (challenge(prev) && m.Class == ref.ClassSuccess) || (prev != nil && prev.Class == ref.ClassSuccess && challenge(m)) {
					// told to authenticate - and served all the same
					x.fail([]string{"C03", "C19"}, "challenged-and-served", "%s: the request was answered with a %d challenge and with a success response", ctx, map[bool]int{true: prev.ErrorCode(), false: m.ErrorCode()}[challenge(prev)])

					return
				}
				x.fail([]string{"C19"}, "response-duplicated", "%s: more than one response to one request", ctx)

				return
			}
			rq.resp = m
			rq.raw = d.Data
		case ref.ClassIndication:
			switch m.Method {
			case ref.MethodData:
				pv, ok1 := m.Get(ref.AttrXORPeerAddress)
				dv, ok2 := m.Get(ref.AttrData)
				if !ok1 || !ok2 {
					x.fail([]string{"C05"}, "data-indication-malformed", "%s: Data indication without XOR-PEER-ADDRESS/DATA", ctx)

					return
				}
				ip, port, perr := ref.UnxorAddr(pv, m.TxID)
				if perr != nil {
					x.fail([]string{"C05"}, "data-indication-malformed", "%s: Data indication with undecodable XOR-PEER-ADDRESS %x", ctx, pv)

					return
				}
				x.matchDelivery(d, ci, false, 0, &net.UDPAddr{IP: ip, Port: port}, dv, dels, usedD, ctx)
				if x.stop {
					return
				}
			default:
				x.fail([]string{"C02", "C19"}, "unexpected-indication", "%s: server sent indication %s to %v", ctx, describe(m), d.To)

				return
			}
		default:
			x.fail([]string{"C19", "C09"}, "server-sent-request", "%s: server sent a STUN request %s to %v", ctx, describe(m), d.To)

			return
		}
	}
	for i, dl := range dels {
		if !usedD[i] && !dl.optional {
			x.fail([]string{"C05", "C06", "C07", "C14", "C09"}, "authorised-not-delivered", "%s: %d bytes from authorised peer %v never reached client %d", ctx, len(dl.payload), dl.peer, dl.client)

			return
		}
	}
	if len(o.other) > 0 {
		d := o.other[0]
		x.fail([]string{"C15", "C01"}, "stray-socket-traffic", "%s: unknown socket #%d sent %d bytes to %v", ctx, d.SrcSock, len(d.Data), d.To)
	}
}

func allZero(b []byte) bool {
	for _, c := range b {
		if c != 0 {
			return false
		}
	}

	return true
}

func firstDiff(a, b []byte) int {
	n := min(len(a), len(b))
	for i := 0; i < n; i++ {
		if a[i] != b[i] {
			return i
		}
	}

	return n
}

func (x *Exec) matchDelivery(d *sim.Datagram, ci int, viaChan bool, num uint16, peer *net.UDPAddr, payload []byte, dels []deliver, used []bool, ctx string) {
	// find an expected delivery for this client
	for i, dl := range dels {
		if used[i] || dl.client != ci {
			continue
		}
		// the same peer datagram: judge encapsulation, attribution, payload
		if dl.viaChan != viaChan {
			x.fail([]string{"C05", "C08"}, "wrong-encapsulation", "%s: datagram from %v reached client %d as %s, the model expects %s", ctx, dl.peer, ci, encName(viaChan), encName(dl.viaChan))

			return
		}
		if viaChan && num != dl.ch {
			x.fail([]string{"C05", "C08"}, "wrong-channel-number", "%s: datagram from %v delivered on channel %#x, the peer is bound to %#x", ctx, dl.peer, num, dl.ch)

			return
		}
		if !viaChan && !sameUDP(peer, dl.peer) {
			x.fail([]string{"C05"}, "wrong-peer-attribution", "%s: Data indication names peer %v, the datagram came from %v", ctx, peer, dl.peer)

			return
		}
		if !bytes.Equal(payload, dl.payload) {
			x.fail([]string{"C05"}, "delivered-payload-altered", "%s: client %d received %d bytes, the peer sent %d bytes (first difference at %d)", ctx, ci, len(payload), len(dl.payload), firstDiff(payload, dl.payload))

			return
		}
		used[i] = true

		return
	}
	props := []string{"C02"}
	if ci >= 0 {
		props = append(props, "C04")
	}
	if len(dels) > 0 {
		props = append(props, "C05") // duplicated delivery
	}
	x.fail(props, "unauthorised-delivery", "%s: %s with %d bytes was sent to %v (client %d) although the model expects no (further) delivery there", ctx, encName(viaChan), len(payload), d.To, ci)
}

func encName(viaChan bool) string {
	if viaChan {
		return "ChannelData"
	}

	return "Data indication"
}

func describe(m *ref.Msg) string {
	cls := []string{"request", "indication", "success", "error"}[m.Class&3]
	s := cls + " method=" + itoa(m.Method)
	if m.Class == ref.ClassError {
		s += " code=" + itoa(m.ErrorCode())
	}

	return s
}

func itoa(i int) string {
	if i == 0 {
		return "0"
	}
	neg := i < 0
	if neg {
		i = -i
	}
	var b []byte
	for i > 0 {
		b = append([]byte{byte('0' + i%10)}, b...)
		i /= 10
	}
	if neg {
		b = append([]byte{'-'}, b...)
	}

	return string(b)
}

func (x *Exec) relayAddrOfSock(s *sim.UDPSock) *net.UDPAddr {
	return &net.UDPAddr{IP: s.Local().IP, Port: s.Local().Port}
}

type why struct {
	props []string
	text  string
}

// whyUnauthorised explains an unexpected relay emission in terms of the model (for attribution).
func (x *Exec) whyUnauthorised(d *sim.Datagram) why {
	for _, a := range x.m.Allocs {
		if a.RelaySock != nil && a.RelaySock.ID == d.SrcSock {
			if a.permLive(d.To.IP) {
				return why{[]string{"C08", "C05"}, "live allocation of client " + itoa(a.Client) + " with a permission for that IP but no such emission was requested"}
			}

			return why{[]string{"C07", "C04"}, "live allocation of client " + itoa(a.Client) + " without a live permission/binding for that peer"}
		}
	}
	for _, a := range x.m.Gone {
		if a.RelaySock != nil && a.RelaySock.ID == d.SrcSock {
			return why{[]string{"C06", "C15"}, "the allocation of client " + itoa(a.Client) + " that owned this relay socket no longer exists"}
		}
	}

	return why{[]string{"C15"}, "the socket belongs to no allocation the model knows"}
}
