package srvworld

import (
	"crypto/hmac"
	"crypto/sha1" //nolint:gosec
	"encoding/base64"
	"encoding/binary"
	"fmt"
	"net"
	"reflect"
	"sync"
	"testing/synctest"
	"time"
	"unsafe"

	"github.com/pion/turn/v5"
	"github.com/pion/turn/v5/internal/allocation"
	"github.com/pion/turn/v5/internal/zzverif/ref"
	"github.com/pion/turn/v5/internal/zzverif/sim"
)

// TConfig configures a TCP-relay world (RFC 6062): stream clients, TCP allocations, TCP peers.
type TConfig struct {
	AllocLifetimeS int   `json:"alloc_lifetime_s"`
	PermTimeoutS   int   `json:"perm_timeout_s"`
	Clients        []int `json:"clients"`
	Deny           []int `json:"deny"`
	// LibStatic: the relay transport comes from the library's RelayAddressGeneratorStatic bound to
	// the wildcard address (Address "0.0.0.0") while RelayAddress is what is advertised
	LibStatic bool `json:"lib_static,omitempty"`
	// PlainConns: the operator's listener hands out connections that are nothing but a net.Conn
	// (what a TLS listener or a metering wrapper yields): no ReadFrom / WriteTo short cuts
	PlainConns bool `json:"plain_conns,omitempty"`
	GenFailAt  int  `json:"gen_fail_at,omitempty"` // >0: the n-th call of the relay address generator fails
	// LibAuth: the operator uses the library's own LongTermTURNRESTAuthHandler (time-windowed
	// usernames "<expiry>:<user>", password = base64(HMAC-SHA1(secret, username)))
	LibAuth bool `json:"lib_auth,omitempty"`
	// SlowCreatedMs: the operator's OnAllocationCreated handler takes this long (virtual time; the
	// library calls it without holding a lock)
	SlowCreatedMs int `json:"slow_created_ms,omitempty"`
}

// LibAuthSecret is the shared secret of worlds configured with LibAuth.
const LibAuthSecret = "sim-shared-secret"

// credFor is what a client presents as user u: the static table's name and password, or the
// time-windowed pair of the library's REST scheme (expiry in the year 2100).
func (c *TConfig) credFor(u struct{ Name, Pass string }) (string, string) {
	if !c.LibAuth {
		return u.Name, u.Pass
	}
	username := "4102444800:" + u.Name
	mac := hmac.New(sha1.New, []byte(LibAuthSecret))
	mac.Write([]byte(username))

	return username, base64.StdEncoding.EncodeToString(mac.Sum(nil))
}

// plainListener wraps the accepted connections so that only the net.Conn methods are visible.
type plainListener struct{ net.Listener }

type plainConn struct{ net.Conn }

func (l plainListener) Accept() (net.Conn, error) {
	c, err := l.Listener.Accept()
	if err != nil {
		return nil, err
	}

	return plainConn{c}, nil
}

// TStep is one scripted action in the TCP world.
type TStep struct {
	Op   string `json:"op"`
	C    int    `json:"c,omitempty"`
	U    int    `json:"u,omitempty"` // 0: own user, k>0: user k-1
	P    int    `json:"p,omitempty"` // peer index
	K    int    `json:"k,omitempty"` // connection slot (index into the client's connections, newest first); <0: unknown id
	N    int    `json:"n,omitempty"` // bytes / seconds
	Seed uint64 `json:"seed,omitempty"`
	Cuts int    `json:"cuts,omitempty"`      // number of segments a write is split into
	Side string `json:"side,omitempty"`      // client | peer
	Same bool   `json:"same_port,omitempty"` // PeerConnect: dial from the peer's fixed port
	Life int64  `json:"life,omitempty"`
	Tie  bool   `json:"tie,omitempty"` // ConnectionBind: sent at the very instant the 30 s bind deadline passes
	// Connect / CreatePermission: the IPv4 peer is named in its IPv4-mapped, family IPv6 spelling
	Mapped bool `json:"mapped,omitempty"`
	// Connect: the server's random source repeats itself - the connection id it draws is the one
	// it drew last (a one-in-2^32 coincidence, on demand)
	Dup bool `json:"dup_random,omitempty"`
}

// TScript is a TCP-world case.
type TScript struct {
	Cfg   TConfig `json:"cfg"`
	Steps []TStep `json:"steps"`
}

// TCPPeers: listening peers (index 2 refuses connections, index 3 is usually operator-denied).
var TCPPeers = []*net.TCPAddr{
	{IP: net.IPv4(10, 2, 0, 1), Port: 7000},
	{IP: net.IPv4(10, 2, 0, 1), Port: 7001},
	{IP: net.IPv4(10, 2, 0, 2), Port: 7000},
	{IP: net.IPv4(10, 2, 0, 3), Port: 7000},
}

type tConn struct {
	id           uint32
	peer         *net.TCPAddr
	inbound      bool
	bound        bool
	boundEver    bool
	deadline     time.Time
	srvEnd       *sim.Conn // server's end of the peer connection
	peerEnd      *sim.Conn // the peer's end (harness side)
	dataEnd      *sim.Conn // client's data connection (harness side), once bound
	gone         bool
	foreignTried bool // a client or user other than the owner attempted to bind this id
	orphan       bool // registered after its allocation was already gone (slow dial): lives until its own bind deadline
	// limbo: the owner sent a valid ConnectionBind and hung up without waiting for the answer -
	// bound or not, the peer connection must be gone when the bind deadline has passed
	limbo     bool
	toPeer    []byte // bytes the client wrote after binding
	toClient  []byte
	gotPeer   []byte
	gotClient []byte
}

type tAlloc struct {
	user     string
	relay    *net.TCPAddr
	lis      *sim.Listener
	deadline time.Time
	perms    map[string]time.Time
	conns    []*tConn
}

type tClient struct {
	idx    int
	addr   *net.TCPAddr
	user   int
	ctrl   *sim.Conn
	rbuf   []byte
	nonce  string
	txn    uint32
	alloc  *tAlloc
	closed bool
	// hijacked: the client sent ConnectionBind on its control connection, which thereby became
	// the data connection of a peer connection; the allocation lives until that pair ends
	hijacked *tConn
}

// TWorld is the TCP-relay world.
type TWorld struct {
	cfg        TConfig
	net        *sim.Net
	log        *sim.Logger
	srv        *turn.Server
	lis        *sim.Listener
	gen        *simGen
	clients    []*tClient
	peers      []*sim.Listener
	mgrs       []*allocation.Manager
	evMu       sync.Mutex
	events     []Event
	tombstones int
	seenIDs    map[uint32]bool
	stepNo     int
	trace      []string
	dport      int
	gone       []*tAlloc
}

// TExec runs a TScript.
type TExec struct {
	waitS    int
	w        *TWorld
	Findings []Finding
	St       Stats
	stop     bool
}

func (x *TExec) fail(props []string, kind, f string, a ...any) {
	x.Findings = append(x.Findings, Finding{Props: props, Kind: kind, Msg: fmt.Sprintf(f, a...), Step: x.w.stepNo})
	x.stop = true
	x.w.trace = append(x.w.trace, "FINDING "+kind+": "+fmt.Sprintf(f, a...))
}

func (c *TConfig) permTimeout() time.Duration {
	if c.PermTimeoutS == 0 {
		return DefaultPermTimeout
	}

	return time.Duration(c.PermTimeoutS) * time.Second
}

func (c *TConfig) allocLifetime() time.Duration {
	if c.AllocLifetimeS == 0 {
		return DefaultAllocLifetime
	}

	return time.Duration(c.AllocLifetimeS) * time.Second
}

func (c *TConfig) denied(ip net.IP) bool {
	for _, d := range c.Deny {
		if d >= 0 && d < len(TCPPeers) && TCPPeers[d].IP.Equal(ip) {
			return true
		}
	}

	return false
}

func newTWorld(cfg TConfig) (*TWorld, error) {
	w := &TWorld{cfg: cfg, net: sim.NewNet(), log: sim.NewLogger(120), seenIDs: map[uint32]bool{}, dport: 30000}
	// the generator only needs cfg.GenFailAt and the net from a World
	shim := &World{net: w.net}
	shim.cfg.GenFailAt = cfg.GenFailAt
	w.gen = &simGen{w: shim}
	if cfg.LibStatic {
		// relay listeners and outgoing connections from the library's static generator, bound to the
		// wildcard address while another address is advertised (the NAT / multi-homed set-up)
		inner := &turn.RelayAddressGeneratorStatic{RelayAddress: RelayIP4, Address: "0.0.0.0", Net: &sim.TNet{N: w.net}}
		if verr := inner.Validate(); verr != nil {
			return nil, verr
		}
		w.gen.inner, w.gen.innerTCP = inner, true
	}
	w.net.SetOwnerTag("server-listener")
	l, err := w.net.ListenTCPAt("tcp4", ServerIP4, ServerPort)
	if err != nil {
		return nil, err
	}
	w.lis = l
	w.net.SetOwnerTag("peer")
	for i, p := range TCPPeers {
		pl, err := w.net.ListenTCPAt("tcp4", p.IP, p.Port)
		if err != nil {
			return nil, err
		}
		if i == 2 {
			pl.Refuse = true
		}
		w.peers = append(w.peers, pl)
	}
	w.net.SetOwnerTag("relay")
	var srvListener net.Listener = l
	if cfg.PlainConns {
		srvListener = plainListener{l}
	}
	authHandler := func(ra *turn.RequestAttributes) (string, []byte, bool) {
		for _, u := range Users {
			if u.Name == ra.Username {
				return u.Name, ref.LongTermKey(u.Name, ra.Realm, u.Pass), true
			}
		}

		return "", nil, false
	}
	if cfg.LibAuth {
		authHandler = turn.LongTermTURNRESTAuthHandler(LibAuthSecret, w.log.NewLogger("auth"))
	}
	srv, err := turn.NewServer(turn.ServerConfig{
		Realm:              Realm,
		LoggerFactory:      w.log,
		PermissionTimeout:  time.Duration(cfg.PermTimeoutS) * time.Second,
		AllocationLifetime: time.Duration(cfg.AllocLifetimeS) * time.Second,
		AuthHandler:        authHandler,
		ListenerConfigs: []turn.ListenerConfig{{
			Listener:              srvListener,
			RelayAddressGenerator: w.gen,
			PermissionHandler:     func(_ net.Addr, peerIP net.IP) bool { return !w.cfg.denied(peerIP) },
		}},
		EventHandler: turn.EventHandler{
			OnAllocationCreated: func(src, _ net.Addr, _, user, _ string, relay net.Addr, _ int) {
				w.ev(Event{Kind: "AllocCreated", Src: addrStr(src), Relay: addrStr(relay), User: user})
				if cfg.SlowCreatedMs > 0 {
					time.Sleep(time.Duration(cfg.SlowCreatedMs)*time.Millisecond + 137*time.Microsecond)
				}
			},
			OnAllocationDeleted: func(src, _ net.Addr, _, user, _ string) {
				w.ev(Event{Kind: "AllocDeleted", Src: addrStr(src), User: user})
			},
			OnAuth: func(_, _ net.Addr, _, _, _, _ string, _ bool) {},
		},
	})
	if err != nil {
		return nil, err
	}
	w.srv = srv
	w.mgrs = managersOf(srv)
	w.net.SetOwnerTag("client")
	for i, ci := range cfg.Clients {
		ca := ClientPool[ci%4]
		c := &tClient{idx: i, addr: &net.TCPAddr{IP: ca.IP, Port: ca.Port}, user: ca.User}
		conn, err := w.net.DialTCPFrom(c.addr, &net.TCPAddr{IP: ServerIP4, Port: ServerPort})
		if err != nil {
			return nil, err
		}
		c.ctrl = conn
		w.clients = append(w.clients, c)
	}
	w.net.SetOwnerTag("relay")

	return w, nil
}

func (w *TWorld) ev(e Event) {
	e.Time = time.Now()
	w.evMu.Lock()
	w.events = append(w.events, e)
	w.evMu.Unlock()
}

// lockProbe: at quiescence every mutex of the allocation managers must be free (C16, C18).
// A held lock is force-released so that the world can be torn down.
func lockProbe(mgrs []*allocation.Manager) (held string) {
	defer func() { _ = recover() }()
	for _, m := range mgrs {
		v := reflect.ValueOf(m).Elem()
		for i := 0; i < v.NumField(); i++ {
			f := v.Field(i)
			switch f.Type() {
			case reflect.TypeOf(sync.RWMutex{}):
				mu := (*sync.RWMutex)(unsafe.Pointer(f.UnsafeAddr())) //nolint:gosec
				if mu.TryLock() {
					mu.Unlock()
				} else {
					held = "allocation.Manager." + v.Type().Field(i).Name
					if !mu.TryRLock() {
						mu.Unlock() // write-locked by a path that returned without unlocking
					} else {
						mu.RUnlock()
						mu.RUnlock()
					}
				}
			case reflect.TypeOf(sync.Mutex{}):
				mu := (*sync.Mutex)(unsafe.Pointer(f.UnsafeAddr())) //nolint:gosec
				if mu.TryLock() {
					mu.Unlock()
				} else {
					held = "allocation.Manager." + v.Type().Field(i).Name
					mu.Unlock()
				}
			}
		}
	}

	return held
}

func (c *tClient) nextTx() [12]byte {
	c.txn++
	var id [12]byte
	id[0] = byte(0xD0 + c.idx)
	binary.BigEndian.PutUint32(id[4:8], c.txn)
	id[11] = byte(c.txn * 7)

	return id
}

// drain reads every complete frame that arrived on conn into msgs.
func drainFrames(conn *sim.Conn, buf *[]byte) (msgs []*ref.Msg, eof bool, bad bool) {
	data, e := conn.ReadAvailable()
	*buf = append(*buf, data...)
	for {
		k, size, complete := ref.NextFrame(*buf)
		if k == ref.FrameInvalid {
			return msgs, e, true
		}
		if !complete || size == 0 {
			break
		}
		if k == ref.FrameSTUN {
			if m, err := ref.Parse((*buf)[:size]); err == nil {
				msgs = append(msgs, m)
			} else {
				bad = true
			}
		}
		*buf = (*buf)[size:]
	}

	return msgs, e, bad
}

func (x *TExec) settle() { synctest.Wait() }

func (x *TExec) sign(c *tClient, ui int, m *ref.Msg) []byte {
	name, pass := x.w.cfg.credFor(Users[ui%len(Users)])
	mm := &ref.Msg{Method: m.Method, Class: m.Class, TxID: m.TxID, Attrs: append([]ref.Attr{}, m.Attrs...)}
	mm.Add(ref.AttrUsername, []byte(name))
	mm.Add(ref.AttrRealm, []byte(Realm))
	mm.Add(ref.AttrNonce, []byte(c.nonce))

	return ref.AddIntegrity(mm.Encode(), ref.LongTermKey(name, Realm, pass))
}

// request sends one authenticated request on conn and returns the response with the same id
// (other messages that arrive on the control connection are returned as extras).
func (x *TExec) request(c *tClient, conn *sim.Conn, rbuf *[]byte, ui int, m *ref.Msg) (resp *ref.Msg, extras []*ref.Msg) {
	for attempt := 0; attempt < 2; attempt++ {
		raw := x.sign(c, ui, m)
		if _, err := conn.Write(raw); err != nil {
			return nil, nil
		}
		x.settle()
		msgs, _, bad := drainFrames(conn, rbuf)
		for w := 0; w < x.waitS && len(msgs) == 0 && !bad; w++ {
			time.Sleep(time.Second) // a scripted slow dial delays the response
			x.settle()
			msgs, _, bad = drainFrames(conn, rbuf)
		}
		if bad {
			x.fail([]string{"C09", "C19"}, "server-sent-garbage", "server wrote bytes that are not a TURN frame on a client connection")

			return nil, nil
		}
		resp = nil
		for _, r := range msgs {
			if r.TxID == m.TxID && (r.Class == ref.ClassSuccess || r.Class == ref.ClassError) && resp == nil {
				resp = r
			} else {
				extras = append(extras, r)
			}
		}
		if resp != nil && resp.Class == ref.ClassError && (resp.ErrorCode() == 438 || resp.ErrorCode() == 401) && attempt == 0 {
			if v, ok := resp.Get(ref.AttrNonce); ok {
				c.nonce = string(v)

				continue
			}
		}

		return resp, extras
	}

	return resp, extras
}

func (x *TExec) userIdx(c *tClient, st *TStep) int {
	if st.U <= 0 {
		return c.user
	}

	return (st.U - 1) % len(Users)
}

func (x *TExec) purge() {
	now := time.Now()
	for _, c := range x.w.clients {
		if c.hijacked != nil && c.hijacked.gone {
			// the pair that had taken over the control connection ended: the server closed the
			// connection, and the allocation went with it
			x.dropAlloc(c, "hijacked-control-connection-ended")
			c.hijacked = nil
		}
	}
	for _, a := range x.w.gone {
		for _, tc := range a.conns {
			if tc.orphan && !tc.gone && !now.Before(tc.deadline) {
				tc.gone = true
				x.St.inc("tcp:orphan-expired")
			}
		}
	}
	for _, c := range x.w.clients {
		a := c.alloc
		if a == nil {
			continue
		}
		if !now.Before(a.deadline) {
			x.dropAlloc(c, "expiry")

			continue
		}
		for ip, d := range a.perms {
			if !now.Before(d) {
				delete(a.perms, ip)
			}
		}
		for _, tc := range a.conns {
			if !tc.gone && !tc.bound && !now.Before(tc.deadline) {
				tc.gone = true
				x.St.inc("tcp:unbound-expired")
			}
		}
	}
}

func (x *TExec) dropAlloc(c *tClient, why string) {
	if c.alloc == nil {
		return
	}
	for _, tc := range c.alloc.conns {
		if !tc.orphan {
			tc.gone = true
		}
	}
	x.w.gone = append(x.w.gone, c.alloc)
	c.alloc = nil
	x.St.inc("teardown:" + why)
}
