package srvworld

import "testing"

func has(st *Stats, l string) bool { return st.Labels[l] > 0 }

func TestC01(t *testing.T) {
	runProp(t, &propSpec{
		id: "C01",
		profile: &Profile{
			Name: "C01", MinSteps: 6, MaxSteps: 32, MaxClient: 4, Streams: true, V6: true, Fragments: []string{"perm", "chan", "alloc"},
			Weights: map[string]int{"Allocate": 6, "Refresh": 4, "CreatePermission": 14, "ChannelBind": 12, "Send": 22, "ChannelData": 18, "PeerData": 2, "Sleep": 14, "Binding": 1},
		},
		nontrivial: func(st *Stats, _ *Script) bool {
			neg := has(st, "send-unauthorised") || has(st, "channeldata-unauthorised")
			pos := has(st, "send-authorised") || has(st, "channeldata-authorised")

			return neg && pos && has(st, "allocate-success")
		},
	})
}
