package srvworld

import (
	"encoding/binary"
	"net"
	"os"
	"syscall"
	"time"

	"github.com/pion/turn/v5/internal/zzverif/ref"
)

// hostileStream derives the hostile byte string of a step from (N, Seed).
func (x *TExec) hostileStream(c *tClient, st *TStep) ([]byte, string) {
	r := &prng{s: st.Seed*104729 + uint64(st.N)}
	switch st.N % 7 {
	case 6:
		// complete frames around and above the server's inbound buffer (1600 bytes by default)
		sizes := []int{1580, 1592, 1596, 1597, 1600, 1601, 1604, 1700, 2000, 4016, 16384, 65535}
		n := sizes[r.n(len(sizes))]
		if r.n(2) == 0 {
			return ref.EncodeChannelData(0x4000+uint16(r.n(100)), synth(n, r.next(), ""), true), "oversize-complete-frame"
		}
		m := &ref.Msg{Method: ref.MethodSend, Class: ref.ClassIndication, TxID: c.nextTx()}
		m.Add(ref.AttrData, synth(min(n, 65000), r.next(), ""))

		return m.Encode(), "oversize-complete-frame"
	case 0:
		return synth(r.n(200), r.next(), ""), "random-bytes"
	case 1:
		// header grid: first two bytes class x declared length, followed by 0..24 bytes
		firsts := [][2]byte{{0x00, 0x01}, {0x00, 0x03}, {0x01, 0x01}, {0x40, 0x00}, {0x7F, 0xFF}, {0x3F, 0xFF}, {0x80, 0x00}, {0xFF, 0xFF}, {0x16, 0x03}, {0x47, 0x45}}
		f := firsts[r.n(len(firsts))]
		lens := []int{0, 1, 2, 3, 4, 5, 6, 7, 8, 0xFFE8, 0xFFEC, 0xFFF0, 0xFFF8, 0xFFFB, 0xFFFC, 0xFFFD, 0xFFFE, 0xFFFF}
		l := lens[r.n(len(lens))]
		if r.n(4) == 0 {
			l = r.n(65536)
		}
		b := []byte{f[0], f[1], byte(l >> 8), byte(l)}
		tail := synth(r.n(25), r.next(), "")
		if f[0]&0xC0 == 0 && r.n(2) == 0 && len(tail) >= 4 {
			binary.BigEndian.PutUint32(tail[0:4], ref.MagicCookie)
		}

		return append(b, tail...), "stream-header-grid"
	case 2:
		m := &ref.Msg{Method: ref.MethodAllocate, Class: ref.ClassRequest, TxID: c.nextTx()}
		m.Add(ref.AttrRequestedTransport, []byte{6, 0, 0, 0})
		raw := x.sign(c, c.user, m)
		for k := 1 + r.n(3); k > 0; k-- {
			raw[r.n(len(raw))] ^= 1 << r.n(8)
		}

		return raw, "bit-flips"
	case 3:
		m := &ref.Msg{Method: []int{ref.MethodRefresh, ref.MethodConnect, ref.MethodConnectionBind, ref.MethodCreatePermission}[r.n(4)], Class: ref.ClassRequest, TxID: c.nextTx()}
		t, v := hostileAttr(r)
		m.Add(t, v)
		raw := x.sign(c, c.user, m)

		return raw[:r.n(len(raw)+1)], "hostile-attribute-truncated"
	case 4:
		// several frames, the last one broken
		var out []byte
		for k := r.n(3); k > 0; k-- {
			m := &ref.Msg{Method: ref.MethodBinding, Class: ref.ClassRequest, TxID: c.nextTx()}
			out = append(out, m.Encode()...)
		}
		out = append(out, ref.EncodeChannelData(0x4000+uint16(r.n(64)), synth(r.n(9), 3, ""), r.n(2) == 0)...)

		return append(out, synth(r.n(30), r.next(), "")...), "frames-then-garbage"
	default:
		m := &ref.Msg{Method: ref.MethodConnectionBind, Class: ref.ClassRequest, TxID: c.nextTx()}
		m.Add(ref.AttrConnectionID, ref.U32(uint32(r.next())))
		raw := x.sign(c, c.user, m)

		return append(raw, synth(r.n(40), r.next(), "")...), "connectionbind-unknown-id-then-bytes"
	}
}

func (x *TExec) opHostileStream(st *TStep) {
	c := x.client(st.C)
	if st.Side == "accept-fault" {
		x.opAcceptFault(c)

		return
	}
	data, class := x.hostileStream(c, st)
	x.St.inc("hostile:" + class)
	conn := c.ctrl
	onControl := st.Side == "control" && !c.closed
	if !onControl {
		x.w.dport++
		nc, err := x.w.net.DialTCPFrom(&net.TCPAddr{IP: net.IPv4(10, 7, 0, 2), Port: x.w.dport}, &net.TCPAddr{IP: ServerIP4, Port: ServerPort})
		if err != nil {
			x.fail([]string{"C09"}, "listener-refuses-connections", "cannot open a new connection to the stream listener: %v", err)

			return
		}
		conn = nc
	} else {
		x.St.inc("hostile-on-live-control-connection")
	}
	cuts := max(st.Cuts, 1)
	chunk := max((len(data)+cuts-1)/cuts, 1)
	for off := 0; off < len(data); off += chunk {
		if _, err := conn.Write(data[off:min(off+chunk, len(data))]); err != nil {
			break // the server hung up on us: allowed for an invalid prefix
		}
		x.settle()
	}
	x.settle()
	_ = conn.Close()
	x.settle()
	if onControl {
		c.closed = true
		x.dropAlloc(c, "control-connection-close")
	}
	// a new control connection is accepted and served
	x.w.dport++
	nc, err := x.w.net.DialTCPFrom(&net.TCPAddr{IP: net.IPv4(10, 7, 0, 3), Port: x.w.dport}, &net.TCPAddr{IP: ServerIP4, Port: ServerPort})
	if err != nil {
		x.fail([]string{"C09"}, "listener-refuses-connections", "after a %s stream the listener accepts no new connection: %v", class, err)

		return
	}
	m := &ref.Msg{Method: ref.MethodBinding, Class: ref.ClassRequest, TxID: c.nextTx()}
	_, _ = nc.Write(m.Encode())
	x.settle()
	var rb []byte
	msgs, _, _ := drainFrames(nc, &rb)
	if len(msgs) != 1 || msgs[0].TxID != m.TxID || msgs[0].Class != ref.ClassSuccess {
		x.fail([]string{"C09"}, "server-dead-after-hostile-stream", "after a %s stream (%d bytes in %d segments) a Binding request on a new control connection got %d answers", class, len(data), cuts, len(msgs))
	}
	_ = nc.Close()
	x.settle()
}

// opAcceptFault: the listener's Accept fails once with a temporary error - EMFILE, what a kernel
// reports while a crowd of idle connections holds every descriptor. When that is over the listener
// must accept and serve a new party again (the step's liveness probe looks after the old ones).
func (x *TExec) opAcceptFault(c *tClient) {
	x.w.lis.InjectAcceptError(&net.OpError{Op: "accept", Net: "tcp", Addr: x.w.lis.Addr(), Err: os.NewSyscallError("accept", syscall.EMFILE)})
	x.St.inc("hostile:accept-fails-temporarily")
	x.settle()
	time.Sleep(3 * time.Second)
	x.settle()
	x.w.dport++
	nc, err := x.w.net.DialTCPFrom(&net.TCPAddr{IP: net.IPv4(10, 7, 0, 3), Port: x.w.dport}, &net.TCPAddr{IP: ServerIP4, Port: ServerPort})
	if err != nil {
		x.fail([]string{"C09"}, "listener-refuses-connections", "after one temporary Accept error the listener accepts no new connection: %v", err)

		return
	}
	m := &ref.Msg{Method: ref.MethodBinding, Class: ref.ClassRequest, TxID: c.nextTx()}
	_, _ = nc.Write(m.Encode())
	x.settle()
	time.Sleep(time.Second)
	x.settle()
	var rb []byte
	msgs, _, _ := drainFrames(nc, &rb)
	if len(msgs) != 1 || msgs[0].TxID != m.TxID || msgs[0].Class != ref.ClassSuccess {
		x.fail([]string{"C09"}, "listener-dead-after-accept-error", "3 s after one temporary Accept error (EMFILE) a Binding request on a new control connection got %d answers", len(msgs))
	}
	_ = nc.Close()
	x.settle()
}
