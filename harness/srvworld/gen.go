package srvworld

import (
	"pgregory.net/rapid"
)

// Profile steers the script generator toward the steps that matter for one property.
type Profile struct {
	Name         string
	MaxSteps     int
	MinSteps     int
	Weights      map[string]int // op -> weight
	Defects      bool           // draw credential defects (C03)
	MaxClient    int
	BigData      bool     // payload lengths up to the largest datagram (C05)
	Teardown     bool     // RelayError / CloseServer ops (C15)
	Odd          bool     // odd Allocate options (C19)
	MTU          bool     // draw InboundMTU
	V6           bool     // allow the IPv6 listener variant
	Streams      bool     // some clients use a TCP control connection
	SlowCB       bool     // slow lifecycle callbacks
	RealGen      bool     // UDP relay sockets from the library's port-range generator over a tiny range
	Coincide     bool     // coincidence mode: equal timeouts so that expiries collide (C15/C18)
	GenFail      bool     // the relay address generator fails at a scripted call (a failed Allocate leaves nothing behind)
	LongAlloc    bool     // allocation lifetime 2 h so that permission/channel horizons are not cut short (C07)
	OddSometimes bool     // draw per case whether the odd Allocate options are used
	Fragments    []string // structured fragments mixed into the random steps: perm, chan, alloc, stall
	StallStreams bool     // at least one stream client, always with a small receive window (C18)
}

var lifetimes = []int64{-1, -1, -1, 0, 1, 2, 30, 59, 60, 61, 300, 599, 600, 601, 1800, 3599, 3600, 3601, 86400, 1 << 31, 1<<32 - 1}

var allDefects = []string{
	"nomi", "nomi-bare", "wrongpass", "otheruserpass", "unknownuser", "unknownuser-emptykey", "hmac-trunc", "hmac-ext", "hmac-flip", "altered",
	"no-username", "no-realm", "no-nonce", "nonce-random", "nonce-alphabet", "nonce-mac-flip", "nonce-ts-flip",
	"nonce-old", "nonce-old-fresh-appended", "nonce-lower", "nonce-other-server", "other-realm", "realm-attr-other-key-own", "nonce-alnum-len", "nonce-alnum-len",
}

func genConfig(rt *rapid.T, p *Profile) Config {
	cfg := Config{DenyClient: -1}
	cfg.AllocLifetimeS = rapid.OneOf(
		rapid.SampledFrom([]int{0, 0, 30, 60, 61, 120, 600, 3599, 3600, 3601, 7200}),
		rapid.IntRange(30, 7200),
	).Draw(rt, "allocLifetime")
	cfg.PermTimeoutS = rapid.OneOf(
		rapid.SampledFrom([]int{0, 0, 5, 30, 60, 300, 600, 1200}),
		rapid.IntRange(5, 1200),
	).Draw(rt, "permTimeout")
	cfg.ChanTimeoutS = rapid.OneOf(
		rapid.SampledFrom([]int{0, 0, 5, 30, 60, 300, 600, 1800}),
		rapid.IntRange(5, 1800),
	).Draw(rt, "chanTimeout")
	if p.Coincide && rapid.IntRange(0, 1).Draw(rt, "coincide") == 1 {
		v := rapid.SampledFrom([]int{30, 60, 300, 600}).Draw(rt, "coincideT")
		cfg.AllocLifetimeS, cfg.PermTimeoutS, cfg.ChanTimeoutS = v, v, v
	}
	if p.MTU {
		cfg.InboundMTU = rapid.OneOf(
			rapid.SampledFrom([]int{0, 0, 0, 256, 512, 1024, 1500, 1600, 2048, 4096, 65535}),
			rapid.IntRange(200, 4096),
		).Draw(rt, "mtu")
	}
	if p.LongAlloc {
		cfg.AllocLifetimeS = 7200
	}
	if p.RealGen && rapid.IntRange(0, 3).Draw(rt, "realGen") == 0 {
		cfg.RealGenPorts = rapid.SampledFrom([]int{2, 3, 4, 8}).Draw(rt, "realGenPorts")
	}
	cfg.Strict = rapid.IntRange(0, 3).Draw(rt, "strict") == 0
	maxc := p.MaxClient
	if maxc <= 0 {
		maxc = 3
	}
	nc := rapid.IntRange(1, maxc).Draw(rt, "nclients")
	if p.V6 && rapid.IntRange(0, 5).Draw(rt, "serverV6") == 0 {
		cfg.ServerV6 = true
		nc = min(nc, 2)
		cfg.Clients = []int{4, 5}[:nc]
	} else if p.V6 && rapid.IntRange(0, 5).Draw(rt, "dualStack") == 0 {
		// one wildcard listener serving both families: an IPv4 client, an IPv6 client whose
		// address bytes resemble it, then whoever else
		cfg.DualStack = true
		pair := rapid.SampledFrom([][]int{{0, 6}, {2, 7}, {1, 8}, {3, 9}, {0, 4}}).Draw(rt, "dualPair")
		rest := rapid.Permutation([]int{0, 1, 2, 3, 4, 5, 6, 7, 8, 9}).Draw(rt, "dualRest")
		cfg.Clients = append([]int{}, pair...)
		if rapid.Bool().Draw(rt, "dualSwap") {
			cfg.Clients[0], cfg.Clients[1] = cfg.Clients[1], cfg.Clients[0]
		}
		for _, r := range rest {
			if r != pair[0] && r != pair[1] && len(cfg.Clients) < max(nc, 2) {
				cfg.Clients = append(cfg.Clients, r)
			}
		}
		nc = len(cfg.Clients)
	} else {
		perm := rapid.Permutation([]int{0, 1, 2, 3}).Draw(rt, "clientPool")
		cfg.Clients = perm[:nc]
	}
	if p.Streams && !cfg.ServerV6 && !cfg.DualStack {
		for i := 0; i < nc; i++ {
			if rapid.IntRange(0, 2).Draw(rt, "stream") == 0 {
				cfg.Stream = append(cfg.Stream, i)
			}
		}
		if p.StallStreams && len(cfg.Stream) == 0 {
			cfg.Stream = append(cfg.Stream, rapid.IntRange(0, nc-1).Draw(rt, "theStream"))
		}
		if len(cfg.Stream) > 0 && rapid.IntRange(0, 2).Draw(rt, "denyStream") == 0 {
			cfg.DenyStream = rapid.SampledFrom([][]int{{1}, {2}, {0}, {4}}).Draw(rt, "denyStreamPeers")
		}
		if len(cfg.Stream) > 0 && (p.StallStreams || rapid.IntRange(0, 2).Draw(rt, "flowControl") == 0) {
			cfg.StreamWindow = rapid.SampledFrom([]int{64, 256, 512, 1024, 4096}).Draw(rt, "streamWindow")
		}
	}
	switch rapid.IntRange(0, 7).Draw(rt, "denyKind") {
	case 0:
		cfg.Deny = nil
	case 1:
		cfg.Deny = []int{0}
	case 2:
		cfg.Deny = []int{2, 3}
	case 6:
		cfg.Deny = []int{7} // an IPv6 peer, while other IPv6 peers stay allowed
	case 7:
		cfg.Deny = []int{3, 7}
	default:
		cfg.Deny = []int{3}
	}
	if len(cfg.Deny) > 0 && rapid.IntRange(0, 3).Draw(rt, "denyLater") == 0 {
		// the operator bans the peers only later, possibly while permissions for them exist
		cfg.DenyAfterS = rapid.SampledFrom([]int{1, 30, 100, 200, 299, 301, 400, 700}).Draw(rt, "denyAfter")
	}
	if nc > 1 && rapid.IntRange(0, 4).Draw(rt, "denyPerClient") == 0 {
		cfg.DenyClient = rapid.IntRange(0, nc-1).Draw(rt, "denyClient")
	}
	if p.Odd {
		switch rapid.IntRange(0, 9).Draw(rt, "oddcfg") {
		case 0:
			cfg.Quota = 1
		case 1:
			cfg.GenFailAt = rapid.IntRange(1, 3).Draw(rt, "genFailAt")
		}
	}
	if p.GenFail && cfg.GenFailAt == 0 && rapid.IntRange(0, 3).Draw(rt, "genfail") == 0 {
		cfg.GenFailAt = rapid.IntRange(1, 4).Draw(rt, "genFailAt2")
	}
	if p.Defects && rapid.IntRange(0, 11).Draw(rt, "noauth") == 0 {
		cfg.NoAuth = true
	}
	if (p.Defects || p.Name == "C04" || p.Name == "C03") && cfg.Quota == 0 && rapid.IntRange(0, 3).Draw(rt, "emptyUserID") == 0 {
		cfg.EmptyUserID = true // the operator's AuthHandler does not use user ids
	}
	switch p.Name {
	case "C01", "C02", "C06", "C07", "C15":
		cfg.ProbeChanDeleted = rapid.IntRange(0, 1).Draw(rt, "probeChanDeleted") == 0
	}
	if p.SlowCB && rapid.IntRange(0, 2).Draw(rt, "slowcb") == 0 {
		cfg.CallbackSleepS = rapid.SampledFrom([]int{1, 5, 31, 301, 601}).Draw(rt, "cbSleep")
		cfg.SlowCallback = rapid.SampledFrom([]string{"AllocCreated", "AllocDeleted", "PermCreated", "PermCreated", "all"}).Draw(rt, "cbWhich")
	}

	return cfg
}

func pickOp(rt *rapid.T, p *Profile, label string) string {
	total := 0
	ops := make([]string, 0, len(p.Weights))
	for _, op := range opOrder {
		if w := p.Weights[op]; w > 0 {
			ops = append(ops, op)
			total += w
		}
	}
	k := rapid.IntRange(0, total-1).Draw(rt, label)
	for _, op := range ops {
		k -= p.Weights[op]
		if k < 0 {
			return op
		}
	}

	return ops[0]
}

var opOrder = []string{"CloseListenerSocket", "CloseControl", "Allocate", "Refresh", "CreatePermission", "ChannelBind", "Send", "ChannelData", "PeerData", "Binding", "Sleep", "RelayError", "CloseServer", "Connect", "ConnectionBind", "PeerConnect", "TCPData", "TCPClose", "Hostile"}

// hostileTCP: in the C09 profile a quarter of the Allocates ask for a TCP relay (a peer-less
// allocation that Send indications, ChannelData and hostile datagrams then hit), elsewhere an eighth
func hostileTCP(p *Profile) int {
	if p.Name == "C09" {
		return 1
	}

	return 0
}

func genLen(rt *rapid.T, p *Profile, label string) int {
	if p.BigData {
		return rapid.OneOf(
			rapid.IntRange(0, 72),
			rapid.IntRange(0, 72),
			rapid.IntRange(1400, 1700),
			rapid.IntRange(1590, 1610),
			rapid.SampledFrom([]int{0, 1, 2, 3, 4, 5, 1499, 1500, 1501, 1599, 1600, 1601, 2047, 2048, 2049, 4095, 4096, 4097, 32767, 65000, 65507}),
			rapid.IntRange(0, 65507),
		).Draw(rt, label)
	}

	return rapid.OneOf(rapid.IntRange(0, 40), rapid.IntRange(0, 1200)).Draw(rt, label)
}

func genStep(rt *rapid.T, p *Profile, cfg *Config, i int) Step { //nolint:cyclop
	nc := len(cfg.Clients)
	st := Step{Op: pickOp(rt, p, "op"), Life: -1}
	st.C = rapid.IntRange(0, nc-1).Draw(rt, "c")
	peer := func(label string) int {
		if cfg.ServerV6 || (cfg.v6Client(st.C) && !cfg.Strict) || rapid.IntRange(0, 9).Draw(rt, label+"v6") == 0 {
			return rapid.SampledFrom([]int{4, 7, 8, 4, 7, 0, 6}).Draw(rt, label) // mostly the IPv6 peers
		}

		return rapid.OneOf(rapid.IntRange(0, 2), rapid.IntRange(0, len(PeerPool)-1)).Draw(rt, label)
	}
	if p.Defects && st.Op != "Send" && st.Op != "ChannelData" && st.Op != "PeerData" && st.Op != "Sleep" && st.Op != "Binding" {
		if rapid.IntRange(0, 2).Draw(rt, "hasDefect") == 0 {
			st.Defect = rapid.SampledFrom(allDefects).Draw(rt, "defect")
			st.Seed = rapid.Uint64Range(0, 1<<16).Draw(rt, "dseed")
		}
		if rapid.IntRange(0, 3).Draw(rt, "otherUser") == 0 {
			st.U = rapid.IntRange(1, len(Users)).Draw(rt, "u")
		}
	} else if rapid.IntRange(0, 11).Draw(rt, "otherUser") == 0 {
		st.U = rapid.IntRange(1, len(Users)).Draw(rt, "u")
	}
	if (p.Odd || p.Name == "C04" || p.Name == "C06" || p.Name == "C07" || p.Name == "C08") && (st.Op == "Refresh" || st.Op == "CreatePermission" || st.Op == "ChannelBind") &&
		rapid.IntRange(0, 7).Draw(rt, "dupAny") == 0 {
		st.Dup = true // the network delivers the request twice
	}
	switch st.Op {
	case "Allocate":
		st.Life = rapid.SampledFrom(lifetimes).Draw(rt, "life")
		if rapid.IntRange(0, 5).Draw(rt, "lifeRandom") == 0 {
			st.Life = int64(rapid.Uint32().Draw(rt, "lifeR"))
		}
		st.Retx = rapid.IntRange(0, 5).Draw(rt, "retx") == 0
		st.RespLost = rapid.IntRange(0, 9).Draw(rt, "allocRespLost") == 0
		if (p.Teardown || p.Odd || p.Name == "C09") && !cfg.isStream(st.C) && rapid.IntRange(0, 7).Draw(rt, "tcpAlloc") <= hostileTCP(p) {
			st.Tcp = true // a TCP relay asked for over the datagram listener (this server grants it)
		}
		if !st.Retx && rapid.IntRange(0, 5).Draw(rt, "afterRefresh0") == 0 {
			st.Rel, st.RespLost = "after-refresh0", false // Refresh(0) and the new Allocate back to back
		}
		if (p.Odd || p.Name == "C04") && rapid.IntRange(0, 4).Draw(rt, "dupDatagram") == 0 {
			st.Dup = true // the network delivers the request twice
		}
		if p.Odd {
			if rapid.IntRange(0, 7).Draw(rt, "txfrom") == 0 {
				st.TxFrom = rapid.IntRange(1, nc).Draw(rt, "txFromC")
			} else if !st.Retx && rapid.IntRange(0, 7).Draw(rt, "txExtreme") == 0 {
				st.TxFrom = rapid.SampledFrom([]int{-1, -1, -2}).Draw(rt, "txExtremeV") // all-zero / all-ones transaction id
			}
			st.Fam = rapid.SampledFrom([]int{0, 0, 0, 0, 1, 2, 3}).Draw(rt, "fam")
			st.Opt = rapid.SampledFrom([]string{"", "", "", "", "", "evenport", "evenport", "token", "token", "token+even", "dontfrag", "notransport", "badtransport", "token+fam"}).Draw(rt, "opt")
		} else if rapid.IntRange(0, 9).Draw(rt, "fam2") == 0 {
			st.Fam = rapid.SampledFrom([]int{1, 2}).Draw(rt, "fam")
		}
	case "Refresh":
		st.Life = rapid.SampledFrom(lifetimes).Draw(rt, "life")
		if rapid.IntRange(0, 5).Draw(rt, "lifeRandom") == 0 {
			st.Life = int64(rapid.Uint32().Draw(rt, "lifeR"))
		}
		st.RespLost = rapid.IntRange(0, 7).Draw(rt, "refreshRespLost") == 0
		st.Retx = rapid.IntRange(0, 4).Draw(rt, "refreshRetx") == 0 // the same transaction again (a retransmission, seconds or minutes later)
		if p.Odd && !st.Retx {
			if rapid.IntRange(0, 5).Draw(rt, "rtxfrom") == 0 {
				st.TxFrom = rapid.IntRange(1, nc).Draw(rt, "rtxFromC")
			} else if rapid.IntRange(0, 5).Draw(rt, "rtxExtreme") == 0 {
				st.TxFrom = rapid.SampledFrom([]int{-1, -1, -2}).Draw(rt, "rtxExtremeV")
			}
		}
		if rapid.IntRange(0, 7).Draw(rt, "refreshTie") == 0 {
			st.Rel = "tie" // sent at the very instant the allocation expires
		} else if rapid.IntRange(0, 7).Draw(rt, "rfam") == 0 || (p.Odd && rapid.IntRange(0, 5).Draw(rt, "rfamOdd") == 0) {
			// REQUESTED-ADDRESS-FAMILY in a Refresh: matching (ignored), mismatching (443) or unknown (error) -
			// a refused Refresh must leave the lifetime alone
			st.Fam = rapid.IntRange(1, 3).Draw(rt, "fam")
		}
	case "CreatePermission":
		k := rapid.SampledFrom([]int{1, 1, 1, 2, 2, 3, 0}).Draw(rt, "npeers")
		for j := 0; j < k; j++ {
			st.P = append(st.P, peer("p"))
		}
		st.RespLost = rapid.IntRange(0, 11).Draw(rt, "respLost") == 0
		if p.Odd && rapid.IntRange(0, 7).Draw(rt, "ptxfrom") == 0 {
			st.TxFrom = rapid.SampledFrom([]int{-1, -2, 1, 1, min(2, nc), nc}).Draw(rt, "ptxFromV")
		}
		if k == 1 && rapid.IntRange(0, 7).Draw(rt, "permTie") == 0 {
			st.Rel, st.RespLost = "tie", false // sent at the very instant the permission expires
		}
		if k > 0 && rapid.IntRange(0, 15).Draw(rt, "truncFirst") == 0 {
			st.Opt, st.RespLost = "trunc-first", false
			st.Seed = rapid.Uint64Range(0, 1<<20).Draw(rt, "truncSeed")
		}
	case "ChannelBind":
		st.P = []int{peer("p")}
		st.Ch = rapid.OneOf(rapid.IntRange(0, 2), rapid.IntRange(0, len(ChannelSlots)-1)).Draw(rt, "ch")
		st.RespLost = rapid.IntRange(0, 11).Draw(rt, "respLost") == 0
		if p.Odd && rapid.IntRange(0, 7).Draw(rt, "ctxfrom") == 0 {
			st.TxFrom = rapid.SampledFrom([]int{-1, -2, 1, 1, min(2, nc), nc}).Draw(rt, "ctxFromV")
		}
		if rapid.IntRange(0, 7).Draw(rt, "chanTie") == 0 {
			st.Rel, st.RespLost = "tie", false // sent at the very instant the binding expires
		} else if rapid.IntRange(0, 9).Draw(rt, "chanAllocTie") == 0 {
			st.Rel, st.RespLost = "alloc-tie", false // sent at the very instant the allocation expires
		}
	case "Send":
		st.P = []int{peer("p")}
		st.N = genLen(rt, p, "n")
		st.Seed = rapid.Uint64Range(0, 1<<20).Draw(rt, "seed")
		st.Content = rapid.SampledFrom([]string{"", "", "", "zero", "stun", "chandata", "x4000"}).Draw(rt, "content")
		if cfg.isStream(st.C) {
			st.Split = rapid.SampledFrom([]int{0, 0, 1, 4, 20, 32, 36}).Draw(rt, "split")
		}
		st.RespLost = rapid.IntRange(0, 11).Draw(rt, "relayWriteFails") == 0 // (Send + RespLost: the relay socket's write fails)
	case "ChannelData":
		st.Ch = rapid.OneOf(rapid.IntRange(0, 2), rapid.IntRange(0, len(ChannelSlots)-1)).Draw(rt, "ch")
		st.N = genLen(rt, p, "n")
		st.Seed = rapid.Uint64Range(0, 1<<20).Draw(rt, "seed")
		st.Content = rapid.SampledFrom([]string{"", "", "", "zero", "stun", "chandata", "x4000"}).Draw(rt, "content")
		if cfg.isStream(st.C) {
			st.Split = rapid.SampledFrom([]int{0, 0, 1, 4, 4, 4, 8}).Draw(rt, "split") // 4: right behind the ChannelData header
		}
		if rapid.IntRange(0, 3).Draw(rt, "nopad") == 0 {
			st.Pad = rapid.SampledFrom([]string{"none", "none", "extra"}).Draw(rt, "padKind")
		}
	case "PeerData":
		st.P = []int{peer("p")}
		st.N = genLen(rt, p, "n")
		st.Seed = rapid.Uint64Range(0, 1<<20).Draw(rt, "seed")
		st.Content = rapid.SampledFrom([]string{"", "", "", "zero", "stun", "chandata", "x4000"}).Draw(rt, "content")
		// (PeerData + RespLost: the server's write of the relayed datagram to the client fails)
		st.RespLost = rapid.IntRange(0, 9).Draw(rt, "relayWriteFails") == 0
		if cfg.StreamWindow > 0 && cfg.isStream(st.C) && rapid.IntRange(0, 2).Draw(rt, "stall") == 0 {
			st.RespLost = false
			// the client stops reading in the middle of a frame while more datagrams arrive
			st.Stall = rapid.SampledFrom([]int{1, 4, 6, 6, 10, 31}).Draw(rt, "stallS")
			st.Burst = rapid.IntRange(2, 4).Draw(rt, "burst")
			st.N = rapid.IntRange(min(cfg.StreamWindow/2, 900), min(3*cfg.StreamWindow+40, 1400)).Draw(rt, "stallN")
		}
	case "Hostile":
		st.N = rapid.IntRange(0, 12).Draw(rt, "mode")
		st.Seed = rapid.Uint64Range(0, 1<<24).Draw(rt, "hseed")
		if rapid.IntRange(0, 4).Draw(rt, "stranger") == 0 {
			st.Rel = "stranger"
		}
	case "Binding":
		if rapid.IntRange(0, 3).Draw(rt, "txfrom") == 0 {
			st.TxFrom = rapid.IntRange(1, nc).Draw(rt, "txFromC")
		}
	case "Sleep":
		st.Rel = rapid.SampledFrom([]string{"", "", "alloc-", "alloc+", "perm-", "perm+", "chan-", "chan+", "alloc-", "alloc+",
			"perm^", "perm~", "chan^", "chan~", "alloc^", "alloc~"}).Draw(rt, "rel")
		if st.Rel == "" {
			st.N = rapid.OneOf(rapid.IntRange(1, 120), rapid.IntRange(1, 4000), rapid.SampledFrom([]int{1, 29, 30, 31, 59, 60, 61, 299, 300, 301, 599, 600, 601, 3600, 3660, 3720})).Draw(rt, "secs")
		} else {
			st.N = rapid.SampledFrom([]int{1, 1, 1, 2, 60}).Draw(rt, "margin")
			st.P = []int{peer("p")}
			st.Ch = rapid.IntRange(0, 2).Draw(rt, "ch")
			if rapid.IntRange(0, 1).Draw(rt, "anyEntry") == 0 {
				st.P = nil
				st.Ch = len(ChannelSlots) - 1
			}
		}
	}

	return st
}

// GenScript draws a whole script for profile p.
func GenScript(rt *rapid.T, p *Profile) *Script {
	if p.OddSometimes {
		pp := *p
		pp.Odd = rapid.IntRange(0, 2).Draw(rt, "oddCase") == 0
		p = &pp
	}
	sc := &Script{Cfg: genConfig(rt, p)}
	minS, maxS := p.MinSteps, p.MaxSteps
	if minS <= 0 {
		minS = 3
	}
	n := rapid.IntRange(minS, maxS).Draw(rt, "nsteps")
	// most histories start with the clients allocating (otherwise nearly everything is vacuous)
	if rapid.IntRange(0, 9).Draw(rt, "preAllocate") > 0 {
		for c := range sc.Cfg.Clients {
			if c == 0 || rapid.IntRange(0, 3).Draw(rt, "preAllocC") > 0 {
				life := int64(-1)
				if rapid.IntRange(0, 3).Draw(rt, "preLife") == 0 {
					life = rapid.SampledFrom([]int64{30, 60, 600, 3599, 3600}).Draw(rt, "preLifeV")
				}
				sc.Steps = append(sc.Steps, Step{Op: "Allocate", C: c, Life: life})
			}
		}
	}
	for i := 0; i < n; i++ {
		if len(p.Fragments) > 0 && !p.SlowCB && (sc.Cfg.InboundMTU == 0 || sc.Cfg.InboundMTU >= 1500) && rapid.IntRange(0, 39).Draw(rt, "crowd") == 0 {
			// a crowd of peers on one allocation: permissions for 40-150 distinct hosts, a dozen per request
			c := rapid.IntRange(0, len(sc.Cfg.Clients)-1).Draw(rt, "crowdClient")
			total := rapid.SampledFrom([]int{40, 63, 64, 65, 66, 100, 128, 129, 150}).Draw(rt, "crowdSize")
			for from := 0; from < total; from += 12 {
				var ps []int
				for k := from; k < min(from+12, total); k++ {
					ps = append(ps, FirstCrowdPeer+k)
				}
				sc.Steps = append(sc.Steps, Step{Op: "CreatePermission", C: c, P: ps, Life: -1})
			}

			continue
		}
		if len(p.Fragments) > 0 && rapid.IntRange(0, 5).Draw(rt, "frag") == 0 {
			sc.Steps = append(sc.Steps, genFragment(rt, p, &sc.Cfg)...)

			continue
		}
		sc.Steps = append(sc.Steps, genStep(rt, p, &sc.Cfg, i))
	}
	if p.Teardown {
		// every teardown history ends with the server closed and two quiet hours
		sc.Steps = append(sc.Steps, Step{Op: "CloseServer", Life: -1, N: rapid.SampledFrom([]int{0, 0, 2, 6, 20}).Draw(rt, "closeInFlight"),
			Opt: rapid.SampledFrom([]string{"", "", "relay-close-error"}).Draw(rt, "closeOpt")}, Step{Op: "Sleep", N: 7200, Life: -1})
	}

	return sc
}

// genFragment draws a structured piece of history: install, refresh part-way, probe on both
// sides of the final deadline, re-use after expiry.
func genFragment(rt *rapid.T, p *Profile, cfg *Config) []Step {
	c := rapid.IntRange(0, len(cfg.Clients)-1).Draw(rt, "fc")
	peer := rapid.IntRange(0, 2).Draw(rt, "fpeer")
	peer2 := (peer + 1 + rapid.IntRange(0, 1).Draw(rt, "fpeer2")) % 3
	if (cfg.ServerV6 || cfg.v6Client(c)) && !cfg.Strict {
		// IPv6 allocations: use the IPv6 peers (4 and 8 share an address, 7 is another host)
		v6 := []int{4, 7, 8}
		k := rapid.IntRange(0, 2).Draw(rt, "fpeer6")
		peer, peer2 = v6[k], v6[(k+1+rapid.IntRange(0, 1).Draw(rt, "fpeer62"))%3]
	}
	ch := rapid.IntRange(0, 2).Draw(rt, "fch")
	ch2 := (ch + 1) % 3
	margin := rapid.SampledFrom([]int{1, 1, 1, 2}).Draw(rt, "fmargin")
	data := func(op string) Step {
		return Step{Op: op, C: c, P: []int{peer}, Ch: ch, N: rapid.IntRange(0, 40).Draw(rt, "fn"), Seed: rapid.Uint64Range(0, 1<<16).Draw(rt, "fseed"), Life: -1}
	}
	part := func(total int) Step {
		if total < 2 {
			total = 2
		}

		return Step{Op: "Sleep", C: c, N: rapid.IntRange(1, total-1).Draw(rt, "fpart"), Life: -1}
	}
	var out []Step
	switch rapid.SampledFrom(p.Fragments).Draw(rt, "fkind") {
	case "perm":
		pt := int(cfg.permTimeout().Seconds())
		via := rapid.IntRange(0, 4).Draw(rt, "fviaBind")
		if via == 4 {
			// two permissions made by one request expire at one instant, and the refresh of one of
			// them arrives at that very instant: two expiries and a request meet at the table
			pair := [][]int{{peer, peer2}, {peer2, peer}}
			out = append(out, Step{Op: "CreatePermission", C: c, P: rapid.SampledFrom(pair).Draw(rt, "ftiePair"), Life: -1})
		} else {
			out = append(out, Step{Op: "CreatePermission", C: c, P: []int{peer}, Life: -1}, part(pt))
		}
		switch via {
		case 4:
			out = append(out, Step{Op: "CreatePermission", C: c, P: []int{peer}, Life: -1, Rel: "tie"})
		case 0:
			out = append(out, Step{Op: "CreatePermission", C: c, P: []int{peer}, Life: -1})
		case 1:
			// several peers in one request; the probed one is the last, the first or in the middle
			order := [][]int{{peer2, peer2, peer}, {peer, peer2}, {peer2, peer, (peer2 + 1) % 3}, {peer, peer2, peer2}}
			out = append(out, Step{Op: "CreatePermission", C: c, P: rapid.SampledFrom(order).Draw(rt, "fmultiOrder"), Life: -1})
		default:
			out = append(out, Step{Op: "ChannelBind", C: c, P: []int{peer}, Ch: ch, Life: -1})
		}
		before, after := "perm-", "perm+"
		if rapid.IntRange(0, 2).Draw(rt, "fedge") == 0 {
			before, after = "perm^", "perm~" // half a clock tick on either side of the deadline
		}
		out = append(out,
			Step{Op: "Sleep", C: c, Rel: before, P: []int{peer}, N: margin, Life: -1}, data("Send"), data("PeerData"),
			Step{Op: "Sleep", C: c, Rel: after, P: []int{peer}, N: margin, Life: -1}, data("Send"), data("PeerData"))
	case "chan":
		ct := int(cfg.chanTimeout().Seconds())
		out = append(out, Step{Op: "ChannelBind", C: c, P: []int{peer}, Ch: ch, Life: -1, RespLost: rapid.IntRange(0, 3).Draw(rt, "flost") == 0})
		if rapid.IntRange(0, 2).Draw(rt, "fchanTie") == 0 {
			// the bound peer talks, then the refresh arrives at the very instant the binding expires
			out = append(out, data("PeerData"), Step{Op: "ChannelBind", C: c, P: []int{peer}, Ch: ch, Life: -1, Rel: "tie"})
		} else {
			out = append(out, part(ct), Step{Op: "ChannelBind", C: c, P: []int{peer}, Ch: ch, Life: -1})
		}
		out = append(out,
			Step{Op: "Sleep", C: c, Rel: "chan-", Ch: ch, P: []int{peer}, N: margin, Life: -1}, data("ChannelData"), data("PeerData"),
			Step{Op: "Sleep", C: c, Rel: "chan+", Ch: ch, P: []int{peer}, N: margin, Life: -1}, data("ChannelData"), data("PeerData"))
		if rapid.IntRange(0, 1).Draw(rt, "frebind") == 0 {
			out = append(out, Step{Op: "ChannelBind", C: c, P: []int{peer2}, Ch: ch, Life: -1}, Step{Op: "ChannelBind", C: c, P: []int{peer}, Ch: ch2, Life: -1})
		}
	case "txpair":
		// two clients use the same transaction id for the same kind of request, seconds apart:
		// what the first one's transaction did must not decide the fate of the second one's
		c2 := (c + 1 + rapid.IntRange(0, max(len(cfg.Clients)-2, 0)).Draw(rt, "fc2")) % len(cfg.Clients)
		first := Step{Op: rapid.SampledFrom([]string{"Refresh", "Refresh", "Refresh", "CreatePermission", "ChannelBind"}).Draw(rt, "fpairOp"), C: c, P: []int{peer}, Ch: ch, Life: -1,
			TxFrom: rapid.SampledFrom([]int{0, 0, -1, -2}).Draw(rt, "fpairTx")}
		if first.Op == "Refresh" {
			first.Life = rapid.SampledFrom([]int64{0, 0, 0, 600, -1}).Draw(rt, "fpairLife")
		}
		second := first
		second.C = c2
		if first.TxFrom == 0 {
			second.TxFrom = c + 1
		}
		out = append(out, first)
		if rapid.IntRange(0, 2).Draw(rt, "fpairGap") > 0 {
			out = append(out, Step{Op: "Sleep", C: c, N: rapid.SampledFrom([]int{1, 5, 20, 39, 41}).Draw(rt, "fpairGapS"), Life: -1})
		}
		out = append(out, second)
		if first.Op == "Refresh" && first.Life == 0 && rapid.IntRange(0, 1).Draw(rt, "fpairRealloc") == 0 {
			out = append(out, Step{Op: "Allocate", C: c, Life: -1}, Step{Op: "Allocate", C: c2, Life: -1})
		}
	case "stall":
		// a stream client authorises a peer, stops reading while the peer floods it, and its
		// allocation is torn down meanwhile
		if len(cfg.Stream) > 0 {
			c = rapid.SampledFrom(cfg.Stream).Draw(rt, "fstallClient")
		}
		if rapid.IntRange(0, 2).Draw(rt, "fstallAlloc") > 0 {
			out = append(out, Step{Op: "Allocate", C: c, Life: rapid.SampledFrom([]int64{-1, -1, 30, 120, 600}).Draw(rt, "fstallLife")})
		}
		if rapid.IntRange(0, 2).Draw(rt, "fstallChan") > 0 {
			out = append(out, Step{Op: "ChannelBind", C: c, P: []int{peer}, Ch: ch, Life: -1})
		} else {
			out = append(out, Step{Op: "CreatePermission", C: c, P: []int{peer}, Life: -1})
		}
		out = append(out, Step{Op: "StallTeardown", C: c, P: []int{peer}, Life: -1, N: rapid.IntRange(40, 1200).Draw(rt, "fstallN"), Seed: rapid.Uint64Range(0, 1<<16).Draw(rt, "fstallSeed"),
			Opt: rapid.SampledFrom([]string{"refresh0", "refresh0", "expire", "expire", "close-ctrl", "chan-expire"}).Draw(rt, "fstallKind")})
	default: // alloc
		life := rapid.SampledFrom([]int64{-1, 30, 60, 600, 3599, 3600}).Draw(rt, "flife")
		life2 := rapid.SampledFrom([]int64{-1, 30, 61, 599, 3600, 86400}).Draw(rt, "flife2")
		out = append(out, Step{Op: "Allocate", C: c, Life: life})
		if rapid.IntRange(0, 1).Draw(rt, "fmanyChans") == 0 {
			// several bindings and permissions that all have to go with the allocation
			for k := 0; k < rapid.IntRange(3, 5).Draw(rt, "fnchans"); k++ {
				out = append(out, Step{Op: "ChannelBind", C: c, P: []int{k % 3}, Ch: k % 3, Life: -1})
			}
		}
		out = append(out, Step{Op: "CreatePermission", C: c, P: []int{peer}, Life: -1},
			Step{Op: "Sleep", C: c, Rel: "alloc-", N: margin, Life: -1}, Step{Op: "Refresh", C: c, Life: life2})
		if rapid.IntRange(0, 1).Draw(rt, "fretx") == 0 {
			// the answer is slow or lost: the client sends the same Refresh again a little later
			out = append(out, Step{Op: "Sleep", C: c, N: rapid.SampledFrom([]int{1, 2, 3, 7, 20}).Draw(rt, "fretxGap"), Life: -1}, Step{Op: "Refresh", C: c, Life: life2, Retx: true})
		}
		out = append(out,
			Step{Op: "Sleep", C: c, Rel: "alloc-", N: margin + 1, Life: -1}, Step{Op: "CreatePermission", C: c, P: []int{peer}, Life: -1},
			Step{Op: "Sleep", C: c, Rel: "alloc-", N: margin, Life: -1}, data("Send"), data("PeerData"),
			Step{Op: "Sleep", C: c, Rel: "alloc+", N: margin, Life: -1}, data("Send"), data("PeerData"), Step{Op: "Refresh", C: c, Life: -1},
			Step{Op: "Allocate", C: c, Life: -1}, data("Send"), data("PeerData"))
	}

	return out
}
