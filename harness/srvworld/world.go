package srvworld

import (
	"errors"
	"fmt"
	"net"
	"reflect"
	"runtime"
	"sync"
	"sync/atomic"
	"testing/synctest"
	"time"
	"unsafe"

	"github.com/pion/turn/v5"
	"github.com/pion/turn/v5/internal/allocation"
	"github.com/pion/turn/v5/internal/zzverif/ref"
	"github.com/pion/turn/v5/internal/zzverif/sim"
)

// Event is one lifecycle callback invocation.
type Event struct {
	Kind    string // AllocCreated AllocDeleted PermCreated PermDeleted ChanCreated ChanDeleted AllocError Auth
	Src     string
	Relay   string
	Peer    string
	Channel uint16
	User    string
	Time    time.Time
}

// genRes is one resource handed out by the relay address generator.
type genRes struct {
	Kind  string // udp | listener | conn
	Sock  *sim.UDPSock
	Lis   *sim.Listener
	Conn  *sim.Conn
	Step  int
	Net   string
	RPort int
}

type simGen struct {
	w          *World
	mu         sync.Mutex
	calls      int
	failed     int
	rangeFull  int // the library's own generator found no free port
	nextEven   int
	nextOdd    int
	port0Calls int
	dialDelay  time.Duration // AllocateConn takes this long (virtual) before the peer answers
	made       []*genRes
	conns      []allocation.AllocateConnConfig
	// inner, when set, is one of the library's own relay address generators (on simnet's
	// transport.Net): UDP relay sockets come from it, simGen only keeps the books
	inner turn.RelayAddressGenerator
	// innerTCP: listeners and outgoing connections come from inner as well (TCP world)
	innerTCP bool
}

// genRand is the deterministic random source handed to the library's port-range generator.
type genRand struct{ s uint64 }

func (r *genRand) next() uint64 {
	r.s += 0x9e3779b97f4a7c15
	z := r.s
	z = (z ^ (z >> 30)) * 0xbf58476d1ce4e5b9
	z = (z ^ (z >> 27)) * 0x94d049bb133111eb

	return z ^ (z >> 31)
}
func (r *genRand) Intn(n int) int { return int(r.next() % uint64(max(n, 1))) } //nolint:gosec
func (r *genRand) Uint32() uint32 { return uint32(r.next()) }                  //nolint:gosec
func (r *genRand) Uint64() uint64 { return r.next() }
func (r *genRand) GenerateString(n int, runes string) string {
	out := make([]byte, n)
	for i := range out {
		out[i] = runes[r.Intn(len(runes))]
	}

	return string(out)
}

func (g *simGen) Validate() error { return nil }

func (g *simGen) fail() bool {
	g.calls++
	if g.w.cfg.GenFailAt > 0 && g.calls == g.w.cfg.GenFailAt {
		g.failed++

		return true
	}

	return false
}

func relayIPFor(network string) net.IP {
	if network == "udp6" || network == "tcp6" {
		return RelayIP6
	}

	return RelayIP4
}

func (g *simGen) AllocatePacketConn(conf turn.AllocateListenerConfig) (net.PacketConn, net.Addr, error) {
	g.mu.Lock()
	defer g.mu.Unlock()
	if g.fail() {
		return nil, nil, errors.New("simGen: scripted failure")
	}
	ip := relayIPFor(conf.Network)
	var s *sim.UDPSock
	var err error
	if g.inner != nil {
		pc, adv, ierr := g.inner.AllocatePacketConn(conf)
		if ierr != nil {
			g.rangeFull++

			return nil, nil, ierr
		}
		us, ok := pc.(*sim.UDPSock)
		if !ok {
			return nil, nil, errors.New("simGen: the library's generator returned a foreign socket type")
		}
		g.made = append(g.made, &genRes{Kind: "udp", Sock: us, Step: g.w.stepNo, Net: conf.Network, RPort: conf.RequestedPort})

		return pc, adv, nil
	}
	if conf.RequestedPort != 0 {
		s, err = g.w.net.BindUDP(conf.Network, ip, conf.RequestedPort)
	} else {
		// ephemeral relay ports are even, so that the port after an EVEN-PORT allocation is
		// not handed to somebody else before its RESERVATION-TOKEN is used
		// ... except every third one, which is odd and comes from a range of its own (a kernel
		// hands out either parity; the probing for an even port must cope with that)
		g.port0Calls++
		for try := 0; try < 64; try++ {
			if g.port0Calls%3 == 0 {
				g.nextOdd += 2
				s, err = g.w.net.BindUDP(conf.Network, ip, 30001+g.nextOdd%8000)
			} else {
				g.nextEven += 2
				s, err = g.w.net.BindUDP(conf.Network, ip, 40000+g.nextEven%20000)
			}
			if err == nil {
				break
			}
		}
	}
	if err != nil {
		return nil, nil, err
	}
	g.made = append(g.made, &genRes{Kind: "udp", Sock: s, Step: g.w.stepNo, Net: conf.Network, RPort: conf.RequestedPort})

	return s, &net.UDPAddr{IP: ip, Port: s.Local().Port}, nil
}

func (g *simGen) AllocateListener(conf turn.AllocateListenerConfig) (net.Listener, net.Addr, error) {
	g.mu.Lock()
	defer g.mu.Unlock()
	if g.fail() {
		return nil, nil, errors.New("simGen: scripted failure")
	}
	ip := relayIPFor(conf.Network)
	if g.inner != nil && g.innerTCP {
		ln, adv, ierr := g.inner.AllocateListener(conf)
		if ierr != nil {
			g.rangeFull++

			return nil, nil, ierr
		}
		sl, ok := ln.(*sim.Listener)
		if !ok {
			return nil, nil, errors.New("simGen: the library's generator returned a foreign listener type")
		}
		g.made = append(g.made, &genRes{Kind: "listener", Lis: sl, Step: g.w.stepNo, Net: conf.Network, RPort: conf.RequestedPort})

		return ln, adv, nil
	}
	l, err := g.w.net.ListenTCPAt(conf.Network, ip, conf.RequestedPort)
	if err != nil {
		return nil, nil, err
	}
	g.made = append(g.made, &genRes{Kind: "listener", Lis: l, Step: g.w.stepNo, Net: conf.Network, RPort: conf.RequestedPort})

	return l, &net.TCPAddr{IP: ip, Port: l.TCPAddr().Port}, nil
}

func (g *simGen) AllocateConn(conf turn.AllocateConnConfig) (net.Conn, error) {
	g.mu.Lock()
	defer g.mu.Unlock()
	g.conns = append(g.conns, conf)
	if d := g.dialDelay; d > 0 {
		// a slow TCP handshake; the library holds no lock while it dials
		g.mu.Unlock()
		time.Sleep(d + 400*time.Millisecond)
		g.mu.Lock()
	}
	if g.inner != nil && g.innerTCP {
		nc, ierr := g.inner.AllocateConn(conf)
		if ierr != nil {
			return nil, ierr
		}
		sc, ok := nc.(*sim.Conn)
		if !ok {
			return nil, errors.New("simGen: the library's generator returned a foreign connection type")
		}
		g.made = append(g.made, &genRes{Kind: "conn", Conn: sc, Step: g.w.stepNo, Net: conf.Network})

		return nc, nil
	}
	la, _ := conf.LocalAddr.(*net.TCPAddr)
	ra, _ := conf.RemoteAddr.(*net.TCPAddr)
	c, err := g.w.net.DialTCPFrom(la, ra)
	if err != nil {
		return nil, err
	}
	g.made = append(g.made, &genRes{Kind: "conn", Conn: c, Step: g.w.stepNo, Net: conf.Network})

	return c, nil
}

// Client is a scripted raw TURN client (the harness speaks STUN itself).
type Client struct {
	Idx          int
	Addr         *net.UDPAddr
	Sock         *sim.UDPSock // datagram clients
	Conn         *sim.Conn    // stream clients: the control connection
	Stream       bool
	Dead         bool // control connection closed
	Stalled      bool // stream client that currently does not read its control connection
	rbuf         []byte
	User         int
	Nonce        string // latest nonce seen
	Nonce0       string // first nonce seen (for staleness probes)
	Nonce0At     time.Time
	NonceAt      time.Time
	RealmSeen    string
	LastTx       [12]byte
	AllocTx      [12]byte
	RefreshTx    [12]byte
	HasRefreshTx bool
	HasAlloc     bool
	// freshChallenge: the nonce in Nonce was issued by the very last response to this client
	freshChallenge bool
	txn            uint32
}

// World is one server world.
type World struct {
	cfg              Config
	net              *sim.Net
	log              *sim.Logger
	srv              *turn.Server
	srvSock          *sim.UDPSock
	splitNext        int // the next stream write goes out in two segments, cut here
	authEvents       atomic.Int64
	srvAddr          *net.UDPAddr
	tcpLis           *sim.Listener
	gen              *simGen
	clients          []*Client
	peers            []*sim.UDPSock
	evMu             sync.Mutex
	events           []Event
	mgrs             []*allocation.Manager
	stepNo           int
	t0               time.Time
	authSleep        time.Duration
	extraClientSocks []*sim.UDPSock
	curOp            string
	model            *Model
	closed           bool
	chanProbes       atomic.Int64
	// handlerYield > 0: the operator's permission handler takes a moment (it yields the processor
	// that many times): set while a request is sent at the very instant something expires, so that
	// the expiry gets its chance between the handler's look-up of the allocation and its use
	handlerYield atomic.Int64
	// callback bookkeeping
	cbActive int
	trace    []string
	verbose  bool
}

func (w *World) tracef(f string, a ...any) {
	if w.verbose || len(w.trace) < 400 {
		w.trace = append(w.trace, fmt.Sprintf("[%s] ", time.Now().UTC().Format("15:04:05.0000"))+fmt.Sprintf(f, a...))
	}
}

func (w *World) event(e Event) {
	e.Time = time.Now()
	w.evMu.Lock()
	w.events = append(w.events, e)
	w.cbActive++
	w.evMu.Unlock()
	if w.cfg.CallbackSleepS > 0 && (w.cfg.SlowCallback == e.Kind || w.cfg.SlowCallback == "all") && w.maySleepIn(e.Kind) {
		// +500 ms: the end of the callback never coincides with a timer armed by a request
		time.Sleep(time.Duration(w.cfg.CallbackSleepS)*time.Second + 500*time.Millisecond)
	}
	w.evMu.Lock()
	w.cbActive--
	w.evMu.Unlock()
}

func addrStr(a net.Addr) string {
	if a == nil {
		return ""
	}

	return a.String()
}

func (w *World) clientIndex(a net.Addr) int {
	s := addrStr(a)
	for _, c := range w.clients {
		if c.Addr.String() == s {
			return c.Idx
		}
	}

	return -1
}

// NewWorld builds the world for cfg (must be called inside the bubble).
func NewWorld(cfg Config, verbose bool) (*World, error) {
	w := &World{cfg: cfg, net: sim.NewNet(), log: sim.NewLogger(120), verbose: verbose, t0: time.Now()}
	w.gen = &simGen{w: w}
	if cfg.RealGenPorts > 0 {
		// the library's port-range generator over a small range: collisions are frequent, and every
		// one of them must end in a retry or a clean failure, never in a shared relay port
		inner := &turn.RelayAddressGeneratorPortRange{RelayAddress: RelayIP4, Address: RelayIP4.String(), MinPort: 41000,
			MaxPort: uint16(41000 + cfg.RealGenPorts - 1), MaxRetries: 12, Rand: &genRand{s: uint64(cfg.RealGenPorts)*7919 + uint64(len(cfg.Clients))}, Net: &sim.TNet{N: w.net}} //nolint:gosec
		if verr := inner.Validate(); verr != nil {
			return nil, verr
		}
		w.gen.inner = inner
	}
	w.model = newModel(&w.cfg)
	sip := ServerIP4
	network := "udp4"
	if cfg.ServerV6 {
		sip = ServerIP6
		network = "udp6"
	}
	w.net.SetOwnerTag("server-listener")
	var s *sim.UDPSock
	var err error
	if cfg.DualStack {
		w.net.HostIP4, w.net.HostIP6 = ServerIP4, ServerIP6
		s, err = w.net.BindUDPDual(ServerPort)
	} else {
		s, err = w.net.BindUDP(network, sip, ServerPort)
	}
	if err != nil {
		return nil, err
	}
	w.srvSock = s
	w.srvAddr = &net.UDPAddr{IP: sip, Port: ServerPort}
	w.net.SetOwnerTag("peer")
	for i, p := range PeerPool {
		if i == 6 { // IPv4-mapped form: the same endpoint as peer 2
			w.peers = append(w.peers, w.peers[2])

			continue
		}
		nw := "udp4"
		if p.IP.To4() == nil {
			nw = "udp6"
		}
		ps, err := w.net.BindUDP(nw, p.IP, p.Port)
		if err != nil {
			return nil, fmt.Errorf("peer bind %v: %w", p, err)
		}
		w.peers = append(w.peers, ps)
	}
	w.net.SetOwnerTag("client")
	for i, ci := range cfg.Clients {
		ca := ClientPool[ci%len(ClientPool)]
		c := &Client{Idx: i, Addr: &net.UDPAddr{IP: ca.IP, Port: ca.Port}, User: ca.User, Stream: cfg.isStream(i) && !cfg.ServerV6}
		if !c.Stream {
			nw := "udp4"
			if ca.IP.To4() == nil {
				nw = "udp6"
			}
			cs, err := w.net.BindUDP(nw, ca.IP, ca.Port)
			if err != nil {
				return nil, fmt.Errorf("client bind: %w", err)
			}
			c.Sock = cs
		}
		w.clients = append(w.clients, c)
	}
	w.net.SetOwnerTag("relay")

	sc := turn.ServerConfig{
		Realm:               Realm,
		LoggerFactory:       w.log,
		ChannelBindTimeout:  time.Duration(cfg.ChanTimeoutS) * time.Second,
		PermissionTimeout:   time.Duration(cfg.PermTimeoutS) * time.Second,
		AllocationLifetime:  time.Duration(cfg.AllocLifetimeS) * time.Second,
		StrictAddressFamily: cfg.Strict,
		InboundMTU:          cfg.InboundMTU,
		PacketConnConfigs: []turn.PacketConnConfig{{
			PacketConn:            s,
			RelayAddressGenerator: w.gen,
			PermissionHandler: func(clientAddr net.Addr, peerIP net.IP) bool {
				w.yieldInHandler()

				return !w.deniedCommon(time.Now(), w.clientIndex(clientAddr), peerIP)
			},
		}},
		EventHandler: turn.EventHandler{
			OnAllocationCreated: func(src, dst net.Addr, proto, user, realm string, relay net.Addr, rport int) {
				w.event(Event{Kind: "AllocCreated", Src: addrStr(src), Relay: addrStr(relay), User: user})
			},
			OnAllocationDeleted: func(src, dst net.Addr, proto, user, realm string) {
				w.event(Event{Kind: "AllocDeleted", Src: addrStr(src), User: user})
			},
			OnPermissionCreated: func(src, dst net.Addr, proto, user, realm string, relay net.Addr, peer net.IP) {
				w.event(Event{Kind: "PermCreated", Src: addrStr(src), Relay: addrStr(relay), Peer: peer.String(), User: user})
			},
			OnPermissionDeleted: func(src, dst net.Addr, proto, user, realm string, relay net.Addr, peer net.IP) {
				w.event(Event{Kind: "PermDeleted", Src: addrStr(src), Relay: addrStr(relay), Peer: peer.String(), User: user})
				// at a tie step the operator's callback takes a moment as well (real scheduling only:
				// the library holds the permission table's lock here), so that another expiry of the
				// same instant and the request queue up behind it and meet in either order
				for i := int64(0); i < 5*w.handlerYield.Load(); i++ {
					runtime.Gosched()
				}
			},
			OnChannelCreated: func(src, dst net.Addr, proto, user, realm string, relay, peer net.Addr, ch uint16) {
				w.event(Event{Kind: "ChanCreated", Src: addrStr(src), Relay: addrStr(relay), Peer: addrStr(peer), Channel: ch, User: user})
			},
			OnChannelDeleted: func(src, dst net.Addr, proto, user, realm string, relay, peer net.Addr, ch uint16) {
				w.probeChanDeleted(relay, peer)
				w.event(Event{Kind: "ChanDeleted", Src: addrStr(src), Relay: addrStr(relay), Peer: addrStr(peer), Channel: ch, User: user})
			},
			// (an operator who wants an audit trail sets this one too; its calls are only counted -
			// they are not part of the lifecycle bookkeeping)
			OnAuth: func(_, _ net.Addr, _, _, _, _ string, _ bool) { w.authEvents.Add(1) },
		},
	}
	if !cfg.NoAuth {
		sc.AuthHandler = func(ra *turn.RequestAttributes) (string, []byte, bool) {
			if w.authSleep > 0 {
				time.Sleep(w.authSleep + 300*time.Microsecond)
			}
			for _, u := range Users {
				if u.Name == ra.Username {
					if cfg.EmptyUserID {
						return "", ref.LongTermKey(u.Name, ra.Realm, u.Pass), true
					}

					return u.Name, ref.LongTermKey(u.Name, ra.Realm, u.Pass), true
				}
			}

			return "", nil, false
		}
	}
	if cfg.Quota > 0 {
		sc.QuotaHandler = func(username, realm string, src net.Addr) bool {
			return w.model.liveCountOfUser(username) < cfg.Quota
		}
	}
	anyStream := false
	for _, c := range w.clients {
		anyStream = anyStream || c.Stream
	}
	if anyStream {
		w.net.SetOwnerTag("server-listener")
		l, err := w.net.ListenTCPAt("tcp4", ServerIP4, ServerPort)
		if err != nil {
			return nil, err
		}
		w.tcpLis = l
		w.net.SetOwnerTag("relay")
		sc.ListenerConfigs = []turn.ListenerConfig{{
			Listener:              l,
			RelayAddressGenerator: w.gen,
			PermissionHandler: func(clientAddr net.Addr, peerIP net.IP) bool {
				// this listener's own policy on top of the common one
				w.yieldInHandler()

				return !w.deniedOnStream(peerIP) && !w.deniedCommon(time.Now(), w.clientIndex(clientAddr), peerIP)
			},
		}}
	}
	srv, err := turn.NewServer(sc)
	if err != nil {
		return nil, err
	}
	w.srv = srv
	w.mgrs = managersOf(srv)
	for _, c := range w.clients {
		if c.Stream {
			w.net.SetOwnerTag("client")
			conn, err := w.net.DialTCPFrom(&net.TCPAddr{IP: c.Addr.IP, Port: c.Addr.Port}, &net.TCPAddr{IP: ServerIP4, Port: ServerPort})
			w.net.SetOwnerTag("relay")
			if err != nil {
				return nil, err
			}
			c.Conn = conn
			if cfg.StreamWindow > 0 {
				conn.SetRecvWindow(cfg.StreamWindow)
			}
		}
	}

	return w, nil
}

// managersOf digs the allocation managers out of the server by type (no field names involved).
func managersOf(s *turn.Server) []*allocation.Manager {
	defer func() { _ = recover() }()
	v := reflect.ValueOf(s).Elem()
	want := reflect.TypeOf([]*allocation.Manager(nil))
	for i := 0; i < v.NumField(); i++ {
		f := v.Field(i)
		if f.Type() == want {
			return *(*[]*allocation.Manager)(unsafe.Pointer(f.UnsafeAddr())) //nolint:gosec
		}
	}

	return nil
}

// libAlloc returns the library's allocation object for client c (nil if none / not reachable).
func (w *World) libAlloc(c *Client) *allocation.Allocation {
	if len(w.mgrs) == 0 {
		return nil
	}
	if c.Stream {
		if len(w.mgrs) < 2 {
			return nil
		}

		ft := &allocation.FiveTuple{SrcAddr: c.Addr, DstAddr: w.tcpLis.Addr(), Protocol: allocation.UDP}
		if a := w.mgrs[1].GetAllocation(ft); a != nil {
			return a
		}

		// (which listener's manager holds it is the C04 stages' question; the state oracles
		// follow the allocation wherever it is)
		return w.mgrs[0].GetAllocation(ft)
	}
	ft := &allocation.FiveTuple{SrcAddr: c.Addr, DstAddr: w.srvSock.LocalAddr(), Protocol: allocation.UDP}
	if a := w.mgrs[0].GetAllocation(ft); a != nil || len(w.mgrs) < 2 {
		return a
	}

	return w.mgrs[1].GetAllocation(ft)
}

// send delivers raw to the server over the client's transport.
func (w *World) send(c *Client, raw []byte) {
	if c.Stream {
		if !c.Dead {
			if cut := w.splitNext; cut > 0 && cut < len(raw) {
				// two segments: the server reads the first before the second exists
				_, _ = c.Conn.Write(raw[:cut])
				synctest.Wait()
				raw = raw[cut:]
			}
			_, _ = c.Conn.Write(raw)
		}
		w.splitNext = 0

		return
	}
	w.splitNext = 0
	_, _ = c.Sock.WriteTo(raw, w.srvFor(c.Sock))
}

// srvFor is the server address a datagram socket uses: with a dual-stack listener IPv6 hosts
// reach it at its IPv6 address.
func (w *World) srvFor(s *sim.UDPSock) *net.UDPAddr {
	if w.cfg.DualStack && s.Local().IP.To4() == nil {
		return &net.UDPAddr{IP: ServerIP6, Port: ServerPort}
	}

	return w.srvAddr
}

// defaultFamily is the address family of an allocation requested without
// REQUESTED-ADDRESS-FAMILY (1 = IPv4, 2 = IPv6): IPv4 under StrictAddressFamily, else the
// listener's family, else (wildcard dual-stack listener) the client's.
func (w *World) defaultFamily(c *Client) int {
	switch {
	case w.cfg.Strict:
		return 1
	case w.cfg.ServerV6:
		return 2
	case w.cfg.DualStack && c.Addr.IP.To4() == nil:
		return 2
	}

	return 1
}

// Shutdown closes the server and force-closes every simnet object so that the bubble can drain.
func (w *World) Shutdown() {
	if !w.closed {
		w.closed = true
		_ = w.srv.Close()
	}
	// scripted slow callbacks are harness sleeps: let them finish before the bubble ends
	for i := 0; i < 4000 && w.callbacksActive() > 0; i++ {
		time.Sleep(time.Second)
	}
	w.net.CloseAll()
	synctest.Wait()
	for i := 0; i < 4000 && w.callbacksActive() > 0; i++ {
		time.Sleep(time.Second)
	}
}

func (c *Client) nextTx() [12]byte {
	c.txn++
	var id [12]byte
	id[0] = byte(0xC0 + c.Idx)
	id[1] = byte(c.txn >> 16)
	id[2] = byte(c.txn >> 8)
	id[3] = byte(c.txn)
	for i := 4; i < 12; i++ {
		id[i] = byte(i*17) ^ byte(c.txn)
	}

	return id
}

// ChanDeletedProbe is the payload of the datagram a bound peer sends from inside OnChannelDeleted.
var ChanDeletedProbe = []byte("zz-probe-sent-while-OnChannelDeleted-runs")

// probeChanDeleted runs inside OnChannelDeleted: the peer whose binding is being removed sends a
// datagram to the relayed address, and the callback gives the relay loop a moment (real
// scheduling, no virtual time: the caller may hold a lock). The end of the binding has been
// announced, so that datagram must never reach the client as ChannelData (observe judges it).
func (w *World) probeChanDeleted(relay, peer net.Addr) {
	if !w.cfg.ProbeChanDeleted {
		return
	}
	ra, ok1 := relay.(*net.UDPAddr)
	pa, ok2 := peer.(*net.UDPAddr)
	if !ok1 || !ok2 {
		return
	}
	for _, p := range w.peers {
		if l := p.Local(); l.Port == pa.Port && l.IP.Equal(pa.IP) {
			if _, err := p.WriteTo(ChanDeletedProbe, ra); err == nil {
				w.chanProbes.Add(1)
				for i := 0; i < 300; i++ {
					runtime.Gosched()
				}
			}

			return
		}
	}
}

func (w *World) yieldInHandler() {
	for i := int64(0); i < w.handlerYield.Load(); i++ {
		runtime.Gosched()
	}
}

// maySleepIn: a callback may sleep on the virtual clock only where the library holds no lock.
// A goroutine waiting for a mutex is not "durably blocked" for synctest, so a sleep under a lock
// that anybody else wants would freeze virtual time - a harness artefact, not a library wedge.
// OnAllocationCreated/Deleted are called without locks; OnPermissionCreated only when it comes
// from CreatePermission (from ChannelBind it runs under the allocation's channel lock).
func (w *World) maySleepIn(kind string) bool {
	switch kind {
	case "AllocCreated", "AllocDeleted":
		return true
	case "PermCreated":
		return w.curOp == "CreatePermission"
	}

	return false
}

func (w *World) callbacksActive() int {
	w.evMu.Lock()
	defer w.evMu.Unlock()

	return w.cbActive
}

// deniedAt is the operator's policy at instant `at`: with DenyAfterS the deny list only applies
// from that many seconds after the world's start (a ban introduced while permissions exist).
func (w *World) deniedAt(at time.Time, client int, ip net.IP) bool {
	if client >= 0 && client < len(w.clients) && w.clients[client].Stream && w.deniedOnStream(ip) {
		return true
	}

	return w.deniedCommon(at, client, ip)
}

// deniedCommon is the policy both listeners' handlers share.
func (w *World) deniedCommon(at time.Time, client int, ip net.IP) bool {
	if w.cfg.DenyAfterS > 0 && at.Before(w.t0.Add(time.Duration(w.cfg.DenyAfterS)*time.Second)) {
		return false
	}

	return w.cfg.denied(client, ip)
}

// deniedOnStream: the stream listener's own, additional refusals.
func (w *World) deniedOnStream(ip net.IP) bool {
	for _, d := range w.cfg.DenyStream {
		if d >= 0 && d < len(PeerPool) && PeerPool[d].IP.Equal(ip) {
			return true
		}
	}

	return false
}
