package srvworld

import (
	"fmt"
	"os"
	"strconv"
	"strings"
	"testing"
	"testing/synctest"

	"github.com/pion/turn/v5/internal/zzverif/vkit"
	"pgregory.net/rapid"
)

type tcpResult struct {
	x    *TExec
	err  error
	leak string
}

func runTCPCase(t *testing.T, sc *TScript) (res tcpResult) {
	t.Helper()
	defer func() {
		if p := recover(); p != nil {
			s := fmt.Sprint(p)
			if strings.Contains(s, "blocked goroutines remain") || strings.Contains(s, "deadlock") {
				res.leak = s

				return
			}
			panic(p)
		}
	}()
	synctest.Test(t, func(t *testing.T) { res.x, res.err = RunTCP(sc) })

	return res
}

func genTStep(rt *rapid.T, nc int, hostile bool) TStep {
	if hostile && rapid.IntRange(0, 1).Draw(rt, "hostile") == 0 {
		st := TStep{Op: "HostileStream", Life: -1}
		st.C = rapid.IntRange(0, nc-1).Draw(rt, "c")
		st.N = rapid.IntRange(0, 6).Draw(rt, "mode")
		st.Seed = rapid.Uint64Range(0, 1<<24).Draw(rt, "hseed")
		st.Cuts = rapid.SampledFrom([]int{1, 1, 2, 3, 7, 1000}).Draw(rt, "cuts")
		if rapid.IntRange(0, 5).Draw(rt, "onControl") == 0 {
			st.Side = "control"
		} else if rapid.IntRange(0, 9).Draw(rt, "acceptFault") == 0 {
			st.Side = "accept-fault"
		}

		return st
	}
	op := rapid.SampledFrom([]string{
		"Allocate", "CreatePermission", "CreatePermission", "Connect", "Connect", "Connect", "PeerConnect", "PeerConnect",
		"ConnectionBind", "ConnectionBind", "ConnectionBind", "TCPData", "TCPData", "TCPData", "TCPClose", "Sleep", "Sleep", "Refresh",
	}).Draw(rt, "op")
	st := TStep{Op: op, Life: -1}
	st.C = rapid.IntRange(0, nc-1).Draw(rt, "c")
	switch op {
	case "Allocate", "Refresh":
		st.Life = rapid.SampledFrom([]int64{-1, -1, -1, 0, 2, 5, 40, 600}).Draw(rt, "life")
		if rapid.IntRange(0, 7).Draw(rt, "ou") == 0 {
			st.U = rapid.IntRange(1, 3).Draw(rt, "u")
		}
	case "CreatePermission", "Connect":
		st.P = rapid.SampledFrom([]int{0, 0, 0, 1, 1, 2, 3}).Draw(rt, "p")
		if op == "Connect" {
			st.Mapped = rapid.IntRange(0, 3).Draw(rt, "mapped") == 0
			st.Dup = rapid.IntRange(0, 5).Draw(rt, "dupRandom") == 0
		}
		if op == "Connect" && rapid.IntRange(0, 5).Draw(rt, "slowDial") == 0 {
			st.N = rapid.SampledFrom([]int{1, 3, 10, 29, 31, 45}).Draw(rt, "dialS")
		}
		if rapid.IntRange(0, 9).Draw(rt, "ou") == 0 {
			st.U = rapid.IntRange(1, 3).Draw(rt, "u")
		}
	case "PeerConnect":
		st.P = rapid.SampledFrom([]int{0, 0, 1, 3}).Draw(rt, "p")
		st.Same = rapid.IntRange(0, 3).Draw(rt, "same") == 0
	case "ConnectionBind":
		st.P = st.C
		if rapid.IntRange(0, 5).Draw(rt, "otherOwner") == 0 {
			st.P = rapid.IntRange(0, nc-1).Draw(rt, "owner")
		}
		if rapid.IntRange(0, 7).Draw(rt, "hangup") == 0 {
			st.Side = "hangup"
		}
		st.K = rapid.SampledFrom([]int{0, 0, 0, 1, 2, -1}).Draw(rt, "k")
		st.Seed = rapid.Uint64Range(0, 1<<16).Draw(rt, "seed")
		if rapid.IntRange(0, 5).Draw(rt, "ou") == 0 {
			st.U = rapid.IntRange(1, 3).Draw(rt, "u")
		}
		st.Tie = rapid.IntRange(0, 4).Draw(rt, "bindTie") == 0
		if !st.Tie && rapid.IntRange(0, 9).Draw(rt, "bindOnCtrl") == 0 {
			st.Side = "ctrl"
		}
	case "TCPData":
		st.K = rapid.IntRange(0, 2).Draw(rt, "k")
		st.N = rapid.OneOf(rapid.IntRange(1, 64), rapid.IntRange(1, 70000)).Draw(rt, "n")
		st.Seed = rapid.Uint64Range(0, 1<<20).Draw(rt, "seed")
		st.Cuts = rapid.IntRange(1, 9).Draw(rt, "cuts")
		st.Side = rapid.SampledFrom([]string{"client", "peer", "both"}).Draw(rt, "side")
	case "TCPClose":
		st.K = rapid.IntRange(0, 2).Draw(rt, "k")
		st.Side = rapid.SampledFrom([]string{"client", "peer", "peer", "client", "control"}).Draw(rt, "side")
	case "Sleep":
		st.N = rapid.SampledFrom([]int{1, 5, 28, 29, 30, 31, 32, 60, 299, 301, 601}).Draw(rt, "secs")
	}

	return st
}

func genTScript(rt *rapid.T, maxSteps int, hostile bool) *TScript {
	sc := &TScript{}
	sc.Cfg.AllocLifetimeS = rapid.SampledFrom([]int{0, 0, 60, 600, 3600}).Draw(rt, "lifetime")
	sc.Cfg.PermTimeoutS = rapid.SampledFrom([]int{0, 0, 20, 45, 300}).Draw(rt, "perm")
	nc := rapid.IntRange(1, 3).Draw(rt, "nclients")
	sc.Cfg.Clients = rapid.Permutation([]int{0, 1, 2, 3}).Draw(rt, "pool")[:nc]
	sc.Cfg.LibStatic = rapid.IntRange(0, 3).Draw(rt, "libStatic") == 0
	sc.Cfg.PlainConns = rapid.IntRange(0, 1).Draw(rt, "plainConns") == 0
	if !sc.Cfg.LibStatic && rapid.IntRange(0, 3).Draw(rt, "genFails") == 0 {
		sc.Cfg.GenFailAt = rapid.IntRange(1, 3).Draw(rt, "genFailAt")
	}
	sc.Cfg.Deny = []int{3}
	if rapid.IntRange(0, 4).Draw(rt, "nodeny") == 0 {
		sc.Cfg.Deny = nil
	}
	for c := 0; c < nc; c++ {
		if rapid.IntRange(0, 5).Draw(rt, "pre") > 0 {
			sc.Steps = append(sc.Steps, TStep{Op: "Allocate", C: c, Life: -1}, TStep{Op: "CreatePermission", C: c, P: 0, Life: -1})
		}
	}
	n := rapid.IntRange(3, maxSteps).Draw(rt, "nsteps")
	for i := 0; i < n; i++ {
		if rapid.IntRange(0, 9).Draw(rt, "permFrag") == 0 {
			// an inbound connection half-way through the permission's life, another one just after
			// the permission has run out (nothing refreshed it): only the first is announced
			c := rapid.IntRange(0, nc-1).Draw(rt, "pfc")
			p := rapid.IntRange(0, 1).Draw(rt, "pfp")
			T := sc.Cfg.PermTimeoutS
			if T == 0 {
				T = 300
			}
			part := rapid.IntRange(1, T-1).Draw(rt, "pfPart")
			sc.Steps = append(sc.Steps, TStep{Op: "CreatePermission", C: c, P: p, Life: -1}, TStep{Op: "Sleep", N: part, Life: -1},
				TStep{Op: "PeerConnect", C: c, P: p, Life: -1}, TStep{Op: "Sleep", N: T - part + rapid.SampledFrom([]int{1, 1, 2}).Draw(rt, "pfOver"), Life: -1},
				TStep{Op: "PeerConnect", C: c, P: p, Life: -1})

			continue
		}
		if rapid.IntRange(0, 6).Draw(rt, "frag") == 0 {
			c := rapid.IntRange(0, nc-1).Draw(rt, "fc")
			p := rapid.IntRange(0, 1).Draw(rt, "fp")
			wait := rapid.SampledFrom([]int{0, 0, 1, 29, 31}).Draw(rt, "fwait")
			if rapid.Bool().Draw(rt, "finbound") {
				sc.Steps = append(sc.Steps, TStep{Op: "CreatePermission", C: c, P: p, Life: -1}, TStep{Op: "PeerConnect", C: c, P: p, Life: -1})
			} else {
				sc.Steps = append(sc.Steps, TStep{Op: "Connect", C: c, P: p, Life: -1})
			}
			if wait > 0 {
				sc.Steps = append(sc.Steps, TStep{Op: "Sleep", N: wait, Life: -1})
			}
			sc.Steps = append(sc.Steps, TStep{Op: "ConnectionBind", C: c, P: c, K: 0, Life: -1},
				TStep{Op: "TCPData", C: c, K: 0, N: rapid.IntRange(1, 3000).Draw(rt, "fn"), Seed: 5, Cuts: 3, Side: "client", Life: -1},
				TStep{Op: "TCPData", C: c, K: 0, N: rapid.IntRange(1, 3000).Draw(rt, "fn2"), Seed: 6, Cuts: 2, Side: "peer", Life: -1})

			continue
		}
		sc.Steps = append(sc.Steps, genTStep(rt, nc, hostile))
	}

	return sc
}

func c16NonTrivial(st *Stats) bool {
	neg := has(st, "tcp:bind-unknown-id") || has(st, "tcp:bind-repeated") || has(st, "tcp:bind-late") || has(st, "tcp:bind-other-user") || has(st, "tcp:connect-duplicate") || has(st, "tcp:inbound-without-permission")

	return has(st, "tcp:bind-success") && has(st, "tcp:data-client-to-peer") && has(st, "tcp:data-peer-to-client") && neg
}

type tReplay struct {
	Script   *TScript  `json:"script"`
	Findings []Finding `json:"findings,omitempty"`
	Trace    []string  `json:"trace,omitempty"`
	Log      []string  `json:"server_log_tail,omitempty"`
}

func mkTReplay(sc *TScript, res tcpResult) *tReplay {
	rf := &tReplay{Script: sc}
	if res.x != nil {
		rf.Findings, rf.Trace, rf.Log = res.x.Findings, res.x.w.trace, res.x.w.log.Lines()
	}

	return rf
}

func judgeTCP(r *vkit.Run, id string, res tcpResult) (string, string) {
	if res.err != nil {
		return "harness-error", res.err.Error()
	}
	if res.leak != "" && (id == "C15" || id == "C16") {
		if !r.IsKnown(id + ".goroutine-leak") {
			return "goroutine-leak", "after closing the server and every connection, goroutines of the bubble are still blocked: " + res.leak
		}
	}
	if res.x == nil {
		return "", ""
	}
	for i := range res.x.Findings {
		f := &res.x.Findings[i]
		if any := os.Getenv("VERIF_ANY"); any != "" && (any == "1" || any == f.Kind) {
			return f.Kind, fmt.Sprintf("step %d: %s", f.Step, f.Msg)
		}
		if !f.has(id) {
			r.Label("foreign-finding:" + strings.Join(f.Props, "+") + ":" + f.Kind)

			continue
		}
		if r.IsKnown(id + "." + f.Kind) {
			continue
		}

		return f.Kind, fmt.Sprintf("step %d: %s", f.Step, f.Msg)
	}

	return "", ""
}

func runTCPProp(t *testing.T, id string, hostile bool, nontrivial func(*Stats) bool) {
	t.Helper()
	r := vkit.Start(t, id)
	defer r.Finish()
	r.Assume("stream clients wait for each response before sending the next request (no pipelining behind a ConnectionBind request)")
	account := func(sc *TScript, res tcpResult, sample string) {
		r.Eval(1)
		if res.x == nil {
			return
		}
		for k, v := range res.x.St.Labels {
			r.LabelN(k, v)
		}
		if nontrivial(&res.x.St) {
			r.Label("case:nontrivial")
			r.NonTrivial(vkit.Hash64(sc))
			if sample != "" {
				r.Sample(sample, func() any { return sc })
			}
		}
	}
	if r.Replay != "" {
		if raw, _ := os.ReadFile(r.Replay); strings.Contains(string(raw), "\"deny_client\"") || !strings.Contains(string(raw), "\"steps\"") {
			fmt.Println("REPLAY-NOT-MINE: not a TCP-world script")

			return
		}
		var rf tReplay
		if err := vkit.LoadJSON(r.Replay, &rf); err != nil {
			t.Fatalf("cannot load replay: %v", err)
		}
		if rf.Script == nil {
			rf.Script = &TScript{}
			if err := vkit.LoadJSON(r.Replay, rf.Script); err != nil || len(rf.Script.Steps) == 0 {
				t.Fatalf("cannot load replay as a script: %v", err)
			}
		}
		res := runTCPCase(t, rf.Script)
		account(rf.Script, res, "")
		kind, msg := judgeTCP(r, id, res)
		if res.x != nil {
			for _, l := range res.x.w.trace {
				fmt.Println("  " + l)
			}
		}
		fmt.Printf("replay %s: verdict kind=%q %s\n", r.Replay, kind, msg)
		if kind != "" {
			r.Violate(kind, msg, mkTReplay(rf.Script, res))
		}

		return
	}
	for _, f := range r.RegressFiles(".json") {
		if raw, _ := os.ReadFile(f); strings.Contains(string(raw), "\"deny_client\"") || !strings.Contains(string(raw), "\"steps\"") {
			continue // another stage's regress input
		}
		var rf tReplay
		if err := vkit.LoadJSON(f, &rf); err != nil || rf.Script == nil {
			t.Fatalf("bad regress file %s: %v", f, err)
		}
		reps := 1
		if strings.Contains(f, "sched-") {
			reps = 8 // the outcome depends on which goroutine runs first at one virtual instant
		}
		if i := strings.Index(f, "/sched"); i >= 0 {
			if n, _ := strconv.Atoi(strings.SplitN(f[i+6:], "-", 2)[0]); n > 0 {
				reps = n // ... and for some the window is a few instructions wide
			}
		}
		for i := 0; i < reps; i++ {
			res := runTCPCase(t, rf.Script)
			account(rf.Script, res, "")
			if kind, msg := judgeTCP(r, id, res); kind != "" {
				r.Violate(kind, "regress "+f+": "+msg, mkTReplay(rf.Script, res))

				break
			}
		}
	}
	if r.Violations() > 0 {
		return
	}
	maxSteps := 24
	if r.Thorough() && r.Size > 0 {
		maxSteps = r.Size
	}
	r.Rapid(t, "search", 0, r.Checks, func(rt *rapid.T) {
		sc := genTScript(rt, maxSteps, hostile)
		r.Journal(sc)
		res := runTCPCase(t, sc)
		account(sc, res, "generated")
		if kind, msg := judgeTCP(r, id, res); kind != "" {
			r.NoteFail(kind, msg, mkTReplay(sc, res))
			rt.Fatalf("%s %s", id, kind)
		}
	})
}

func TestC16(t *testing.T) { runTCPProp(t, "C16", false, c16NonTrivial) }

func TestC09Stream(t *testing.T) {
	runTCPProp(t, "C09", true, func(st *Stats) bool {
		return has(st, "hostile:stream-header-grid") || has(st, "hostile:oversize-complete-frame") || has(st, "hostile:frames-then-garbage") || has(st, "hostile-on-live-control-connection") || (has(st, "tcp:allocate") && (has(st, "hostile:bit-flips") || has(st, "hostile:hostile-attribute-truncated")))
	})
}

// TestC03TCP: the ConnectionBind / Connect part of C03 (other users' valid credentials on an
// existing allocation or connection id must change nothing).
func TestC03TCP(t *testing.T) {
	runTCPProp(t, "C03", false, func(st *Stats) bool {
		return has(st, "tcp:bind-other-user") && has(st, "tcp:bind-success")
	})
}

// TestC04TCP: isolation of TCP allocations (one client's connections never affect another's).
func TestC04TCP(t *testing.T) {
	runTCPProp(t, "C04", false, func(st *Stats) bool {
		return st.Labels["tcp:allocate"] >= 2 && st.Labels["tcp:connect-success"]+st.Labels["tcp:inbound-announced"] >= 2
	})
}

// TestC10TCP: the server's end of a stream connection keeps framing after a refused ConnectionBind
// (frames written behind it in the same segment are answered) and the TCP world's other requests,
// written in arbitrary company, are each answered once.
func TestC10TCP(t *testing.T) {
	runTCPProp(t, "C10", false, func(st *Stats) bool {
		return has(st, "tcp:refused-bind-with-a-request-behind-it")
	})
}

// TestC02TCP: inbound peer connections are announced only for permitted senders, only to the owner.
func TestC02TCP(t *testing.T) {
	runTCPProp(t, "C02", false, func(st *Stats) bool {
		return has(st, "tcp:inbound-without-permission") && has(st, "tcp:inbound-announced")
	})
}

// TestC15TCP: TCP allocations release listeners and peer/data connections on every teardown, and
// the bubble drains after the server is closed.
func TestC15TCP(t *testing.T) {
	runTCPProp(t, "C15", false, func(st *Stats) bool {
		td := has(st, "teardown:expiry") || has(st, "teardown:refresh-zero") || has(st, "teardown:control-connection-close")

		return td && (has(st, "tcp:connect-success") || has(st, "tcp:inbound-announced"))
	})
}
