package srvworld

import (
	"fmt"
	"net"
	"strings"
	"testing"
	"testing/synctest"
	"time"

	"github.com/pion/turn/v5"
	"github.com/pion/turn/v5/internal/zzverif/ref"
	"github.com/pion/turn/v5/internal/zzverif/sim"
	"github.com/pion/turn/v5/internal/zzverif/vkit"
	"pgregory.net/rapid"
)

// XStep is one action of the two-transport case.
type XStep struct {
	Op string `json:"op"` // allocate | refresh0 | permit | send | hangup | sleep
	T  string `json:"t"`  // udp | tcp: which of the two clients acts
	N  int    `json:"n,omitempty"`
}

// XCase: one server address served over UDP and over TCP (two listeners, the configuration of
// every deployment that offers both), and two clients with the SAME source address and port, one
// per transport. The transport is part of the 5-tuple: they are two clients. Also the replay format.
type XCase struct {
	SharedGenerator bool    `json:"shared_generator"` // both listeners use one relay address generator value
	Handler         bool    `json:"permission_handler"`
	Steps           []XStep `json:"steps"`
	Transports      bool    `json:"c04_transports"`
}

type xResult struct {
	kind, msg string
	both      int // steps taken while both transports held an allocation
	cross     int
}

func runX(t *testing.T, c *XCase) (res xResult) {
	t.Helper()
	defer func() {
		if p := recover(); p != nil {
			s := fmt.Sprint(p)
			if strings.Contains(s, "blocked goroutines remain") || strings.Contains(s, "deadlock") {
				if res.kind == "" {
					res.kind, res.msg = "goroutine-leak", s
				}

				return
			}
			res.kind, res.msg = "panic", s
		}
	}()
	synctest.Test(t, func(t *testing.T) { res = runXInner(c) })

	return res
}

func runXInner(c *XCase) (res xResult) { //nolint:cyclop,gocyclo,maintidx
	n := sim.NewNet()
	logger := sim.NewLogger(80)
	tn := &sim.TNet{N: n}
	srvIP := net.IPv4(10, 0, 0, 1)
	usock, err := n.BindUDP("udp4", srvIP, 3478)
	if err != nil {
		return xResult{kind: "harness", msg: err.Error()}
	}
	lis, err := n.ListenTCPAt("tcp4", srvIP, 3478)
	if err != nil {
		return xResult{kind: "harness", msg: err.Error()}
	}
	gen1 := &turn.RelayAddressGeneratorStatic{RelayAddress: net.IPv4(10, 9, 0, 1), Address: "10.9.0.1", Net: tn}
	var gen2 turn.RelayAddressGenerator = gen1
	if !c.SharedGenerator {
		gen2 = &turn.RelayAddressGeneratorStatic{RelayAddress: net.IPv4(10, 9, 0, 1), Address: "10.9.0.1", Net: tn}
	}
	var ph turn.PermissionHandler
	if c.Handler {
		ph = func(net.Addr, net.IP) bool { return true }
	}
	srv, err := turn.NewServer(turn.ServerConfig{
		Realm: Realm, LoggerFactory: logger,
		AuthHandler: func(ra *turn.RequestAttributes) (string, []byte, bool) {
			return "alice", ref.LongTermKey("alice", ra.Realm, "pw"), ra.Username == "alice"
		},
		PacketConnConfigs: []turn.PacketConnConfig{{PacketConn: usock, RelayAddressGenerator: gen1, PermissionHandler: ph}},
		ListenerConfigs:   []turn.ListenerConfig{{Listener: lis, RelayAddressGenerator: gen2, PermissionHandler: ph}},
	})
	if err != nil {
		return xResult{kind: "harness", msg: err.Error()}
	}
	defer func() {
		_ = srv.Close()
		n.CloseAll()
	}()
	caddrU := &net.UDPAddr{IP: net.IPv4(10, 1, 0, 1), Port: 5000}
	caddrT := &net.TCPAddr{IP: net.IPv4(10, 1, 0, 1), Port: 5000} // the same address and port, over TCP
	csock, _ := n.BindUDP("udp4", caddrU.IP, caddrU.Port)
	peer, _ := n.BindUDP("udp4", net.IPv4(10, 2, 0, 1), 7000)
	srvU := &net.UDPAddr{IP: srvIP, Port: 3478}
	var conn *sim.Conn
	var rbuf []byte
	dial := func() {
		conn, _ = n.DialTCPFrom(caddrT, &net.TCPAddr{IP: srvIP, Port: 3478})
		rbuf = nil
	}
	dial()
	nonce := map[string]string{}
	txn := 0
	// exchange sends one request over transport t and returns the response with its transaction id
	exchange := func(t string, build func(id [12]byte) *ref.Msg) *ref.Msg {
		for attempt := 0; attempt < 2; attempt++ {
			txn++
			m := build([12]byte{byte(txn >> 8), byte(txn), t[0]})
			mm := &ref.Msg{Method: m.Method, Class: m.Class, TxID: m.TxID, Attrs: append([]ref.Attr{}, m.Attrs...)}
			raw := mm.Encode()
			if m.Class == ref.ClassRequest {
				mm.Add(ref.AttrUsername, []byte("alice"))
				mm.Add(ref.AttrRealm, []byte(Realm))
				mm.Add(ref.AttrNonce, []byte(nonce[t]))
				raw = ref.AddIntegrity(mm.Encode(), ref.LongTermKey("alice", Realm, "pw"))
			}
			var resp *ref.Msg
			if t == "udp" {
				_, _ = csock.WriteTo(raw, srvU)
				synctest.Wait()
				for {
					data, _, ok := csock.TryRead()
					if !ok {
						break
					}
					if r, perr := ref.Parse(data); perr == nil && r.TxID == m.TxID {
						resp = r
					}
				}
			} else {
				if conn == nil || conn.IsClosed() {
					return nil
				}
				_, _ = conn.Write(raw)
				synctest.Wait()
				msgs, _, _ := drainFrames(conn, &rbuf)
				for _, r := range msgs {
					if r.TxID == m.TxID {
						resp = r
					}
				}
			}
			if resp != nil && resp.Class == ref.ClassError && (resp.ErrorCode() == 401 || resp.ErrorCode() == 438) && attempt == 0 {
				if v, ok := resp.Get(ref.AttrNonce); ok {
					nonce[t] = string(v)

					continue
				}
			}

			return resp
		}

		return nil
	}
	type st struct {
		alloc  bool
		relay  *net.UDPAddr
		perm   time.Time
		expiry time.Time
	}
	model := map[string]*st{"udp": {}, "tcp": {}}
	fail := func(kind, f string, a ...any) xResult {
		r := res
		r.kind, r.msg = kind, fmt.Sprintf(f, a...)+"\n  log tail:\n    "+strings.Join(tailStr(logger.Lines(), 10), "\n    ")

		return r
	}
	other := map[string]string{"udp": "tcp", "tcp": "udp"}
	for si, step := range c.Steps {
		time.Sleep(1300 * time.Microsecond)
		now := time.Now()
		for _, m := range model {
			if m.alloc && !now.Before(m.expiry) {
				*m = st{}
			}
		}
		t := step.T
		me, them := model[t], model[other[t]]
		ctx := fmt.Sprintf("step %d (%s over %s; %s client allocated=%v)", si, step.Op, t, other[t], them.alloc)
		if me.alloc && them.alloc {
			res.both++
		}
		switch step.Op {
		case "allocate":
			resp := exchange(t, func(id [12]byte) *ref.Msg {
				m := &ref.Msg{Method: ref.MethodAllocate, Class: ref.ClassRequest, TxID: id}
				m.Add(ref.AttrRequestedTransport, []byte{17, 0, 0, 0})

				return m
			})
			ok := resp != nil && resp.Class == ref.ClassSuccess
			switch {
			case me.alloc && ok:
				return fail("second-allocate-accepted", "%s: a second Allocate on a 5-tuple that holds an allocation succeeded", ctx)
			case !me.alloc && !ok && resp != nil:
				res.cross++

				return fail("other-transport-blocks-allocate", "%s: Allocate on a 5-tuple without allocation answered with %s", ctx, respDesc(resp))
			case !me.alloc && ok:
				v, _ := resp.Get(ref.AttrXORRelayedAddress)
				ip, port, uerr := ref.UnxorAddr(v, resp.TxID)
				if uerr != nil {
					return fail("allocate-relayed-address", "%s: undecodable XOR-RELAYED-ADDRESS", ctx)
				}
				if them.alloc && them.relay.Port == port {
					return fail("relayed-address-shared", "%s: both clients were given relayed address %v:%d", ctx, ip, port)
				}
				*me = st{alloc: true, relay: &net.UDPAddr{IP: ip, Port: port}, expiry: now.Add(10 * time.Minute)}
			}
		case "refresh0":
			resp := exchange(t, func(id [12]byte) *ref.Msg {
				m := &ref.Msg{Method: ref.MethodRefresh, Class: ref.ClassRequest, TxID: id}
				m.Add(ref.AttrLifetime, ref.U32(0))

				return m
			})
			if me.alloc && (resp == nil || resp.Class != ref.ClassSuccess) {
				return fail("refresh-refused", "%s: Refresh(0) of the client's own allocation answered with %s", ctx, respDesc(resp))
			}
			if !me.alloc && resp != nil && resp.Class == ref.ClassSuccess {
				res.cross++

				return fail("refresh-reaches-other-transport", "%s: Refresh on a 5-tuple without allocation answered with success", ctx)
			}
			*me = st{}
		case "permit":
			r2 := exchange(t, func(id [12]byte) *ref.Msg {
				m := &ref.Msg{Method: ref.MethodCreatePermission, Class: ref.ClassRequest, TxID: id}
				m.Add(ref.AttrXORPeerAddress, ref.XorAddr(peer.Local().IP, peer.Local().Port, id))

				return m
			})
			ok := r2 != nil && r2.Class == ref.ClassSuccess
			if me.alloc && !ok {
				return fail("permission-refused", "%s: CreatePermission on the client's own allocation answered with %s", ctx, respDesc(r2))
			}
			if !me.alloc && ok {
				res.cross++

				return fail("permission-lands-on-other-transport", "%s: CreatePermission on a 5-tuple without allocation answered with success", ctx)
			}
			if me.alloc {
				me.perm = now.Add(5 * time.Minute)
			}
		case "send":
			txn++
			id := [12]byte{byte(txn >> 8), byte(txn), t[0], 0xBB}
			payload := []byte(fmt.Sprintf("send %d via %s", si, t))
			mm := &ref.Msg{Method: ref.MethodSend, Class: ref.ClassIndication, TxID: id}
			mm.Add(ref.AttrXORPeerAddress, ref.XorAddr(peer.Local().IP, peer.Local().Port, id))
			mm.Add(ref.AttrData, payload)
			for {
				if _, _, ok := peer.TryRead(); !ok {
					break
				}
			}
			if t == "udp" {
				_, _ = csock.WriteTo(mm.Encode(), srvU)
			} else if conn != nil && !conn.IsClosed() {
				_, _ = conn.Write(mm.Encode())
			}
			synctest.Wait()
			data, from, got := peer.TryRead()
			want := me.alloc && now.Before(me.perm)
			switch {
			case got && !want:
				res.cross++

				return fail("send-through-other-allocation", "%s: a Send indication from a client without allocation/permission was relayed to the peer from %v (the other client's relayed address is %v)", ctx, from, them.relay)
			case got && (from.Port != me.relay.Port || string(data) != string(payload)):
				return fail("send-from-wrong-relay", "%s: the peer received %q from %v, the sender's relayed address is %v", ctx, data, from, me.relay)
			case !got && want:
				return fail("send-lost", "%s: a permitted Send indication did not reach the peer", ctx)
			}
		case "hangup":
			if t != "tcp" {
				continue
			}
			if conn != nil {
				_ = conn.Close()
			}
			synctest.Wait()
			*me = st{}
			dial()
			nonce["tcp"] = ""
		case "sleep":
			time.Sleep(time.Duration(step.N) * time.Second)
		}
		synctest.Wait()
		want := 0
		for _, m := range model {
			if m.alloc && time.Now().Before(m.expiry) {
				want++
			}
		}
		if got := srv.AllocationCount(); got != want {
			return fail("allocation-count", "%s: AllocationCount() = %d, the two clients hold %d allocations", ctx, got, want)
		}
	}

	return res
}

func genX(rt *rapid.T) *XCase {
	c := &XCase{Transports: true, SharedGenerator: rapid.Bool().Draw(rt, "sharedGen"), Handler: rapid.Bool().Draw(rt, "handler")}
	for i, k := 0, rapid.IntRange(4, 24).Draw(rt, "nsteps"); i < k; i++ {
		s := XStep{T: rapid.SampledFrom([]string{"udp", "tcp"}).Draw(rt, "t")}
		s.Op = rapid.SampledFrom([]string{"allocate", "allocate", "allocate", "permit", "permit", "send", "send", "refresh0", "hangup", "sleep"}).Draw(rt, "op")
		if s.Op == "sleep" {
			s.N = rapid.SampledFrom([]int{1, 30, 299, 301, 601}).Draw(rt, "sleep")
		}
		c.Steps = append(c.Steps, s)
	}

	return c
}

func TestC04Transports(t *testing.T) {
	r := vkit.Start(t, "C04")
	defer r.Finish()
	do := func(c *XCase, sample string) (string, string) {
		r.Eval(1)
		res := runX(t, c)
		r.LabelN("transports:steps-with-both-allocated", res.both)
		if c.SharedGenerator && !c.Handler {
			r.Label("transports:shared-generator-no-handler")
		}
		if res.both > 0 {
			r.NonTrivial(vkit.Hash64(c))
			if sample != "" {
				r.Sample(sample, func() any { return c })
			}
		}
		if res.kind != "" && r.IsKnown("C04."+res.kind) {
			return "", ""
		}

		return res.kind, res.msg
	}
	if r.Replay != "" {
		var c XCase
		if err := vkit.LoadJSON(r.Replay, &c); err != nil || !c.Transports {
			fmt.Println("REPLAY-NOT-MINE: not a two-transport case")

			return
		}
		kind, msg := do(&c, "")
		fmt.Printf("replay %s: kind=%q %s\n", r.Replay, kind, msg)
		if kind != "" {
			r.Violate(kind, msg, &c)
		}

		return
	}
	r.Rapid(t, "transports", 0, r.Checks, func(rt *rapid.T) {
		c := genX(rt)
		r.Journal(c)
		kind, msg := do(c, "transports")
		if kind != "" {
			r.NoteFail(kind, msg, c)
			rt.Fatalf("C04 %s", kind)
		}
	})
}
