// Package vkit is the bookkeeping shared by all property checks: run parameters from the driver,
// case counting and classification, journaling for crash isolation, replay files, known findings
// and the rapid wrapper. It contains no oracle.
package vkit

import (
	"crypto/sha1"
	"encoding/binary"
	"encoding/json"
	"flag"
	"fmt"
	"os"
	"path/filepath"
	"runtime/debug"
	"sort"
	"strconv"
	"strings"
	"sync"
	"syscall"
	"testing"

	"pgregory.net/rapid"
)

// Violation is one reported failure of the property.
type Violation struct {
	Replay string `json:"replay"`
	Msg    string `json:"msg"`
	Kind   string `json:"kind"`
}

// Run holds the state of one shard of one check.
type Run struct {
	ID      string
	Tier    string
	Seed    int
	Shard   int
	NShards int
	Checks  int
	Size    int
	OutDir  string
	Replay  string // non-empty: replay this file instead of generating

	mu          sync.Mutex
	evals       int
	labels      map[string]int
	hashes      map[uint64]struct{}
	samples     []any
	sampleKinds map[string]int
	violations  []Violation
	known       map[string]int
	knownSigs   map[string]string
	excluded    int
	assumptions []string
	skipped     []string
	exhaustive  bool
	journal     []byte
	lastFail    *failNote
	finished    bool
}

type failNote struct {
	kind   string
	msg    string
	replay any
}

func envInt(name string, def int) int {
	v, err := strconv.Atoi(os.Getenv(name))
	if err != nil {
		return def
	}

	return v
}

// Start reads the run parameters the driver passes in the environment.
func Start(t *testing.T, id string) *Run {
	t.Helper()
	r := &Run{
		ID:          id,
		Tier:        os.Getenv("VERIF_TIER"),
		Seed:        envInt("VERIF_SEED", 1),
		Shard:       envInt("VERIF_SHARD", 0),
		NShards:     envInt("VERIF_NSHARDS", 1),
		Checks:      envInt("VERIF_CHECKS", 200),
		Size:        envInt("VERIF_SIZE", 0),
		OutDir:      os.Getenv("VERIF_OUT"),
		Replay:      os.Getenv("VERIF_REPLAY"),
		labels:      map[string]int{},
		hashes:      map[uint64]struct{}{},
		sampleKinds: map[string]int{},
		known:       map[string]int{},
		knownSigs:   map[string]string{},
	}
	if r.Tier == "" {
		r.Tier = "quick"
	}
	if r.OutDir == "" {
		r.OutDir = t.TempDir()
	}
	r.loadKnown()
	r.openJournal()

	return r
}

// Thorough reports whether the thorough tier was requested.
func (r *Run) Thorough() bool { return r.Tier == "thorough" }

// RapidSeed is the PRNG value for the n-th rapid search of this shard (never 0).
func (r *Run) RapidSeed(n int) uint64 {
	return uint64(1 + r.Seed*100000 + r.Shard*100 + n)
}

func (r *Run) loadKnown() {
	path := os.Getenv("VERIF_KNOWN")
	if path == "" {
		return
	}
	data, err := os.ReadFile(path)
	if err != nil {
		return
	}
	var kf struct {
		Findings []struct {
			Property  string `json:"property"`
			Signature string `json:"signature"`
			What      string `json:"what_fails"`
		} `json:"findings"`
	}
	if json.Unmarshal(data, &kf) != nil {
		return
	}
	for _, f := range kf.Findings {
		if f.Property == r.ID {
			r.knownSigs[f.Signature] = f.What
		}
	}
}

// IsKnown reports whether sig is a recorded known finding of this property; if so it is counted
// (the driver prints the KNOWN-FINDING line) and the caller must not report a violation for it.
func (r *Run) IsKnown(sig string) bool {
	r.mu.Lock()
	defer r.mu.Unlock()
	if _, ok := r.knownSigs[sig]; ok {
		r.known[sig]++

		return true
	}

	return false
}

// HasKnown reports whether sig is listed, without counting an occurrence.
func (r *Run) HasKnown(sig string) bool {
	_, ok := r.knownSigs[sig]

	return ok
}

// Excluded counts a case that was steered away from a known finding by construction.
func (r *Run) Excluded() {
	r.mu.Lock()
	r.excluded++
	r.mu.Unlock()
}

func (r *Run) openJournal() {
	if r.OutDir == "" {
		return
	}
	path := filepath.Join(r.OutDir, "journal.bin")
	f, err := os.OpenFile(path, os.O_RDWR|os.O_CREATE|os.O_TRUNC, 0o644)
	if err != nil {
		return
	}
	defer f.Close()
	const size = 4 << 20
	if f.Truncate(size) != nil {
		return
	}
	m, err := syscall.Mmap(int(f.Fd()), 0, size, syscall.PROT_READ|syscall.PROT_WRITE, syscall.MAP_SHARED)
	if err != nil {
		return
	}
	r.journal = m
}

// Journal records the case about to be executed so that the driver can recover it when the
// process dies (a panic in a library goroutine cannot be recovered by the harness).
func (r *Run) Journal(v any) {
	if r.journal == nil {
		return
	}
	data, err := json.Marshal(v)
	if err != nil || len(data)+8 > len(r.journal) {
		binary.LittleEndian.PutUint64(r.journal, 0)

		return
	}
	binary.LittleEndian.PutUint64(r.journal, 0)
	copy(r.journal[8:], data)
	binary.LittleEndian.PutUint64(r.journal, uint64(len(data)))
}

// Eval counts n generated cases.
func (r *Run) Eval(n int) {
	r.mu.Lock()
	r.evals += n
	r.mu.Unlock()
}

// Label counts a classification label.
func (r *Run) Label(names ...string) {
	r.mu.Lock()
	for _, n := range names {
		r.labels[n]++
	}
	r.mu.Unlock()
}

// LabelN adds n to a label.
func (r *Run) LabelN(name string, n int) {
	r.mu.Lock()
	r.labels[name] += n
	r.mu.Unlock()
}

// Hash64 hashes a canonical encoding of a case.
func Hash64(parts ...any) uint64 {
	h := sha1.New()
	for _, p := range parts {
		switch v := p.(type) {
		case []byte:
			h.Write(v)
		case string:
			h.Write([]byte(v))
		default:
			data, _ := json.Marshal(v)
			h.Write(data)
		}
		h.Write([]byte{0})
	}
	sum := h.Sum(nil)

	return binary.LittleEndian.Uint64(sum[:8])
}

// NonTrivial records a case that is non-trivial by the check's stated rule; distinctness is by
// the hash of its canonical form.
func (r *Run) NonTrivial(hash uint64) {
	r.mu.Lock()
	r.hashes[hash] = struct{}{}
	r.mu.Unlock()
}

// Sample keeps up to 3 cases per kind as written-out samples.
func (r *Run) Sample(kind string, mk func() any) {
	r.mu.Lock()
	defer r.mu.Unlock()
	if r.sampleKinds[kind] >= 2 || len(r.samples) >= 10 {
		return
	}
	r.sampleKinds[kind]++
	r.samples = append(r.samples, map[string]any{"kind": kind, "case": mk()})
}

// Assume records an assumption for the evidence file.
func (r *Run) Assume(s string) {
	r.mu.Lock()
	defer r.mu.Unlock()
	for _, a := range r.assumptions {
		if a == s {
			return
		}
	}
	r.assumptions = append(r.assumptions, s)
}

// Skipped records a sub-oracle that could not be applied.
func (r *Run) Skipped(s string) {
	r.mu.Lock()
	defer r.mu.Unlock()
	for _, a := range r.skipped {
		if a == s {
			return
		}
	}
	r.skipped = append(r.skipped, s)
}

// SetExhaustive marks that this shard enumerated its finite space completely.
func (r *Run) SetExhaustive(b bool) { r.exhaustive = b }

// SaveReplay writes a replay file for a failing case and returns its path.
func (r *Run) SaveReplay(kind string, replay any) string {
	dir := os.Getenv("VERIF_FOUND")
	if dir == "" {
		dir = filepath.Join(r.OutDir, "found")
	}
	_ = os.MkdirAll(dir, 0o755)
	data, err := json.MarshalIndent(replay, "", " ")
	if err != nil {
		data = []byte(fmt.Sprintf("%q", fmt.Sprint(replay)))
	}
	sum := sha1.Sum(data)
	name := fmt.Sprintf("%s-%x.json", sanitize(kind), sum[:6])
	path := filepath.Join(dir, name)
	_ = os.WriteFile(path, data, 0o644)

	return path
}

func sanitize(s string) string {
	var b strings.Builder
	for _, c := range s {
		switch {
		case c >= 'a' && c <= 'z', c >= 'A' && c <= 'Z', c >= '0' && c <= '9', c == '-', c == '_', c == '.':
			b.WriteRune(c)
		default:
			b.WriteByte('_')
		}
	}
	if b.Len() > 60 {
		return b.String()[:60]
	}

	return b.String()
}

// Violate records a violation found outside rapid (regress corpus, exhaustive sweeps, replay).
func (r *Run) Violate(kind, msg string, replay any) {
	path := r.SaveReplay(kind, replay)
	r.mu.Lock()
	r.violations = append(r.violations, Violation{Replay: path, Msg: msg, Kind: kind})
	r.mu.Unlock()
	fmt.Printf("VIOLATION property=%s replay=%s\n  %s\n", r.ID, path, strings.ReplaceAll(msg, "\n", "\n  "))
}

// Violations returns the number of violations recorded so far.
func (r *Run) Violations() int {
	r.mu.Lock()
	defer r.mu.Unlock()

	return len(r.violations)
}

// NoteFail is called by a rapid property just before it fails; the last note (rapid re-executes
// the minimal case last) becomes the replay file.
func (r *Run) NoteFail(kind, msg string, replay any) {
	r.mu.Lock()
	r.lastFail = &failNote{kind: kind, msg: msg, replay: replay}
	r.mu.Unlock()
}

// Rapid runs one rapid search of `checks` cases in a sub-test; a failure is shrunk by rapid and
// the minimal case (as noted by NoteFail) is written as the replay file.
// The property must draw its whole case first, then call NoteFail + rt.Fatalf on violation.
func (r *Run) Rapid(t *testing.T, name string, n int, checks int, prop func(rt *rapid.T)) bool {
	t.Helper()
	if checks <= 0 {
		return true
	}
	_ = flag.Set("rapid.checks", strconv.Itoa(checks))
	_ = flag.Set("rapid.seed", strconv.FormatUint(r.RapidSeed(n), 10))
	_ = flag.Set("rapid.nofailfile", "true")
	shrink := "20s"
	if r.Thorough() {
		shrink = "60s"
	}
	_ = flag.Set("rapid.shrinktime", shrink)
	r.mu.Lock()
	r.lastFail = nil
	r.mu.Unlock()
	ok := t.Run(name, func(t *testing.T) {
		rapid.Check(t, func(rt *rapid.T) {
			defer func() {
				if p := recover(); p != nil {
					if !isRapidStop(p) {
						r.mu.Lock()
						if r.lastFail == nil || r.lastFail.kind != "panic" {
							prev := r.lastFail
							var rep any
							if prev != nil {
								rep = prev.replay
							}
							r.lastFail = &failNote{kind: "panic", msg: fmt.Sprintf("panic: %v\n%s", p, debug.Stack()), replay: rep}
						}
						r.mu.Unlock()
					}
					panic(p)
				}
			}()
			prop(rt)
		})
	})
	if ok {
		return true
	}
	r.mu.Lock()
	lf := r.lastFail
	r.mu.Unlock()
	if lf == nil {
		lf = &failNote{kind: "unknown", msg: "rapid reported a failure without a note (see stdout)", replay: map[string]any{"seed": r.RapidSeed(n), "name": name}}
	}
	r.Violate(lf.kind, lf.msg, lf.replay)

	return false
}

func isRapidStop(p any) bool {
	s := fmt.Sprintf("%T", p)

	return strings.Contains(s, "rapid.stopTest") || strings.Contains(s, "rapid.invalidData")
}

// RegressFiles lists the committed regression inputs of this property.
func (r *Run) RegressFiles(suffix string) []string {
	dir := os.Getenv("VERIF_REGRESS")
	if dir == "" {
		return nil
	}
	m, _ := filepath.Glob(filepath.Join(dir, "*"+suffix))
	sort.Strings(m)

	return m
}

// Finish writes result.json and hashes.bin for the driver.
func (r *Run) Finish() {
	r.mu.Lock()
	defer r.mu.Unlock()
	if r.finished {
		return
	}
	r.finished = true
	res := map[string]any{
		"id":             r.ID,
		"tier":           r.Tier,
		"seed":           r.Seed,
		"shard":          r.Shard,
		"evaluations":    r.evals,
		"labels":         r.labels,
		"samples":        r.samples,
		"violations":     r.violations,
		"known":          r.known,
		"excluded_known": r.excluded,
		"assumptions":    r.assumptions,
		"skipped":        r.skipped,
		"exhaustive":     r.exhaustive,
		"nontrivial":     len(r.hashes),
	}
	data, _ := json.MarshalIndent(res, "", " ")
	_ = os.WriteFile(filepath.Join(r.OutDir, "result.json"), data, 0o644)
	hb := make([]byte, 0, 8*len(r.hashes))
	for h := range r.hashes {
		hb = binary.LittleEndian.AppendUint64(hb, h)
	}
	_ = os.WriteFile(filepath.Join(r.OutDir, "hashes.bin"), hb, 0o644)
	if r.journal != nil {
		binary.LittleEndian.PutUint64(r.journal, 0)
	}
}

// LoadJSON reads a replay/regress file into v.
func LoadJSON(path string, v any) error {
	data, err := os.ReadFile(path)
	if err != nil {
		return err
	}

	return json.Unmarshal(data, v)
}

// Mix is a fast 64-bit hash of integers (splitmix64 finaliser chained), for sweeps where sha1 per
// case would dominate.
func Mix(parts ...uint64) uint64 {
	h := uint64(0x9e3779b97f4a7c15)
	for _, p := range parts {
		h ^= p + 0x9e3779b97f4a7c15 + (h << 6) + (h >> 2)
		z := h
		z = (z ^ (z >> 30)) * 0xbf58476d1ce4e5b9
		z = (z ^ (z >> 27)) * 0x94d049bb133111eb
		h = z ^ (z >> 31)
	}

	return h
}

// MixBytes hashes a byte string (FNV-1a 64) for use with Mix.
func MixBytes(b []byte) uint64 {
	h := uint64(14695981039346656037)
	for _, c := range b {
		h ^= uint64(c)
		h *= 1099511628211
	}

	return h
}
