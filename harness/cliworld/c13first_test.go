package cliworld

import (
	"fmt"
	"net"
	"strings"
	"sync"
	"testing"
	"testing/synctest"
	"time"

	"github.com/pion/turn/v5"
	"github.com/pion/turn/v5/internal/zzverif/sim"
	"github.com/pion/turn/v5/internal/zzverif/vkit"
	"pgregory.net/rapid"
)

// FirstWritesCase: several application goroutines write to the same, so far unknown peer at the
// same moment ("concurrent writers" of C13's quantifier), round after round with a fresh peer each
// time. Whatever the interleaving, the peer gets one channel number, no number is used for two
// peers, and the socket keeps working. Also the replay format (the interleaving itself is the
// scheduler's, so a replay repeats the rounds, not the schedule).
type FirstWritesCase struct {
	Rounds      int    `json:"rounds"`
	Writers     int    `json:"writers"`
	Seed        uint64 `json:"seed"`
	SameHost    bool   `json:"same_host,omitempty"` // the fresh peers are ports of one host: the permission exists after round 0
	FirstWrites bool   `json:"c13_first_writes"`
}

type firstWritesResult struct {
	kind, msg string
	rounds    int
}

func runFirstWrites(t *testing.T, c *FirstWritesCase) (res firstWritesResult) {
	t.Helper()
	defer func() {
		if p := recover(); p != nil {
			s := fmt.Sprint(p)
			if strings.Contains(s, "blocked goroutines remain") || strings.Contains(s, "deadlock") {
				if res.kind == "" {
					res.kind, res.msg = "goroutine-stuck", "a client goroutine is still blocked after Close of the relayed socket and of the client: "+s
				}

				return
			}
			res.kind, res.msg = "panic", s
		}
	}()
	synctest.Test(t, func(t *testing.T) { res = runFirstWritesInner(c) })

	return res
}

func runFirstWritesInner(c *FirstWritesCase) (res firstWritesResult) {
	n := sim.NewNet()
	logger := sim.NewLogger(60)
	ssock, _ := n.BindUDP("udp4", net.IPv4(10, 0, 0, 1), 3478)
	csock, _ := n.BindUDP("udp4", net.IPv4(10, 1, 0, 1), 5000)
	cs := &C13Case{PermReact: []string{"ok"}, BindReact: []string{"ok"}}
	srv := &c13Server{sock: ssock, client: &net.UDPAddr{IP: net.IPv4(10, 1, 0, 1), Port: 5000}, c: cs,
		permOK: map[string]bool{}, bound: map[uint16]string{}, reqChan: map[uint16]string{}, peerChan: map[string]uint16{}, sent: map[string][][]byte{}}
	go func() {
		buf := make([]byte, 70000)
		for {
			k, _, err := ssock.ReadFrom(buf)
			if err != nil {
				return
			}
			srv.handle(append([]byte{}, buf[:k]...))
		}
	}()
	cl, err := turn.NewClient(&turn.ClientConfig{
		TURNServerAddr: "10.0.0.1:3478", Conn: csock, Net: &sim.TNet{N: n}, Username: "alice", Password: "pw", Realm: "sim.realm", LoggerFactory: logger, RTO: 100 * time.Millisecond,
	})
	if err != nil {
		return firstWritesResult{kind: "harness", msg: err.Error()}
	}
	if err := cl.Listen(); err != nil {
		return firstWritesResult{kind: "harness", msg: err.Error()}
	}
	defer func() {
		cl.Close()
		n.CloseAll()
	}()
	relay, err := cl.Allocate()
	if err != nil {
		return firstWritesResult{kind: "harness", msg: "Allocate: " + err.Error()}
	}
	defer relay.Close() //nolint:errcheck
	fail := func(kind, f string, a ...any) firstWritesResult {
		r := res
		r.kind, r.msg = kind, fmt.Sprintf(f, a...)+"\n  log tail:\n    "+strings.Join(tail(logger.Lines(), 10), "\n    ")

		return r
	}
	for round := 0; round < c.Rounds; round++ {
		peer := &net.UDPAddr{IP: net.IPv4(10, 4, byte(round>>8), byte(round)), Port: 7000}
		if c.SameHost {
			peer = &net.UDPAddr{IP: net.IPv4(10, 4, 0, 1), Port: 7000 + round}
		}
		start := make(chan struct{})
		var wg sync.WaitGroup
		errs := make([]error, c.Writers)
		for w := 0; w < c.Writers; w++ {
			wg.Add(1)
			go func() {
				defer wg.Done()
				<-start
				_, errs[w] = relay.WriteTo([]byte(fmt.Sprintf("r%d w%d s%d", round, w, c.Seed)), peer)
			}()
		}
		synctest.Wait() // every writer is parked at the gate
		close(start)
		wg.Wait()
		synctest.Wait()
		time.Sleep(50 * time.Millisecond) // the background ChannelBind(s) get their answers
		synctest.Wait()
		srv.mu.Lock()
		kind, msg := srv.kind, srv.violation
		srv.mu.Unlock()
		if kind != "" {
			return fail(kind, "round %d (%d writers to the new peer %v at once): %s", round, c.Writers, peer, msg)
		}
		for w, e := range errs {
			if e != nil {
				return fail("write-failed", "round %d: WriteTo of writer %d to %v failed: %v", round, w, peer, e)
			}
		}
		res.rounds++
	}
	// the socket still works, over the channel of the last peer or by indication
	if _, err := relay.WriteTo([]byte("after"), &net.UDPAddr{IP: net.IPv4(10, 4, 0, 1), Port: 7000}); err != nil {
		return fail("write-failed", "after %d rounds a WriteTo failed: %v", c.Rounds, err)
	}

	return res
}

func TestC13FirstWrites(t *testing.T) {
	r := vkit.Start(t, "C13")
	defer r.Finish()
	do := func(c *FirstWritesCase, sample string) (string, string) {
		r.Eval(1)
		res := runFirstWrites(t, c)
		r.LabelN("first-writes:rounds", res.rounds)
		r.LabelN("first-writes:concurrent-first-writes", res.rounds*c.Writers)
		if res.rounds > 0 && c.Writers >= 2 {
			r.NonTrivial(vkit.Hash64(c))
			if sample != "" {
				r.Sample(sample, func() any { return c })
			}
		}
		if res.kind != "" && r.IsKnown("C13."+res.kind) {
			return "", ""
		}

		return res.kind, res.msg
	}
	if r.Replay != "" {
		var c FirstWritesCase
		if err := vkit.LoadJSON(r.Replay, &c); err != nil || !c.FirstWrites {
			fmt.Println("REPLAY-NOT-MINE: not a first-writes case")

			return
		}
		kind, msg := "", ""
		for i := 0; i < 20 && kind == ""; i++ { // the interleaving is the scheduler's: repeat
			kind, msg = do(&c, "")
		}
		fmt.Printf("replay %s: kind=%q %s\n", r.Replay, kind, msg)
		if kind != "" {
			r.Violate(kind, msg, &c)
		}

		return
	}
	for _, f := range r.RegressFiles(".firstwrites.json") {
		var c FirstWritesCase
		if err := vkit.LoadJSON(f, &c); err != nil {
			t.Fatalf("bad regress file %s: %v", f, err)
		}
		for i := 0; i < 3; i++ { // the interleaving is the scheduler's
			if kind, msg := do(&c, ""); kind != "" {
				r.Violate(kind, "regress "+f+": "+msg, &c)

				break
			}
		}
	}
	if r.Violations() > 0 {
		return
	}
	r.Rapid(t, "first-writes", 0, r.Checks, func(rt *rapid.T) {
		c := &FirstWritesCase{FirstWrites: true,
			Rounds:   rapid.SampledFrom([]int{50, 100, 200}).Draw(rt, "rounds"),
			Writers:  rapid.SampledFrom([]int{2, 3, 4, 8, 16}).Draw(rt, "writers"),
			Seed:     rapid.Uint64Range(0, 1<<20).Draw(rt, "seed"),
			SameHost: rapid.Bool().Draw(rt, "sameHost"),
		}
		r.Journal(c)
		kind, msg := do(c, "first-writes")
		if kind != "" {
			r.NoteFail(kind, msg, c)
			rt.Fatalf("C13 %s", kind)
		}
	})
}
