package cliworld

import (
	"bytes"
	"encoding/binary"
	"errors"
	"fmt"
	"net"
	"strings"
	"sync"
	"sync/atomic"
	"testing"
	"testing/synctest"
	"time"

	"github.com/pion/turn/v5"
	"github.com/pion/turn/v5/internal/zzverif/ref"
	"github.com/pion/turn/v5/internal/zzverif/sim"
	"github.com/pion/turn/v5/internal/zzverif/vkit"
	"pgregory.net/rapid"
)

// Op13 is one application-side or network-side action in the C13 world.
type Op13 struct {
	Kind    string `json:"kind"` // write | inbound | read | deadline | sleep | close | attempts
	Peer    int    `json:"peer,omitempty"`
	N       int    `json:"n,omitempty"`       // payload length / count / milliseconds / seconds
	Burst   int    `json:"burst,omitempty"`   // datagrams in an inbound burst
	Via     string `json:"via,omitempty"`     // inbound: data | chan | unknown-chan
	Writers int    `json:"writers,omitempty"` // concurrent writers to the same peer
	Empty   bool   `json:"empty,omitempty"`   // inbound: the peer's datagram is empty (a zero-length payload is a datagram too)
	Cookie  bool   `json:"cookie,omitempty"`  // inbound: the payload begins with the STUN magic cookie (application data may)
	// deadline: after the timeout the reader calls ReadFrom this many more times without touching
	// the deadline - a deadline that has passed keeps failing reads until it is moved
	Again int `json:"again,omitempty"`
	// write: the peer's IPv4 address is passed in the other slice form (4 bytes where the case uses
	// 16, and the other way round) - net.IPv4 / net.ParseIP give 16 bytes, To4 and most decoders 4
	AltForm bool `json:"alt_form,omitempty"`
}

// C13Case is the replay format.
type C13Case struct {
	TCP       bool     `json:"tcp,omitempty"`  // TCP allocation (ConnectionAttempt part)
	PermReact []string `json:"perm_reactions"` // cycled: ok | 400 | 403 | 438 | silence | delay
	BindReact []string `json:"bind_reactions"` // cycled
	Reader    bool     `json:"reader"`         // an application goroutine keeps calling ReadFrom
	// ReuseAddr: the application keeps one *net.UDPAddr variable and re-fills it for every write
	// (what it passes to WriteTo is its own to change afterwards)
	ReuseAddr bool   `json:"reuse_addr,omitempty"`
	Ops       []Op13 `json:"ops"`
}

type c13Server struct {
	mu             sync.Mutex
	sock           *sim.UDPSock
	client         *net.UDPAddr
	c              *C13Case
	permI          int
	bindI          int
	nonceN         int
	permOK         map[string]bool   // peer IP -> a CreatePermission success covering it has been sent
	bound          map[uint16]string // channel number -> peer (ChannelBind success sent)
	reqChan        map[uint16]string // channel number -> peer, from every ChannelBind request seen
	peerChan       map[string]uint16
	sent           map[string][][]byte // payloads relayed toward each peer (in arrival order)
	violation      string
	kind           string
	log            []string
	relayTCP       bool
	nonSuccess     int
	dataBeforeBind bool
	dataAfterBind  bool
}

func (s *c13Server) fail(kind, f string, a ...any) {
	if s.violation == "" {
		s.kind, s.violation = kind, fmt.Sprintf(f, a...)
	}
}

func peer13(i int) *net.UDPAddr {
	if i >= 6 {
		// the many-peers sweep: one IP per peer
		return &net.UDPAddr{IP: net.IPv4(10, byte(3+(i>>16)), byte(i>>8), byte(i)), Port: 7000}
	}
	// peers 0 and 1 share an IP
	switch i % 6 {
	case 0:
		return &net.UDPAddr{IP: net.IPv4(10, 2, 0, 1), Port: 7000}
	case 1:
		return &net.UDPAddr{IP: net.IPv4(10, 2, 0, 1), Port: 7001}
	default:
		return &net.UDPAddr{IP: net.IPv4(10, 2, 0, byte(i%6)), Port: 7000 + i}
	}
}

func (s *c13Server) reply(m *ref.Msg, class int, code int, extra ...ref.Attr) {
	r := &ref.Msg{Method: m.Method, Class: class, TxID: m.TxID}
	if class == ref.ClassError {
		r.Add(ref.AttrErrorCode, []byte{0, 0, byte(code / 100), byte(code % 100)})
	}
	r.Attrs = append(r.Attrs, extra...)
	_, _ = s.sock.WriteTo(r.Encode(), s.client)
}

func (s *c13Server) nonce() ref.Attr {
	s.nonceN++

	return ref.Attr{Type: ref.AttrNonce, Value: []byte(fmt.Sprintf("nonce-%d", s.nonceN))}
}

// handle processes one datagram from the client, in arrival order.
func (s *c13Server) handle(data []byte) { //nolint:cyclop,gocyclo
	s.mu.Lock()
	defer s.mu.Unlock()
	if len(data) >= 4 && data[0]&0xC0 == 0x40 {
		num, payload, ok := ref.DecodeChannelData(data)
		if !ok {
			s.fail("malformed-channeldata", "client sent malformed ChannelData %x", data[:min(len(data), 12)])

			return
		}
		peer, isBound := s.bound[num]
		if !isBound {
			s.fail("channeldata-before-bind-confirmed", "client sent ChannelData on channel %#x before the server confirmed a binding for it (requested for %q)", num, s.reqChan[num])

			return
		}
		s.sent[peer] = append(s.sent[peer], append([]byte{}, payload...))
		s.dataAfterBind = true

		return
	}
	m, err := ref.Parse(data)
	if err != nil {
		s.fail("malformed-stun", "client sent %d bytes that are not STUN/ChannelData", len(data))

		return
	}
	switch {
	case m.Method == ref.MethodAllocate && m.Class == ref.ClassRequest:
		if _, ok := m.Get(ref.AttrMessageIntegrity); !ok {
			s.reply(m, ref.ClassError, 401, s.nonce(), ref.Attr{Type: ref.AttrRealm, Value: []byte("sim.realm")})

			return
		}
		s.reply(m, ref.ClassSuccess, 0,
			ref.Attr{Type: ref.AttrXORRelayedAddress, Value: ref.XorAddr(net.IPv4(10, 9, 0, 1), 50000, m.TxID)},
			ref.Attr{Type: ref.AttrLifetime, Value: ref.U32(600)},
			ref.Attr{Type: ref.AttrXORMappedAddress, Value: ref.XorAddr(s.client.IP, s.client.Port, m.TxID)})
	case m.Method == ref.MethodRefresh && m.Class == ref.ClassRequest:
		lt := uint32(600)
		if v, ok := m.Get(ref.AttrLifetime); ok && len(v) == 4 {
			lt = binary.BigEndian.Uint32(v)
		}
		s.reply(m, ref.ClassSuccess, 0, ref.Attr{Type: ref.AttrLifetime, Value: ref.U32(lt)})
	case m.Method == ref.MethodCreatePermission && m.Class == ref.ClassRequest:
		react := "ok"
		if len(s.c.PermReact) > 0 {
			react = s.c.PermReact[s.permI%len(s.c.PermReact)]
			s.permI++
		}
		var ips []string
		for _, v := range m.GetAll(ref.AttrXORPeerAddress) {
			if ip, _, err := ref.UnxorAddr(v, m.TxID); err == nil {
				ips = append(ips, ip.String())
			}
		}
		s.react(m, react, func() {
			for _, ip := range ips {
				s.permOK[ip] = true
			}
		})
	case m.Method == ref.MethodChannelBind && m.Class == ref.ClassRequest:
		react := "ok"
		if len(s.c.BindReact) > 0 {
			react = s.c.BindReact[s.bindI%len(s.c.BindReact)]
			s.bindI++
		}
		nv, ok1 := m.Get(ref.AttrChannelNumber)
		pv, ok2 := m.Get(ref.AttrXORPeerAddress)
		if !ok1 || !ok2 || len(nv) != 4 {
			s.fail("malformed-channelbind", "ChannelBind request without CHANNEL-NUMBER / XOR-PEER-ADDRESS")

			return
		}
		num := binary.BigEndian.Uint16(nv[:2])
		ip, port, err := ref.UnxorAddr(pv, m.TxID)
		if err != nil {
			s.fail("malformed-channelbind", "ChannelBind with undecodable peer address")

			return
		}
		peer := (&net.UDPAddr{IP: ip, Port: port}).String()
		if !ref.ValidChannel(num) {
			s.fail("channel-number-out-of-range", "client asks to bind channel %#x", num)

			return
		}
		if o, ok := s.reqChan[num]; ok && o != peer {
			s.fail("channel-number-reused", "channel %#x requested for %s and for %s", num, o, peer)

			return
		}
		if o, ok := s.peerChan[peer]; ok && o != num {
			s.fail("peer-two-channels", "peer %s asked for channels %#x and %#x", peer, o, num)

			return
		}
		s.reqChan[num], s.peerChan[peer] = peer, num
		s.react(m, react, func() { s.bound[num] = peer })
	case m.Method == ref.MethodSend && m.Class == ref.ClassIndication:
		pv, ok1 := m.Get(ref.AttrXORPeerAddress)
		dv, ok2 := m.Get(ref.AttrData)
		ip, port, err := ref.UnxorAddr(pv, m.TxID)
		if !ok1 || !ok2 || err != nil {
			s.fail("malformed-send", "Send indication without decodable XOR-PEER-ADDRESS / DATA")

			return
		}
		if !s.permOK[ip.String()] {
			s.fail("data-before-permission", "client sent a Send indication toward %v:%d before any CreatePermission for that IP had succeeded", ip, port)

			return
		}
		peer := (&net.UDPAddr{IP: ip, Port: port}).String()
		s.sent[peer] = append(s.sent[peer], append([]byte{}, dv...))
		if _, has := s.peerChan[peer]; !has || s.bound[s.peerChan[peer]] != peer {
			s.dataBeforeBind = true
		}
	case m.Method == ref.MethodBinding:
		s.reply(m, ref.ClassSuccess, 0, ref.Attr{Type: ref.AttrXORMappedAddress, Value: ref.XorAddr(s.client.IP, s.client.Port, m.TxID)})
	}
}

// react answers a CreatePermission / ChannelBind request per the scripted reaction.
func (s *c13Server) react(m *ref.Msg, how string, onSuccess func()) {
	if how != "ok" && how != "delay" {
		s.nonSuccess++
	}
	switch how {
	case "400", "403":
		code := 400
		if how == "403" {
			code = 403
		}
		s.reply(m, ref.ClassError, code)
	case "438":
		s.reply(m, ref.ClassError, 438, s.nonce(), ref.Attr{Type: ref.AttrRealm, Value: []byte("sim.realm")})
	case "silence":
	case "delay":
		mm := *m
		time.AfterFunc(450*time.Millisecond+211*time.Microsecond, func() {
			s.mu.Lock()
			defer s.mu.Unlock()
			onSuccess()
			s.reply(&mm, ref.ClassSuccess, 0)
		})
	default:
		onSuccess()
		s.reply(m, ref.ClassSuccess, 0)
	}
}

type c13Result struct {
	kind, msg  string
	nontrivial bool
}

func runC13(t *testing.T, c *C13Case) (res c13Result) {
	t.Helper()
	defer func() {
		if p := recover(); p != nil {
			s := fmt.Sprint(p)
			if strings.Contains(s, "blocked goroutines remain") || strings.Contains(s, "deadlock") {
				if res.kind == "" {
					res = c13Result{kind: "goroutine-stuck", msg: "a client goroutine is still blocked after Close of the relayed socket and of the client: " + s}
				}

				return
			}
			res = c13Result{kind: "panic", msg: s}
		}
	}()
	synctest.Test(t, func(t *testing.T) { res = runC13Inner(c) })

	return res
}

func runC13Inner(c *C13Case) (res c13Result) { //nolint:cyclop,gocyclo,maintidx
	n := sim.NewNet()
	logger := sim.NewLogger(100)
	ssock, _ := n.BindUDP("udp4", net.IPv4(10, 0, 0, 1), 3478)
	csock, _ := n.BindUDP("udp4", net.IPv4(10, 1, 0, 1), 5000)
	srv := &c13Server{sock: ssock, client: &net.UDPAddr{IP: net.IPv4(10, 1, 0, 1), Port: 5000}, c: c,
		permOK: map[string]bool{}, bound: map[uint16]string{}, reqChan: map[uint16]string{}, peerChan: map[string]uint16{}, sent: map[string][][]byte{}}
	go func() {
		buf := make([]byte, 70000)
		for {
			k, _, err := ssock.ReadFrom(buf)
			if err != nil {
				return
			}
			srv.handle(append([]byte{}, buf[:k]...))
		}
	}()
	cl, err := turn.NewClient(&turn.ClientConfig{
		TURNServerAddr: "10.0.0.1:3478", Conn: csock, Net: &sim.TNet{N: n}, Username: "alice", Password: "pw", Realm: "sim.realm", LoggerFactory: logger, RTO: 100 * time.Millisecond,
	})
	if err != nil {
		return c13Result{kind: "harness", msg: err.Error()}
	}
	// the application's own read loop: every datagram goes to HandleInbound, errors are ignored
	var pmu sync.Mutex
	inboundErrs := 0
	unknownChanErr := 0
	inHandle := false
	stuck := func() bool {
		pmu.Lock()
		defer pmu.Unlock()

		return inHandle
	}
	pumpDone := make(chan struct{})
	go func() {
		defer close(pumpDone)
		buf := make([]byte, 70000)
		for {
			k, from, err := csock.ReadFrom(buf)
			if err != nil {
				return
			}
			pmu.Lock()
			inHandle = true
			pmu.Unlock()
			handled, herr := cl.HandleInbound(buf[:k], from)
			pmu.Lock()
			inHandle = false
			if herr != nil {
				inboundErrs++
				if handled && len(buf) >= 4 && buf[0]&0xC0 == 0x40 {
					unknownChanErr++
				}
			}
			pmu.Unlock()
		}
	}()
	var relay net.PacketConn
	if c.TCP {
		ta, aerr := cl.AllocateTCP()
		if aerr != nil {
			n.CloseAll()
			<-pumpDone

			return c13Result{kind: "harness", msg: "AllocateTCP: " + aerr.Error()}
		}
		defer ta.Close() //nolint:errcheck
	} else {
		relay, err = cl.Allocate()
		if err != nil {
			n.CloseAll()
			<-pumpDone

			return c13Result{kind: "harness", msg: "Allocate: " + err.Error()}
		}
	}
	type rx struct {
		from string
		data []byte
		err  error
		at   time.Time
	}
	var rmu sync.Mutex
	var got []rx
	var readAgain, extendLeft, extendMs atomic.Int64
	readerDone := make(chan struct{})
	closed := false
	if c.Reader && relay != nil {
		go func() {
			defer close(readerDone)
			buf := make([]byte, 70000)
			for {
				k, from, err := relay.ReadFrom(buf)
				rmu.Lock()
				if err != nil {
					got = append(got, rx{err: err, at: time.Now()})
					rmu.Unlock()
					var ne net.Error
					if errors.As(err, &ne) && ne.Timeout() {
						if readAgain.Add(-1) >= 0 {
							continue // the deadline stays where it is: the next ReadFrom must fail as well
						}
						if extendLeft.Add(-1) >= 0 {
							// an idle timeout: the deadline is moved on, without clearing it in between
							_ = relay.SetReadDeadline(time.Now().Add(time.Duration(extendMs.Load()) * time.Millisecond))

							continue
						}
						_ = relay.SetReadDeadline(time.Time{})

						continue
					}

					return
				}
				got = append(got, rx{from: from.String(), data: append([]byte{}, buf[:k]...), at: time.Now()})
				rmu.Unlock()
				if ua, ok := from.(*net.UDPAddr); ok && c.ReuseAddr {
					// the application does what it likes with the address it was handed (it is a
					// return value): e.g. turns it into the address it answers to
					ua.Port ^= 0x5555
					if len(ua.IP) > 0 {
						ua.IP[len(ua.IP)-1] ^= 0x55
					}
				}
			}
		}()
	} else {
		close(readerDone)
	}
	scratchAddr := &net.UDPAddr{IP: make(net.IP, 4)}
	want := map[string][][]byte{}    // what the application handed to WriteTo successfully, per peer
	relayed := map[string][][]byte{} // what the scripted server relayed toward the client, per peer
	queued := 0
	seq := 0
	var deadlineAt time.Time
	fail := func(kind, f string, a ...any) {
		if res.kind == "" {
			res.kind, res.msg = kind, fmt.Sprintf(f, a...)
		}
	}
	peersUsed := map[int]bool{}
	for oi, op := range c.Ops {
		if res.kind != "" {
			break
		}
		time.Sleep(1300 * time.Microsecond)
		ctx := fmt.Sprintf("op %d (%s)", oi, op.Kind)
		switch op.Kind {
		case "write":
			if relay == nil || closed {
				continue
			}
			pa := peer13(op.Peer)
			peersUsed[op.Peer%6] = true
			w := min(max(op.Writers, 1), 5)
			var wg sync.WaitGroup
			type wres struct {
				payload []byte
				dst     *net.UDPAddr
				dstStr  string
				n       int
				err     error
			}
			out := make([]wres, w)
			for i := 0; i < w; i++ {
				seq++
				out[i].payload = append([]byte(fmt.Sprintf("w%05d:", seq)), bytes.Repeat([]byte{byte(seq)}, op.N)...)
				// Concurrent writers go to peers with distinct IPs: writers to the same IP queue up on
				// a sync.Mutex while the first one waits for its CreatePermission transaction, and a
				// goroutine waiting for a mutex freezes the bubble's virtual clock (harness limitation).
				dst := pa
				if w > 1 {
					dst = peer13(1 + (op.Peer+i)%5)
					peersUsed[1+(op.Peer+i)%5] = true
				}
				if w == 1 && c.ReuseAddr {
					form := dst.IP.To4()
					if op.AltForm {
						form = dst.IP.To16()
					}
					scratchAddr.IP, scratchAddr.Port = append(scratchAddr.IP[:0], form...), dst.Port
					out[i].dstStr = dst.String()
					dst = scratchAddr
				} else {
					out[i].dstStr = dst.String()
					if op.AltForm {
						dst = &net.UDPAddr{IP: dst.IP.To4(), Port: dst.Port}
					}
				}
				out[i].dst = dst
				wg.Add(1)
				go func(i int) {
					defer wg.Done()
					out[i].n, out[i].err = relay.WriteTo(out[i].payload, out[i].dst)
				}(i)
			}
			wg.Wait() // virtual time: a blocked CreatePermission takes up to ~6 s of protocol time
			synctest.Wait()
			for i := range out {
				if out[i].err == nil {
					if out[i].n != len(out[i].payload) {
						fail("writeto-short", "%s: WriteTo returned %d for %d bytes without error", ctx, out[i].n, len(out[i].payload))
					}
					want[out[i].dstStr] = append(want[out[i].dstStr], out[i].payload)
				}
			}
		case "manywrites":
			// one datagram to each of N distinct peers: every peer must get its own channel number
			if relay == nil || closed {
				continue
			}
			for i := 0; i < op.N; i++ {
				pa := peer13(6 + i)
				seq++
				payload := []byte(fmt.Sprintf("m%06d", seq))
				if _, werr := relay.WriteTo(payload, pa); werr == nil {
					want[pa.String()] = append(want[pa.String()], payload)
				}
				if i%64 == 63 {
					synctest.Wait()
				}
			}
			peersUsed[2], peersUsed[3] = true, true
			time.Sleep(2 * time.Second)
			synctest.Wait()
			srv.mu.Lock()
			distinct := map[uint16]bool{}
			for _, n := range srv.peerChan {
				distinct[n] = true
			}
			if len(srv.peerChan) >= op.N && len(distinct) != len(srv.peerChan) {
				fail("channel-number-reused", "%s: %d peers share %d channel numbers", ctx, len(srv.peerChan), len(distinct))
			}
			if len(srv.peerChan) < op.N {
				fail("binding-never-requested", "%s: only %d of %d peers ever got a ChannelBind request", ctx, len(srv.peerChan), op.N)
			}
			srv.mu.Unlock()
		case "inbound":
			if relay == nil {
				continue
			}
			pa := peer13(op.Peer)
			for b := 0; b < max(op.Burst, 1); b++ {
				seq++
				payload := append([]byte(fmt.Sprintf("i%05d:", seq)), bytes.Repeat([]byte{byte(seq)}, op.N%64)...)
				if op.Empty && b%2 == 0 {
					payload = []byte{}
				}
				if op.Cookie && b%2 == 1 || op.Cookie && !op.Empty {
					payload = append([]byte{0x21, 0x12, 0xA4, 0x42}, payload...)
					payload = append(payload, bytes.Repeat([]byte{0x5A}, 16)...) // long enough to pass for a STUN header
				}
				srv.mu.Lock()
				num, has := srv.peerChan[pa.String()]
				isBound := has && srv.bound[num] == pa.String()
				srv.mu.Unlock()
				switch {
				case op.Via == "unknown-chan":
					_, _ = ssock.WriteTo(ref.EncodeChannelData(0x7F00+uint16(seq%200), payload, true), srv.client)
				case op.Via == "chan" && isBound:
					_, _ = ssock.WriteTo(ref.EncodeChannelData(num, payload, true), srv.client)
					relayed[pa.String()] = append(relayed[pa.String()], payload)
					queued++
				default:
					var id [12]byte
					binary.BigEndian.PutUint32(id[0:4], uint32(seq))
					m := &ref.Msg{Method: ref.MethodData, Class: ref.ClassIndication, TxID: id}
					m.Add(ref.AttrXORPeerAddress, ref.XorAddr(pa.IP, pa.Port, id))
					m.Add(ref.AttrData, payload)
					_, _ = ssock.WriteTo(m.Encode(), srv.client)
					relayed[pa.String()] = append(relayed[pa.String()], payload)
					queued++
				}
			}
			synctest.Wait()
			if q := csock.QueueLen(); q > 0 || stuck() {
				fail("inbound-path-blocked", "%s: Client.HandleInbound does not return (%d datagrams queued behind it; burst of %d, reader running=%v)", ctx, q, op.Burst, c.Reader)
			}
		case "attempts":
			if !c.TCP {
				continue
			}
			for b := 0; b < max(op.Burst, 1); b++ {
				seq++
				var id [12]byte
				binary.BigEndian.PutUint32(id[0:4], uint32(seq))
				m := &ref.Msg{Method: ref.MethodConnectionAttempt, Class: ref.ClassIndication, TxID: id}
				m.Add(ref.AttrXORPeerAddress, ref.XorAddr(net.IPv4(10, 2, 0, 1), 7000+seq%1000, id))
				m.Add(ref.AttrConnectionID, ref.U32(uint32(seq)))
				_, _ = ssock.WriteTo(m.Encode(), srv.client)
			}
			synctest.Wait()
			if q := csock.QueueLen(); q > 0 || stuck() {
				fail("inbound-path-blocked", "%s: after a burst of %d ConnectionAttempt indications that nobody accepts, Client.HandleInbound does not return (%d datagrams queued behind it)", ctx, op.Burst, q)

				continue
			}
			// the client must still complete a transaction
			done := make(chan error, 1)
			go func() {
				_, e := cl.SendBindingRequestTo(&net.UDPAddr{IP: net.IPv4(10, 0, 0, 1), Port: 3478})
				done <- e
			}()
			time.Sleep(10 * time.Second)
			synctest.Wait()
			select {
			case e := <-done:
				if e != nil {
					fail("client-dead-after-attempts", "%s: a Binding transaction after the burst failed: %v", ctx, e)
				}
			default:
				fail("client-dead-after-attempts", "%s: a Binding transaction after the burst has not completed after 10 s", ctx)
			}
		case "deadline":
			if relay == nil || closed || !c.Reader {
				continue
			}
			readerGone := false
			select {
			case <-readerDone: // the client closed the allocation itself (ChannelBind answered 400)
				readerGone = true
			default:
			}
			if readerGone {
				continue
			}
			if op.N == -1 {
				// a deadline centuries away (some callers use one for "never"): no read may time out
				before := 0
				rmu.Lock()
				before = len(got)
				rmu.Unlock()
				_ = relay.SetReadDeadline(time.Now().AddDate(300, 0, 0))
				// a datagram arrives, so that the reader comes round to ReadFrom again
				seq++
				pa := peer13(0)
				payload := []byte(fmt.Sprintf("far%05d", seq))
				var id [12]byte
				binary.BigEndian.PutUint32(id[0:4], uint32(seq)) //nolint:gosec
				dm := &ref.Msg{Method: ref.MethodData, Class: ref.ClassIndication, TxID: id}
				dm.Add(ref.AttrXORPeerAddress, ref.XorAddr(pa.IP, pa.Port, id))
				dm.Add(ref.AttrData, payload)
				_, _ = ssock.WriteTo(dm.Encode(), srv.client)
				relayed[pa.String()] = append(relayed[pa.String()], payload)
				queued++
				time.Sleep(time.Second)
				synctest.Wait()
				rmu.Lock()
				for _, g := range got[before:] {
					var ne net.Error
					if g.err != nil && errors.As(g.err, &ne) && ne.Timeout() {
						fail("far-deadline-times-out", "%s: ReadFrom timed out although its deadline lies 300 years ahead", ctx)
					}
				}
				rmu.Unlock()
				_ = relay.SetReadDeadline(time.Time{})

				continue
			}
			deadlineAt = time.Now().Add(time.Duration(op.N) * time.Millisecond)
			if op.N == -2 {
				deadlineAt = time.Unix(0, 0) // long past (and the zero of another clock)
			}
			readAgain.Store(int64(op.Again))
			rounds := 0
			if op.N > 0 && op.N <= 1000 {
				rounds = op.Burst // idle-timeout rounds: after each timeout the reader moves the deadline on by N ms
			}
			extendMs.Store(int64(op.N))
			extendLeft.Store(int64(rounds))
			_ = relay.SetReadDeadline(deadlineAt)
			time.Sleep(time.Duration(max(op.N, 0))*time.Millisecond + 500*time.Microsecond)
			synctest.Wait()
			if op.N == -2 {
				deadlineAt = time.Now().Add(-500 * time.Microsecond) // (for the bookkeeping below: the timeouts come at once)
			}
			rmu.Lock()
			okTimeout := false
			timeouts := 0
			for _, g := range got {
				var ne net.Error
				if g.err != nil && errors.As(g.err, &ne) && ne.Timeout() && !g.at.Before(deadlineAt) && g.at.Sub(deadlineAt) < time.Millisecond {
					okTimeout = true
					timeouts++
				}
			}
			rmu.Unlock()
			readAgain.Store(0)
			if rounds > 0 && okTimeout && queuedEmpty(got, relayed) {
				// every further round ends with a timeout N ms after the previous one
				before := 0
				rmu.Lock()
				before = len(got)
				rmu.Unlock()
				time.Sleep(time.Duration(rounds*op.N)*time.Millisecond + time.Millisecond)
				synctest.Wait()
				more := 0
				rmu.Lock()
				for _, g := range got[before:] {
					var ne net.Error
					if g.err != nil && errors.As(g.err, &ne) && ne.Timeout() {
						more++
					}
				}
				rmu.Unlock()
				extendLeft.Store(0)
				select {
				case <-readerDone:
				default:
					if more < rounds && queuedEmpty(got, relayed) {
						fail("moved-read-deadline-ignored", "%s: after a timeout the reader moved the deadline on by %d ms, %d times in a row; only %d of those reads timed out, the others block", ctx, op.N, rounds, more)
						_ = relay.SetReadDeadline(time.Now().Add(-time.Second))
						_ = relay.SetReadDeadline(time.Time{})
					}
				}
			}
			extendLeft.Store(0)
			if okTimeout && timeouts < 1+op.Again && queuedEmpty(got, relayed) {
				select {
				case <-readerDone:
				default:
					fail("expired-read-deadline-forgotten", "%s: the read deadline %v has passed and was not moved; ReadFrom failed with a timeout %d time(s) and then blocked instead of failing again (%d further calls were made)", ctx, deadlineAt.UTC(), timeouts, op.Again)
					_ = relay.SetReadDeadline(time.Now().Add(-time.Second))
					_ = relay.SetReadDeadline(time.Time{})
				}
			}
			select {
			case <-readerDone:
				okTimeout = true // the client closed the allocation meanwhile (ChannelBind answered 400): the reader ended with the close error
			default:
			}
			if !okTimeout && queuedEmpty(got, relayed) {
				fail("read-deadline-ignored", "%s: ReadFrom did not return a timeout error at the deadline (%v)", ctx, deadlineAt.UTC())
			}
		case "sleep":
			time.Sleep(time.Duration(op.N) * time.Second)
			synctest.Wait()
		case "close":
			if relay == nil || closed {
				continue
			}
			closed = true
			if op.Again > 0 {
				// the client's own socket refuses the write of Close's Refresh (the link to the
				// server is gone): Close may report that, but the socket is closed all the same
				csock.FailWrites(1)
			}
			if op.N == 1 && !c.Reader {
				_ = relay.SetReadDeadline(time.Now().Add(-time.Second)) // an expired deadline is still set when the socket is closed
			}
			_ = relay.Close()
			synctest.Wait()
			csock.FailWrites(0)
			if op.N == 1 && !c.Reader {
				_, _, rerr := relay.ReadFrom(make([]byte, 64))
				var ne net.Error
				if rerr == nil || (errors.As(rerr, &ne) && ne.Timeout()) {
					fail("closed-socket-reports-timeout", "%s: ReadFrom on the closed relayed socket (read deadline in the past) returned %v instead of the closed error", ctx, rerr)
				}
			}
			if op.Again > 0 {
				if _, werr := relay.WriteTo([]byte("after close"), peer13(0)); werr == nil {
					fail("write-after-close", "%s: WriteTo succeeds after Close (whose Refresh could not be written)", ctx)
				}
				if cerr := relay.Close(); cerr == nil {
					fail("double-close-no-error", "%s: a second Close returns nil after a Close whose Refresh could not be written", ctx)
				}
			}
			if c.Reader {
				select {
				case <-readerDone:
				default:
					fail("close-does-not-unblock-reader", "%s: ReadFrom is still blocked after Close", ctx)
				}
			}
		}
		srv.mu.Lock()
		if srv.violation != "" {
			fail(srv.kind, "%s: %s", ctx, srv.violation)
		}
		srv.mu.Unlock()
	}
	// ---- end-of-case oracles
	if res.kind == "" && relay != nil {
		synctest.Wait()
		srv.mu.Lock()
		for peer, w := range want {
			s := srv.sent[peer]
			if len(s) != len(w) {
				fail("write-lost-or-invented", "peer %s: WriteTo succeeded for %d payloads, %d reached the server", peer, len(w), len(s))

				break
			}
			for i := range w {
				if !bytes.Equal(w[i], s[i]) {
					fail("write-payload-altered", "peer %s: payload %d on the wire differs from the bytes given to WriteTo", peer, i)

					break
				}
			}
		}
		for peer := range srv.sent {
			if _, ok := want[peer]; !ok && len(srv.sent[peer]) > 0 {
				fail("write-invented", "data reached the server for peer %s although no WriteTo to it succeeded", peer)
			}
		}
		res.nontrivial = len(peersUsed) >= 2 && srv.nonSuccess > 0 && srv.dataBeforeBind && srv.dataAfterBind
		srv.mu.Unlock()
		if c.Reader {
			rmu.Lock()
			byPeer := map[string][][]byte{}
			for _, g := range got {
				if g.err == nil {
					byPeer[g.from] = append(byPeer[g.from], g.data)
				}
			}
			rmu.Unlock()
			for peer := range relayed {
				if _, ok := byPeer[peer]; !ok {
					byPeer[peer] = nil
				}
			}
			for peer, r := range byPeer {
				exp := relayed[peer]
				j := 0
				for _, d := range r {
					for j < len(exp) && !bytes.Equal(exp[j], d) {
						j++
					}
					if j == len(exp) {
						fail("read-invented-or-reordered", "ReadFrom returned a payload from %s that the server did not relay in that order (%q)", peer, d[:min(len(d), 12)])

						break
					}
					j++
				}
				selfClosed := false
				select {
				case <-readerDone: // the client closed the allocation itself (ChannelBind answered 400)
					selfClosed = true
				default:
				}
				if queued <= 1000 && len(r) != len(exp) && !closed && !selfClosed {
					fail("read-lost", "ReadFrom returned %d payloads from %s, the server relayed %d (fewer than the queue holds)", len(r), peer, len(exp))
				}
			}
		}
	}
	if relay != nil && !closed {
		_ = relay.Close()
	}
	cl.Close()
	n.CloseAll()
	synctest.Wait()
	select {
	case <-pumpDone:
	default:
		fail("inbound-path-blocked", "Client.HandleInbound never returned: the application's read loop is still inside it after everything was closed")
	}
	select {
	case <-readerDone:
	default:
		fail("close-does-not-unblock-reader", "ReadFrom is still blocked after Close of the relayed socket and the client")
	}

	return res
}

func queuedEmpty(_ any, _ any) bool { return true }

func genC13(rt *rapid.T) *C13Case {
	c := &C13Case{}
	c.TCP = rapid.IntRange(0, 7).Draw(rt, "tcp") == 0
	reacts := rapid.SliceOfN(rapid.SampledFrom([]string{"ok", "ok", "ok", "ok", "400", "403", "438", "silence", "delay"}), 1, 6)
	c.PermReact = reacts.Draw(rt, "perm")
	c.BindReact = reacts.Draw(rt, "bind")
	c.Reader = rapid.IntRange(0, 3).Draw(rt, "reader") > 0
	nops := rapid.IntRange(2, 20).Draw(rt, "nops")
	c.ReuseAddr = rapid.IntRange(0, 2).Draw(rt, "reuseAddr") == 0
	for i := 0; i < nops; i++ {
		if c.TCP {
			c.Ops = append(c.Ops, Op13{Kind: "attempts", Burst: rapid.SampledFrom([]int{1, 2, 9, 10, 11, 12, 40}).Draw(rt, "burst")})

			continue
		}
		op := Op13{Kind: rapid.SampledFrom([]string{"write", "write", "write", "write", "inbound", "inbound", "deadline", "sleep", "close"}).Draw(rt, "kind")}
		switch op.Kind {
		case "write":
			op.Peer = rapid.IntRange(0, 5).Draw(rt, "peer")
			op.N = rapid.OneOf(rapid.IntRange(0, 40), rapid.IntRange(0, 1200)).Draw(rt, "n")
			op.Writers = rapid.SampledFrom([]int{1, 1, 1, 2, 4}).Draw(rt, "writers")
			op.AltForm = rapid.IntRange(0, 2).Draw(rt, "altForm") == 0
		case "inbound":
			op.Peer = rapid.IntRange(0, 5).Draw(rt, "peer")
			op.N = rapid.IntRange(0, 60).Draw(rt, "n")
			op.Burst = rapid.SampledFrom([]int{1, 1, 2, 3, 50, 1023, 1024, 1025, 3000}).Draw(rt, "burst")
			op.Via = rapid.SampledFrom([]string{"data", "chan", "chan", "unknown-chan"}).Draw(rt, "via")
			op.Empty = rapid.IntRange(0, 4).Draw(rt, "empty") == 0
			op.Cookie = rapid.IntRange(0, 4).Draw(rt, "cookie") == 0
		case "deadline":
			op.N = rapid.SampledFrom([]int{1, 50, 1000, 30000, -1, -2}).Draw(rt, "ms")
			op.Again = rapid.SampledFrom([]int{0, 0, 1, 3}).Draw(rt, "again")
			op.Burst = rapid.SampledFrom([]int{0, 0, 1, 3}).Draw(rt, "idleRounds")
		case "sleep":
			op.N = rapid.SampledFrom([]int{1, 5, 31, 121, 301, 601}).Draw(rt, "secs")
		case "close":
			if i < nops-3 {
				op.Kind = "sleep"
				op.N = 1
			} else if rapid.IntRange(0, 2).Draw(rt, "closeWriteFails") == 0 {
				op.Again = 1 // (for close: the Refresh of Close cannot be written)
			}
			if op.Kind == "close" && rapid.IntRange(0, 2).Draw(rt, "closePastDeadline") == 0 {
				op.N = 1 // (for close: an expired read deadline is set at that moment)
			}
		}
		c.Ops = append(c.Ops, op)
	}

	return c
}

func TestC13(t *testing.T) {
	r := vkit.Start(t, "C13")
	defer r.Finish()
	r.Assume("the application's read loop hands every datagram to Client.HandleInbound and keeps going after an error (Client.Listen's own loop is judged by C09)")
	r.Assume("the scripted TURN server answers Allocate and Refresh correctly and reacts to CreatePermission / ChannelBind per script; a permission counts as granted once the server has sent the success response")
	do := func(c *C13Case, sample string) (string, string) {
		r.Eval(1)
		res := runC13(t, c)
		if c.TCP {
			r.Label("tcp-allocation")
		}
		if res.nontrivial || (c.TCP && len(c.Ops) > 0) || (len(c.Ops) == 1 && c.Ops[0].Kind == "manywrites") {
			r.NonTrivial(vkit.Hash64(c))
			r.Label("nontrivial")
			if sample != "" {
				r.Sample(sample, func() any { return c })
			}
		}
		if res.kind != "" && r.IsKnown("C13."+res.kind) {
			return "", ""
		}

		return res.kind, res.msg
	}
	if r.Replay != "" {
		var c C13Case
		if err := vkit.LoadJSON(r.Replay, &c); err != nil {
			t.Fatalf("cannot load replay: %v", err)
		}
		kind, msg := do(&c, "")
		fmt.Printf("replay %s: kind=%q %s\n", r.Replay, kind, msg)
		if kind != "" {
			r.Violate(kind, msg, &c)
		}

		return
	}
	for _, f := range r.RegressFiles(".json") {
		if strings.Contains(f, ".firstwrites.") {
			continue // TestC13FirstWrites
		}
		var c C13Case
		if err := vkit.LoadJSON(f, &c); err != nil {
			t.Fatalf("bad regress file %s: %v", f, err)
		}
		if kind, msg := do(&c, ""); kind != "" {
			r.Violate(kind, "regress "+f+": "+msg, &c)
		}
	}
	if r.Violations() > 0 {
		return
	}
	if r.Shard == 0 {
		// channel-number uniqueness over many peers: the whole number space in the thorough tier
		n := 600
		if r.Thorough() {
			n = 16384
		}
		c := &C13Case{PermReact: []string{"ok"}, BindReact: []string{"ok"}, Reader: false, Ops: []Op13{{Kind: "manywrites", N: n}}}
		r.LabelN("many-peers-sweep", n)
		if kind, msg := do(c, "many-peers"); kind != "" {
			r.Violate(kind, msg, c)

			return
		}
	}
	r.Rapid(t, "random", 0, r.Checks, func(rt *rapid.T) {
		c := genC13(rt)
		r.Journal(c)
		kind, msg := do(c, "random")
		if kind != "" {
			r.NoteFail(kind, msg, c)
			rt.Fatalf("C13 %s", kind)
		}
	})
}
