package cliworld

import (
	"bytes"
	"fmt"
	"net"
	"strings"
	"sync"
	"testing"
	"testing/synctest"
	"time"

	"github.com/pion/turn/v5"
	"github.com/pion/turn/v5/internal/zzverif/sim"
	"github.com/pion/turn/v5/internal/zzverif/vkit"
	"pgregory.net/rapid"
)

// Datagram05 is one application datagram in a C05 end-to-end case.
type Datagram05 struct {
	Peer   int    `json:"peer"`
	N      int    `json:"n"`
	Seed   uint64 `json:"seed"`
	ToPeer bool   `json:"to_peer"`         // client -> peer (else peer -> client)
	Other  bool   `json:"other,omitempty"` // peer -> client from the peer host's other port (Data indication, no channel)
	Frame  string `json:"frame,omitempty"` // "" | chandata | stun: the payload itself looks like a TURN frame
	Pause  int    `json:"pause,omitempty"` // ms of quiet before it
}

// C05StreamCase: pion's own client talks to pion's own server over a stream transport (TCP in
// simnet, STUNConn on both ends) and relays datagrams of every length in both directions, over
// Send/Data indications first and ChannelData once the bindings stand. Every datagram arrives
// exactly once, byte-identical, attributed to its sender. Also the replay format.
type C05StreamCase struct {
	Datagrams []Datagram05 `json:"datagrams"`
	E2EStream bool         `json:"c05_stream_e2e"`
	// V6: an IPv6 allocation (IPv6 relay, IPv6 peers) on a server whose InboundMTU admits the largest
	// datagrams: lengths up to 65507 can then be relayed whole - or must be refused, never mangled
	V6 bool `json:"v6,omitempty"`
	// Writers > 0: after the datagrams above, that many application goroutines write to the three
	// peers at the same time (six datagrams each), over a transport whose receiver takes Window
	// bytes at a time (0 = no limit) - a Write call's bytes then leave in several pieces
	Writers int `json:"writers,omitempty"`
	Window  int `json:"window,omitempty"`
}

type c05sResult struct {
	kind, msg   string
	delivered   int
	viaChannels int
	refused     int
	dropped     int
	concurrent  int
}

func payload05(d *Datagram05) []byte {
	b := make([]byte, d.N)
	x := d.Seed*2654435761 | 1
	for i := range b {
		x ^= x << 13
		x ^= x >> 7
		x ^= x << 17
		b[i] = byte(x)
	}
	switch d.Frame {
	case "chandata":
		if d.N >= 4 {
			b[0], b[1], b[2], b[3] = 0x40, 0x00, byte((d.N-4)>>8), byte(d.N-4)
		}
	case "stun":
		if d.N >= 20 {
			b[0], b[1], b[2], b[3] = 0x00, 0x01, byte((d.N-20)>>8), byte(d.N-20)
			b[4], b[5], b[6], b[7] = 0x21, 0x12, 0xA4, 0x42
		}
	}

	return b
}

func runC05Stream(t *testing.T, c *C05StreamCase) (res c05sResult) {
	t.Helper()
	defer func() {
		if p := recover(); p != nil {
			s := fmt.Sprint(p)
			if strings.Contains(s, "blocked goroutines remain") || strings.Contains(s, "deadlock") {
				if res.kind == "" {
					res.kind, res.msg = "goroutine-stuck", "goroutines remain blocked after client, server and every socket were closed: "+s
				}

				return
			}
			res.kind, res.msg = "panic", s
		}
	}()
	synctest.Test(t, func(t *testing.T) { res = runC05StreamInner(c) })

	return res
}

func runC05StreamInner(c *C05StreamCase) (res c05sResult) { //nolint:cyclop
	n := sim.NewNet()
	logger := sim.NewLogger(60)
	tn := &sim.TNet{N: n}
	lis, err := n.ListenTCPAt("tcp4", net.IPv4(10, 0, 0, 1), 3478)
	if err != nil {
		return c05sResult{kind: "harness", msg: err.Error()}
	}
	relayIP, relayListen, family, mtu := net.IPv4(10, 9, 0, 1), "10.9.0.1", turn.RequestedAddressFamilyIPv4, 0
	if c.V6 {
		relayIP, relayListen, family, mtu = net.ParseIP("fd00:9::1"), "fd00:9::1", turn.RequestedAddressFamilyIPv6, 70000
	}
	srv, err := turn.NewServer(turn.ServerConfig{
		Realm: "sim.realm", LoggerFactory: logger, InboundMTU: mtu,
		AuthHandler: func(ra *turn.RequestAttributes) (string, []byte, bool) {
			return "alice", turn.GenerateAuthKey("alice", ra.Realm, "pw"), ra.Username == "alice"
		},
		ListenerConfigs: []turn.ListenerConfig{{
			Listener:              lis,
			RelayAddressGenerator: &turn.RelayAddressGeneratorStatic{RelayAddress: relayIP, Address: relayListen, Net: tn},
		}},
	})
	if err != nil {
		return c05sResult{kind: "harness", msg: err.Error()}
	}
	conn, err := n.DialTCPFrom(&net.TCPAddr{IP: net.IPv4(10, 1, 0, 1), Port: 5000}, &net.TCPAddr{IP: net.IPv4(10, 0, 0, 1), Port: 3478})
	if err != nil {
		return c05sResult{kind: "harness", msg: err.Error()}
	}
	cl, err := turn.NewClient(&turn.ClientConfig{
		STUNServerAddr: "10.0.0.1:3478", TURNServerAddr: "10.0.0.1:3478", Conn: turn.NewSTUNConn(conn), Net: tn,
		Username: "alice", Password: "pw", Realm: "sim.realm", LoggerFactory: logger, RTO: 100 * time.Millisecond,
		RequestedAddressFamily: family,
	})
	if err != nil {
		return c05sResult{kind: "harness", msg: err.Error()}
	}
	var relay net.PacketConn
	defer func() {
		if relay != nil {
			_ = relay.Close()
		}
		cl.Close()
		_ = srv.Close()
		n.CloseAll()
	}()
	if err = cl.Listen(); err != nil {
		return c05sResult{kind: "harness", msg: err.Error()}
	}
	relay, err = cl.Allocate()
	if err != nil {
		return c05sResult{kind: "harness", msg: "Allocate over the stream transport: " + err.Error()}
	}
	relayAddr := relay.LocalAddr().(*net.UDPAddr) //nolint:forcetypeassert
	var peers, others []*sim.UDPSock
	for i := 0; i < 3; i++ {
		pnet, pip := "udp4", net.IPv4(10, 2, 0, byte(i+1))
		if c.V6 {
			pnet, pip = "udp6", net.ParseIP(fmt.Sprintf("fd00:2::%d", i+1))
		}
		p, _ := n.BindUDP(pnet, pip, 7000)
		o, _ := n.BindUDP(pnet, pip, 7001)
		peers, others = append(peers, p), append(others, o)
	}
	type rx struct {
		from string
		data []byte
	}
	// the application keeps every address ReadFrom gave it (to answer later): what an address says
	// must not change when further datagrams arrive
	type heldAddr struct {
		addr net.Addr
		said string
	}
	var rmu sync.Mutex
	var got []rx
	var held []heldAddr
	go func() {
		buf := make([]byte, 70000)
		for {
			k, from, rerr := relay.ReadFrom(buf)
			if rerr != nil {
				return
			}
			rmu.Lock()
			got = append(got, rx{from.String(), append([]byte{}, buf[:k]...)})
			held = append(held, heldAddr{from, from.String()})
			rmu.Unlock()
		}
	}()
	fail := func(kind, f string, a ...any) c05sResult {
		r := res
		r.kind, r.msg = kind, fmt.Sprintf(f, a...)+"\n  log tail:\n    "+strings.Join(tail(logger.Lines(), 10), "\n    ")

		return r
	}
	written := map[int]bool{}
	for i := range c.Datagrams {
		d := &c.Datagrams[i]
		pi := d.Peer % len(peers)
		pa := &net.UDPAddr{IP: peers[pi].Local().IP, Port: 7000}
		payload := payload05(d)
		ctx := fmt.Sprintf("datagram %d (%d bytes, peer %d, to_peer=%v other=%v frame=%q)", i, d.N, pi, d.ToPeer, d.Other, d.Frame)
		time.Sleep(time.Duration(d.Pause)*time.Millisecond + 700*time.Microsecond)
		if d.ToPeer || !written[pi] {
			// (the first contact with a peer is a write: it installs the permission and starts the binding)
			// a datagram too large to be relayed whole may be refused or dropped - never altered, never
			// delivered to somebody else, and the session goes on
			huge := d.N > 1500
			if _, werr := relay.WriteTo(payload, pa); werr != nil {
				if huge {
					res.refused++

					continue
				}

				return fail("relayed-write-failed", "%s: WriteTo failed: %v", ctx, werr)
			}
			synctest.Wait()
			for j, other := range peers {
				if j != pi {
					if stray, _, got := other.TryRead(); got {
						return fail("client-to-peer-misdelivered", "%s: peer %d, which was not written to, received %d bytes (%x...)", ctx, j, len(stray), stray[:min(len(stray), 12)])
					}
				}
			}
			data, from, ok := peers[pi].TryRead()
			switch {
			case !ok && huge:
				res.dropped++

				continue
			case !ok:
				return fail("client-to-peer-lost", "%s: nothing reached the peer", ctx)
			case !bytes.Equal(data, payload):
				return fail("client-to-peer-altered", "%s: the peer received %d bytes, first difference at %d", ctx, len(data), firstDiff05(data, payload))
			case !from.IP.Equal(relayAddr.IP) || from.Port != relayAddr.Port:
				return fail("client-to-peer-source", "%s: the peer received it from %v, the relayed address is %v", ctx, from, relayAddr)
			}
			if _, _, more := peers[pi].TryRead(); more {
				return fail("client-to-peer-duplicated", "%s: the peer received a second datagram", ctx)
			}
			written[pi] = true
			res.delivered++

			continue
		}
		src := peers[pi]
		if d.Other {
			src = others[pi]
		}
		rmu.Lock()
		got = got[:0]
		rmu.Unlock()
		_, _ = src.WriteTo(payload, relayAddr)
		synctest.Wait()
		rmu.Lock()
		g := append([]rx{}, got...)
		rmu.Unlock()
		want := (&net.UDPAddr{IP: src.Local().IP, Port: src.Local().Port}).String()
		switch {
		case len(g) == 0:
			return fail("peer-to-client-lost", "%s: ReadFrom returned nothing", ctx)
		case len(g) > 1:
			return fail("peer-to-client-duplicated", "%s: ReadFrom returned %d datagrams", ctx, len(g))
		case !bytes.Equal(g[0].data, payload):
			return fail("peer-to-client-altered", "%s: ReadFrom returned %d bytes, first difference at %d", ctx, len(g[0].data), firstDiff05(g[0].data, payload))
		case g[0].from != want:
			return fail("peer-to-client-attribution", "%s: ReadFrom attributes it to %s, it came from %s", ctx, g[0].from, want)
		}
		rmu.Lock()
		for k, h := range held {
			if now := h.addr.String(); now != h.said {
				rmu.Unlock()

				return fail("peer-to-client-attribution-rewritten", "%s: the address ReadFrom returned for an earlier datagram (no. %d from the peers) said %s then and says %s now", ctx, k, h.said, now)
			}
		}
		rmu.Unlock()
		res.delivered++
	}
	if c.Writers > 0 {
		// every peer has been written to and its binding has had time to stand
		for pi := range peers {
			if !written[pi] {
				if _, werr := relay.WriteTo([]byte("hello"), &net.UDPAddr{IP: peers[pi].Local().IP, Port: 7000}); werr != nil {
					return fail("relayed-write-failed", "first contact with peer %d: %v", pi, werr)
				}
			}
		}
		time.Sleep(3 * time.Second)
		synctest.Wait()
		for _, p := range peers {
			for {
				if _, _, more := p.TryRead(); !more {
					break
				}
			}
		}
		conn.Peer().SetRecvWindow(c.Window)
		want := make([]map[string]bool, len(peers))
		for i := range want {
			want[i] = map[string]bool{}
		}
		var wg sync.WaitGroup
		var wmu sync.Mutex
		var werrs []string
		for w := 0; w < c.Writers; w++ {
			for k := 0; k < 6; k++ {
				d := Datagram05{N: 200 + (w*131+k*977)%1100, Seed: uint64(w*100 + k + 1)}
				pl := payload05(&d)
				copy(pl, fmt.Sprintf("writer%02d-%d:", w, k))
				want[(w+k)%len(peers)][string(pl)] = true
			}
			wg.Add(1)
			go func(w int) {
				defer wg.Done()
				for k := 0; k < 6; k++ {
					d := Datagram05{N: 200 + (w*131+k*977)%1100, Seed: uint64(w*100 + k + 1)}
					pl := payload05(&d)
					copy(pl, fmt.Sprintf("writer%02d-%d:", w, k))
					pi := (w + k) % len(peers)
					if _, werr := relay.WriteTo(pl, &net.UDPAddr{IP: peers[pi].Local().IP, Port: 7000}); werr != nil {
						wmu.Lock()
						werrs = append(werrs, werr.Error())
						wmu.Unlock()
					}
				}
			}(w)
		}
		wg.Wait()
		synctest.Wait()
		conn.Peer().SetRecvWindow(0)
		if len(werrs) > 0 {
			return fail("relayed-write-failed", "%d concurrent writers: WriteTo failed: %s", c.Writers, werrs[0])
		}
		for pi, p := range peers {
			for {
				data, _, more := p.TryRead()
				if !more {
					break
				}
				if !want[pi][string(data)] {
					return fail("concurrent-writes-garbled", "%d concurrent writers (window %d): peer %d received %d bytes (%q...) that no writer sent to it, or a second copy", c.Writers, c.Window, pi, len(data), data[:min(len(data), 14)])
				}
				delete(want[pi], string(data))
				res.delivered++
			}
			if len(want[pi]) > 0 {
				return fail("concurrent-writes-garbled", "%d concurrent writers (window %d): %d datagrams written to peer %d never arrived", c.Writers, c.Window, len(want[pi]), pi)
			}
		}
		res.concurrent = c.Writers
	}
	for _, l := range logger.Lines() {
		if strings.Contains(l, "Channel binding successful") {
			res.viaChannels++
		}
	}

	return res
}

func firstDiff05(a, b []byte) int {
	for i := 0; i < len(a) && i < len(b); i++ {
		if a[i] != b[i] {
			return i
		}
	}

	return min(len(a), len(b))
}

func genC05Stream(rt *rapid.T) *C05StreamCase {
	c := &C05StreamCase{E2EStream: true}
	for i, k := 0, rapid.IntRange(4, 40).Draw(rt, "n"); i < k; i++ {
		d := Datagram05{Peer: rapid.IntRange(0, 2).Draw(rt, "peer"), Seed: rapid.Uint64Range(1, 1<<30).Draw(rt, "seed")}
		d.N = rapid.OneOf(rapid.IntRange(0, 12), rapid.IntRange(0, 64), rapid.IntRange(1180, 1210), rapid.SampledFrom([]int{0, 1, 2, 3, 4, 5, 1499, 1500})).Draw(rt, "len")
		d.ToPeer = rapid.Bool().Draw(rt, "toPeer")
		d.Other = !d.ToPeer && rapid.IntRange(0, 3).Draw(rt, "other") == 0
		d.Frame = rapid.SampledFrom([]string{"", "", "", "chandata", "stun"}).Draw(rt, "frame")
		d.Pause = rapid.SampledFrom([]int{0, 0, 0, 50, 1000}).Draw(rt, "pause")
		c.Datagrams = append(c.Datagrams, d)
	}
	if rapid.IntRange(0, 1).Draw(rt, "concurrentWriters") == 0 {
		c.Writers = rapid.IntRange(2, 8).Draw(rt, "writers")
		c.Window = rapid.SampledFrom([]int{0, 64, 256, 700}).Draw(rt, "window")
	}
	if rapid.IntRange(0, 2).Draw(rt, "v6") == 0 {
		// an IPv6 allocation and, here and there, a datagram near the largest size
		c.V6 = true
		for i, k := 0, rapid.IntRange(1, 3).Draw(rt, "nbig"); i < k; i++ {
			at := rapid.IntRange(1, len(c.Datagrams)).Draw(rt, "bigAt")
			big := Datagram05{Peer: rapid.IntRange(0, 2).Draw(rt, "bigPeer"), Seed: rapid.Uint64Range(1, 1<<30).Draw(rt, "bigSeed"), ToPeer: true,
				N:     rapid.OneOf(rapid.IntRange(65480, 65507), rapid.SampledFrom([]int{30000, 65000, 65496, 65497, 65500, 65504, 65507})).Draw(rt, "bigLen"),
				Frame: rapid.SampledFrom([]string{"", "chandata"}).Draw(rt, "bigFrame")}
			after := Datagram05{Peer: big.Peer, Seed: big.Seed + 1, ToPeer: true, N: rapid.IntRange(0, 40).Draw(rt, "afterLen")}
			c.Datagrams = append(c.Datagrams[:at], append([]Datagram05{big, after}, c.Datagrams[at:]...)...)
		}
	}

	return c
}

func TestC05ClientStream(t *testing.T) {
	r := vkit.Start(t, "C05")
	defer r.Finish()
	do := func(c *C05StreamCase, sample string) (string, string) {
		r.Eval(1)
		res := runC05Stream(t, c)
		r.LabelN("e2e-stream:datagrams-delivered", res.delivered)
		r.LabelN("e2e-stream:channel-bindings", res.viaChannels)
		r.LabelN("e2e-stream:oversize-refused-by-the-client", res.refused)
		r.LabelN("e2e-stream:oversize-dropped-on-the-way", res.dropped)
		if c.V6 {
			r.Label("e2e-stream:ipv6-allocation")
		}
		r.LabelN("e2e-stream:concurrent-writers", res.concurrent)
		odd := false
		for _, d := range c.Datagrams {
			odd = odd || d.N%4 != 0
		}
		if res.delivered >= 4 && odd {
			r.NonTrivial(vkit.Hash64(c))
			if sample != "" {
				r.Sample(sample, func() any { return c })
			}
		}
		if res.kind != "" && r.IsKnown("C05."+res.kind) {
			return "", ""
		}

		return res.kind, res.msg
	}
	if r.Replay != "" {
		var c C05StreamCase
		if err := vkit.LoadJSON(r.Replay, &c); err != nil || !c.E2EStream {
			fmt.Println("REPLAY-NOT-MINE: not a stream end-to-end case")

			return
		}
		kind, msg := do(&c, "")
		fmt.Printf("replay %s: kind=%q %s\n", r.Replay, kind, msg)
		if kind != "" {
			r.Violate(kind, msg, &c)
		}

		return
	}
	for _, f := range r.RegressFiles(".e2estream.json") {
		var c C05StreamCase
		if err := vkit.LoadJSON(f, &c); err != nil {
			t.Fatalf("bad regress file %s: %v", f, err)
		}
		if kind, msg := do(&c, ""); kind != "" {
			r.Violate(kind, "regress "+f+": "+msg, &c)
		}
	}
	if r.Violations() > 0 {
		return
	}
	r.Rapid(t, "client-stream-e2e", 0, r.Checks, func(rt *rapid.T) {
		c := genC05Stream(rt)
		r.Journal(c)
		kind, msg := do(c, "client-stream-e2e")
		if kind != "" {
			r.NoteFail(kind, msg, c)
			rt.Fatalf("C05 %s", kind)
		}
	})
}
