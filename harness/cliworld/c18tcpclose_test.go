package cliworld

import (
	"encoding/binary"
	"fmt"
	"net"
	"strings"
	"testing"
	"testing/synctest"
	"time"

	"github.com/pion/turn/v5"
	"github.com/pion/turn/v5/internal/zzverif/ref"
	"github.com/pion/turn/v5/internal/zzverif/sim"
	"github.com/pion/turn/v5/internal/zzverif/vkit"
	"pgregory.net/rapid"
)

// TCPCloseCase: the application closes its TCP allocation (AllocateTCP) while ConnectionAttempt
// indications for it are arriving - "Close racing with traffic" on the client, round after round.
// The client must not crash, and what it accepted before must be closed. Also the replay format
// (the interleaving is the scheduler's: a replay repeats the rounds).
type TCPCloseCase struct {
	Rounds   int  `json:"rounds"`
	Attempts int  `json:"attempts"` // indications sent per round
	Accepts  int  `json:"accepts"`  // goroutines blocked in Accept while Close runs
	CloseAt  int  `json:"close_at"` // Close is called after this many indications have been written
	TCPClose bool `json:"c18_tcp_close"`
}

type tcpCloseResult struct {
	kind, msg string
	rounds    int
}

func runTCPClose(t *testing.T, c *TCPCloseCase) (res tcpCloseResult) {
	t.Helper()
	defer func() {
		if p := recover(); p != nil {
			s := fmt.Sprint(p)
			if strings.Contains(s, "blocked goroutines remain") || strings.Contains(s, "deadlock") {
				if res.kind == "" {
					res.kind, res.msg = "goroutine-stuck", "client goroutines remain blocked after the allocation and the client were closed: "+s
				}

				return
			}
			panic(p)
		}
	}()
	synctest.Test(t, func(t *testing.T) { res = runTCPCloseInner(c) })

	return res
}

func runTCPCloseInner(c *TCPCloseCase) (res tcpCloseResult) {
	n := sim.NewNet()
	logger := sim.NewLogger(40)
	ssock, _ := n.BindUDP("udp4", net.IPv4(10, 0, 0, 1), 3478)
	csock, _ := n.BindUDP("udp4", net.IPv4(10, 1, 0, 1), 5000)
	cs := &C13Case{TCP: true, PermReact: []string{"ok"}, BindReact: []string{"ok"}}
	srv := &c13Server{sock: ssock, client: &net.UDPAddr{IP: net.IPv4(10, 1, 0, 1), Port: 5000}, c: cs, relayTCP: true,
		permOK: map[string]bool{}, bound: map[uint16]string{}, reqChan: map[uint16]string{}, peerChan: map[string]uint16{}, sent: map[string][][]byte{}}
	go func() {
		buf := make([]byte, 70000)
		for {
			k, _, err := ssock.ReadFrom(buf)
			if err != nil {
				return
			}
			srv.handle(append([]byte{}, buf[:k]...))
		}
	}()
	// data connections: the server end hangs up as soon as the ConnectionBind request arrives
	// (the accept then fails; what matters here is who is blocked where when Close comes)
	if dl, lerr := n.ListenTCPAt("tcp4", net.IPv4(10, 0, 0, 1), 3478); lerr == nil {
		go func() {
			for {
				dc, aerr := dl.AcceptConn()
				if aerr != nil {
					return
				}
				go func() {
					one := make([]byte, 1)
					_, _ = dc.Read(one)
					_ = dc.Close()
				}()
			}
		}()
	}
	cl, err := turn.NewClient(&turn.ClientConfig{
		TURNServerAddr: "10.0.0.1:3478", Conn: csock, Net: &sim.TNet{N: n}, Username: "alice", Password: "pw", Realm: "sim.realm", LoggerFactory: logger, RTO: 100 * time.Millisecond,
	})
	if err != nil {
		return tcpCloseResult{kind: "harness", msg: err.Error()}
	}
	if err := cl.Listen(); err != nil {
		return tcpCloseResult{kind: "harness", msg: err.Error()}
	}
	defer func() {
		cl.Close()
		n.CloseAll()
	}()
	seq := 0
	for round := 0; round < c.Rounds; round++ {
		ta, aerr := cl.AllocateTCP()
		if aerr != nil {
			return tcpCloseResult{kind: "reallocate-failed", msg: fmt.Sprintf("round %d: AllocateTCP after the previous allocation was closed failed: %v", round, aerr), rounds: res.rounds}
		}
		for a := 0; a < c.Accepts; a++ {
			go func(a int) {
				if a%2 == 1 {
					_ = ta.SetDeadline(time.Now().Add(time.Second))
				} // (the others rely on Close: "any blocked Accept operations will be unblocked and return errors")
				if conn, err := ta.AcceptTCP(); err == nil {
					_ = conn.Close()
				}
			}(a)
		}
		synctest.Wait()
		gate := make(chan struct{})
		fed := make(chan struct{})
		go func() {
			defer close(fed)
			for i := 0; i < c.Attempts; i++ {
				if i == c.CloseAt {
					close(gate)
				}
				seq++
				var id [12]byte
				binary.BigEndian.PutUint32(id[0:4], uint32(seq)) //nolint:gosec
				m := &ref.Msg{Method: ref.MethodConnectionAttempt, Class: ref.ClassIndication, TxID: id}
				m.Add(ref.AttrXORPeerAddress, ref.XorAddr(net.IPv4(10, 2, 0, 1), 7000+seq%1000, id))
				m.Add(ref.AttrConnectionID, ref.U32(uint32(seq))) //nolint:gosec
				_, _ = ssock.WriteTo(m.Encode(), srv.client)
			}
			if c.CloseAt >= c.Attempts {
				close(gate)
			}
		}()
		<-gate
		_ = ta.Close() // races with the indications being handled
		<-fed
		synctest.Wait()
		time.Sleep(2 * time.Second)
		synctest.Wait()
		res.rounds++
	}

	return res
}

func TestC18ClientTCPClose(t *testing.T) {
	r := vkit.Start(t, "C18")
	defer r.Finish()
	do := func(c *TCPCloseCase, sample string) (string, string) {
		r.Eval(1)
		res := runTCPClose(t, c)
		r.LabelN("tcp-close:rounds", res.rounds)
		r.LabelN("tcp-close:indications-racing-with-close", res.rounds*c.Attempts)
		if res.rounds > 0 {
			r.NonTrivial(vkit.Hash64(c))
			if sample != "" {
				r.Sample(sample, func() any { return c })
			}
		}
		if res.kind != "" && r.IsKnown("C18."+res.kind) {
			return "", ""
		}

		return res.kind, res.msg
	}
	if r.Replay != "" {
		var c TCPCloseCase
		if err := vkit.LoadJSON(r.Replay, &c); err != nil || !c.TCPClose {
			fmt.Println("REPLAY-NOT-MINE: not a TCP close race case")

			return
		}
		kind, msg := "", ""
		for i := 0; i < 10 && kind == ""; i++ {
			kind, msg = do(&c, "")
		}
		fmt.Printf("replay %s: kind=%q %s\n", r.Replay, kind, msg)
		if kind != "" {
			r.Violate(kind, msg, &c)
		}

		return
	}
	for _, f := range r.RegressFiles(".tcpclose.json") {
		var c TCPCloseCase
		if err := vkit.LoadJSON(f, &c); err != nil {
			t.Fatalf("bad regress file %s: %v", f, err)
		}
		for i := 0; i < 3; i++ {
			if kind, msg := do(&c, ""); kind != "" {
				r.Violate(kind, "regress "+f+": "+msg, &c)

				break
			}
		}
	}
	if r.Violations() > 0 {
		return
	}
	r.Rapid(t, "tcp-close-race", 0, r.Checks, func(rt *rapid.T) {
		c := &TCPCloseCase{TCPClose: true,
			Rounds:   rapid.SampledFrom([]int{20, 50, 100}).Draw(rt, "rounds"),
			Attempts: rapid.SampledFrom([]int{1, 2, 5, 12, 30}).Draw(rt, "attempts"),
			Accepts:  rapid.IntRange(0, 2).Draw(rt, "accepts"),
		}
		c.CloseAt = rapid.IntRange(0, c.Attempts).Draw(rt, "closeAt")
		r.Journal(c)
		kind, msg := do(c, "tcp-close-race")
		if kind != "" {
			r.NoteFail(kind, msg, c)
			rt.Fatalf("C18 %s", kind)
		}
	})
}
