package cliworld

import (
	"bytes"
	"fmt"
	"net"
	"strings"
	"sync"
	"testing"
	"testing/synctest"
	"time"

	"github.com/pion/turn/v5"
	"github.com/pion/turn/v5/internal/zzverif/sim"
	"github.com/pion/turn/v5/internal/zzverif/vkit"
	"pgregory.net/rapid"
)

// E2EStep is one action of the end-to-end TCP relay case.
type E2EStep struct {
	Op    string `json:"op"`              // dial | peerdial | write | close | sleep
	P     int    `json:"p,omitempty"`     // peer
	K     int    `json:"k,omitempty"`     // connection slot (newest first)
	Side  string `json:"side,omitempty"`  // client | peer
	N     int    `json:"n,omitempty"`     // bytes / seconds
	Cuts  int    `json:"cuts,omitempty"`  // the write is split into this many segments
	Early int    `json:"early,omitempty"` // dial/peerdial: the peer writes this many bytes before the client has bound the connection
	Seed  uint64 `json:"seed,omitempty"`
}

// E2ECase drives pion's TURN client (TCPAllocation: DialTCP, AcceptTCP, TCPConn) against pion's
// TURN server over simulated TCP; also the replay format.
type E2ECase struct {
	NPeers int       `json:"n_peers"`
	Steps  []E2EStep `json:"steps"`
	E2E    bool      `json:"c16_client_e2e"`
}

type e2eConn struct {
	peer     int
	inbound  bool
	cli      net.Conn  // the client's relayed connection (TCPConn)
	peerEnd  *sim.Conn // the peer's end
	toPeer   []byte    // written by the client
	toClient []byte    // written by the peer
	gotPeer  []byte
	gotCli   []byte
	cliShut  bool
	peerShut bool
	mu       sync.Mutex
}

type e2eResult struct {
	kind, msg        string
	dials, accepts   int
	bytes            int
	early, segmented int
}

func runE2E(t *testing.T, c *E2ECase) (res e2eResult) {
	t.Helper()
	defer func() {
		if p := recover(); p != nil {
			s := fmt.Sprint(p)
			if strings.Contains(s, "blocked goroutines remain") || strings.Contains(s, "deadlock") {
				if res.kind == "" {
					res.kind, res.msg = "goroutine-leak", "after closing every connection, the allocation, the client and the server, goroutines are still blocked: "+s
				}

				return
			}
			res.kind, res.msg = "panic", s
		}
	}()
	synctest.Test(t, func(t *testing.T) { res = runE2EInner(c) })

	return res
}

func e2eBytes(n int, seed uint64) []byte {
	out := make([]byte, n)
	s := seed | 1
	for i := range out {
		s = s*6364136223846793005 + 1442695040888963407
		out[i] = byte(s >> 40)
	}
	// now and then make the bytes look like TURN framing
	if n >= 4 && seed%3 == 0 {
		copy(out, []byte{0x40, 0x00, 0x00, byte(n)})
	} else if n >= 8 && seed%3 == 1 {
		copy(out, []byte{0x01, 0x13, 0x00, 0x00, 0x21, 0x12, 0xA4, 0x42})
	}

	return out
}

func runE2EInner(c *E2ECase) (res e2eResult) { //nolint:cyclop,gocyclo,maintidx
	n := sim.NewNet()
	n.HostIP4 = net.IPv4(10, 1, 0, 1) // the client's data connections leave from the client host
	logger := sim.NewLogger(200)
	tn := &sim.TNet{N: n}
	lis, err := n.ListenTCPAt("tcp4", net.IPv4(10, 0, 0, 1), 3478)
	if err != nil {
		return e2eResult{kind: "harness", msg: err.Error()}
	}
	srv, err := turn.NewServer(turn.ServerConfig{
		Realm: "sim.realm", LoggerFactory: logger,
		AuthHandler: func(ra *turn.RequestAttributes) (string, []byte, bool) {
			return "alice", turn.GenerateAuthKey("alice", ra.Realm, "pw-alice"), ra.Username == "alice"
		},
		ListenerConfigs: []turn.ListenerConfig{{
			Listener:              lis,
			RelayAddressGenerator: &turn.RelayAddressGeneratorStatic{RelayAddress: net.IPv4(10, 9, 0, 1), Address: "10.9.0.1", Net: tn},
		}},
	})
	if err != nil {
		return e2eResult{kind: "harness", msg: err.Error()}
	}
	var peerLis []*sim.Listener
	for i := 0; i < max(c.NPeers, 1); i++ {
		pl, _ := n.ListenTCPAt("tcp4", net.IPv4(10, 2, 0, byte(i+1)), 7000)
		peerLis = append(peerLis, pl)
	}
	ctrl, err := n.DialTCPFrom(&net.TCPAddr{IP: net.IPv4(10, 1, 0, 1), Port: 5000}, &net.TCPAddr{IP: net.IPv4(10, 0, 0, 1), Port: 3478})
	if err != nil {
		return e2eResult{kind: "harness", msg: err.Error()}
	}
	cl, err := turn.NewClient(&turn.ClientConfig{
		STUNServerAddr: "10.0.0.1:3478", TURNServerAddr: "10.0.0.1:3478", Conn: turn.NewSTUNConn(ctrl), Net: tn,
		Username: "alice", Password: "pw-alice", Realm: "sim.realm", LoggerFactory: logger,
	})
	if err != nil {
		return e2eResult{kind: "harness", msg: err.Error()}
	}
	var conns []*e2eConn
	teardown := func() {
		for _, ec := range conns {
			if ec.cli != nil {
				_ = ec.cli.Close()
			}
			if ec.peerEnd != nil {
				_ = ec.peerEnd.Close()
			}
		}
		cl.Close()
		_ = srv.Close()
		n.CloseAll()
	}
	if err = cl.Listen(); err != nil {
		teardown()

		return e2eResult{kind: "harness", msg: err.Error()}
	}
	ta, err := cl.AllocateTCP()
	if err != nil {
		teardown()

		return e2eResult{kind: "harness", msg: "AllocateTCP: " + err.Error()}
	}
	relayAddr, _ := ta.Addr().(*net.TCPAddr)
	fail := func(kind, f string, a ...any) e2eResult {
		r := res
		r.kind, r.msg = kind, fmt.Sprintf(f, a...)+"\n  log tail:\n    "+strings.Join(tail(logger.Lines(), 12), "\n    ")
		_ = ta.Close()
		teardown()

		return r
	}
	// readers: everything that arrives on either end of a relayed connection is collected
	startReaders := func(ec *e2eConn) {
		go func() {
			buf := make([]byte, 4096)
			for {
				k, rerr := ec.cli.Read(buf)
				ec.mu.Lock()
				ec.gotCli = append(ec.gotCli, buf[:k]...)
				ec.mu.Unlock()
				if rerr != nil {
					return
				}
			}
		}()
	}
	drainPeer := func(ec *e2eConn) {
		data, _ := ec.peerEnd.ReadAvailable()
		ec.gotPeer = append(ec.gotPeer, data...)
	}
	pick := func(k int) *e2eConn {
		if len(conns) == 0 {
			return nil
		}

		return conns[len(conns)-1-k%len(conns)]
	}
	// verify: after quiescence every connection has delivered, in order and unmodified, what the other
	// side wrote (everything, unless the receiving side had hung up)
	verify := func(ctx string) *e2eResult {
		synctest.Wait()
		for i, ec := range conns {
			drainPeer(ec)
			ec.mu.Lock()
			gotCli := append([]byte{}, ec.gotCli...)
			ec.mu.Unlock()
			dir := map[bool]string{true: "accepted from", false: "dialled to"}[ec.inbound]
			if !bytes.HasPrefix(ec.toPeer, ec.gotPeer) {
				r := fail("relayed-bytes-altered", "%s: connection %d (%s peer %d): the peer received %d bytes that are not a prefix of the %d bytes the client wrote (first difference at %d)", ctx, i, dir, ec.peer, len(ec.gotPeer), len(ec.toPeer), firstDiff(ec.toPeer, ec.gotPeer))

				return &r
			}
			if !bytes.HasPrefix(ec.toClient, gotCli) {
				r := fail("relayed-bytes-altered", "%s: connection %d (%s peer %d): the client read %d bytes that are not a prefix of the %d bytes the peer wrote (first difference at %d)", ctx, i, dir, ec.peer, len(gotCli), len(ec.toClient), firstDiff(ec.toClient, gotCli))

				return &r
			}
			if !ec.peerShut && !ec.cliShut && len(ec.gotPeer) != len(ec.toPeer) {
				r := fail("relayed-bytes-lost", "%s: connection %d (%s peer %d): the client wrote %d bytes, the peer received %d although both ends are open", ctx, i, dir, ec.peer, len(ec.toPeer), len(ec.gotPeer))

				return &r
			}
			if !ec.peerShut && !ec.cliShut && len(gotCli) != len(ec.toClient) {
				r := fail("relayed-bytes-lost", "%s: connection %d (%s peer %d): the peer wrote %d bytes, the client read %d although both ends are open", ctx, i, dir, ec.peer, len(ec.toClient), len(gotCli))

				return &r
			}
		}

		return nil
	}
	for si, st := range c.Steps {
		ctx := fmt.Sprintf("step %d (%s)", si, st.Op)
		p := st.P % len(peerLis)
		pa := peerLis[p].TCPAddr()
		switch st.Op {
		case "dial":
			for peerLis[p].TryAccept() != nil { // stale backlog entries of failed attempts
			}
			type dialRes struct {
				conn net.Conn
				err  error
			}
			ch := make(chan dialRes, 1)
			go func() {
				dc, derr := ta.DialTCP("tcp", nil, &net.TCPAddr{IP: pa.IP, Port: pa.Port})
				if derr != nil {
					ch <- dialRes{nil, derr}

					return
				}
				ch <- dialRes{dc, nil}
			}()
			synctest.Wait()
			var dr dialRes
			select {
			case dr = <-ch:
			default:
				return fail("dial-hangs", "%s: DialTCP to peer %d neither returned nor failed at quiescence", ctx, p)
			}
			dup := false
			for _, ec := range conns {
				if ec.peer == p && !ec.inbound && !ec.cliShut && !ec.peerShut {
					dup = true
				}
			}
			if dr.err != nil {
				if dup {
					continue // 446: a connection to this peer exists already
				}

				return fail("dial-failed", "%s: DialTCP to a listening, permitted peer %d failed: %v", ctx, p, dr.err)
			}
			pe := peerLis[p].TryAccept()
			if pe == nil {
				return fail("dial-without-peer-connection", "%s: DialTCP succeeded but peer %d saw no connection", ctx, p)
			}
			if ra, _ := pe.RemoteAddr().(*net.TCPAddr); ra == nil || !ra.IP.Equal(relayAddr.IP) || ra.Port != relayAddr.Port {
				return fail("peer-connection-not-from-relayed-address", "%s: peer %d was dialled from %v, the relayed address is %v", ctx, p, pe.RemoteAddr(), relayAddr)
			}
			ec := &e2eConn{peer: p, cli: dr.conn, peerEnd: pe}
			conns = append(conns, ec)
			startReaders(ec)
			res.dials++
		case "peerdial":
			// needs a permission for the peer's IP: the client must have dialled this peer before
			permitted := false
			for _, ec := range conns {
				if ec.peer == p && !ec.inbound {
					permitted = true
				}
			}
			if !permitted {
				continue
			}
			type accRes struct {
				conn net.Conn
				err  error
			}
			ch := make(chan accRes, 1)
			_ = ta.SetDeadline(time.Now().Add(20 * time.Second))
			go func() {
				ac, aerr := ta.AcceptTCP()
				ch <- accRes{ac, aerr}
			}()
			synctest.Wait()
			pe, derr := n.DialTCPFrom(&net.TCPAddr{IP: pa.IP}, relayAddr)
			if derr != nil {
				return fail("relayed-listener-refuses", "%s: peer %d cannot connect to the relayed address %v: %v", ctx, p, relayAddr, derr)
			}
			var early []byte
			if st.Early > 0 {
				early = e2eBytes(st.Early, st.Seed+7)
				_, _ = pe.Write(early) // before the client has even heard of the connection
				res.early++
			}
			synctest.Wait()
			var ar accRes
			select {
			case ar = <-ch:
			default:
				return fail("accept-hangs", "%s: a permitted peer connected to the relayed address but AcceptTCP has not returned at quiescence", ctx)
			}
			if ar.err != nil {
				return fail("accept-failed", "%s: AcceptTCP failed for a connection from permitted peer %d: %v", ctx, p, ar.err)
			}
			if ra, _ := ar.conn.RemoteAddr().(*net.TCPAddr); ra == nil || !ra.IP.Equal(pe.LocalAddr().(*net.TCPAddr).IP) || ra.Port != pe.LocalAddr().(*net.TCPAddr).Port { //nolint:forcetypeassert
				return fail("accepted-connection-misattributed", "%s: AcceptTCP names the peer %v, the connection came from %v", ctx, ar.conn.RemoteAddr(), pe.LocalAddr())
			}
			ec := &e2eConn{peer: p, inbound: true, cli: ar.conn, peerEnd: pe, toClient: early}
			conns = append(conns, ec)
			startReaders(ec)
			res.accepts++
		case "write":
			ec := pick(st.K)
			if ec == nil || ec.cliShut || ec.peerShut {
				continue
			}
			data := e2eBytes(st.N, st.Seed)
			cuts := max(st.Cuts, 1)
			if cuts > 1 {
				res.segmented++
			}
			for i := 0; i < cuts; i++ {
				part := data[len(data)*i/cuts : len(data)*(i+1)/cuts]
				if len(part) == 0 {
					continue
				}
				if st.Side == "peer" {
					if _, werr := ec.peerEnd.Write(part); werr != nil {
						return fail("peer-write-failed", "%s: the peer's write on an open relayed connection failed: %v", ctx, werr)
					}
					ec.toClient = append(ec.toClient, part...)
				} else {
					if _, werr := ec.cli.Write(part); werr != nil {
						return fail("client-write-failed", "%s: Write on an open relayed TCPConn failed: %v", ctx, werr)
					}
					ec.toPeer = append(ec.toPeer, part...)
				}
				if i%2 == 1 {
					synctest.Wait()
				}
			}
			res.bytes += len(data)
		case "close":
			ec := pick(st.K)
			if ec == nil {
				continue
			}
			if r := verify(ctx + " before close"); r != nil {
				return *r
			}
			if st.Side == "peer" {
				_ = ec.peerEnd.Close()
				ec.peerShut = true
			} else {
				_ = ec.cli.Close()
				ec.cliShut = true
			}
			synctest.Wait()
			// the other end must see the end of the stream
			if st.Side == "peer" {
				_ = ec.cli.SetReadDeadline(time.Now().Add(time.Second))
			} else if _, eof := ec.peerEnd.ReadAvailable(); !eof && !ec.peerEnd.IsClosed() {
				return fail("close-not-propagated", "%s: the client closed its relayed connection, the peer's end sees no end of stream", ctx)
			}
		case "sleep":
			time.Sleep(time.Duration(st.N)*time.Second + 700*time.Microsecond)
		}
		if r := verify(ctx); r != nil {
			return *r
		}
	}
	if err := ta.Close(); err != nil {
		return fail("close-error", "Close of the TCP allocation failed: %v", err)
	}
	time.Sleep(2 * time.Second)
	synctest.Wait()
	if cnt := srv.AllocationCount(); cnt != 0 {
		r := fail("allocation-not-released", "AllocationCount() = %d two seconds after closing the TCP allocation", cnt)

		return r
	}
	teardown()

	return res
}

func firstDiff(want, got []byte) int {
	for i := range got {
		if i >= len(want) || want[i] != got[i] {
			return i
		}
	}

	return len(got)
}

func genE2E(rt *rapid.T, maxSteps int) *E2ECase {
	c := &E2ECase{NPeers: rapid.IntRange(1, 3).Draw(rt, "npeers"), E2E: true}
	c.Steps = append(c.Steps, E2EStep{Op: "dial", P: rapid.IntRange(0, c.NPeers-1).Draw(rt, "p0")})
	ns := rapid.IntRange(3, maxSteps).Draw(rt, "nsteps")
	for i := 0; i < ns; i++ {
		st := E2EStep{P: rapid.IntRange(0, c.NPeers-1).Draw(rt, "p"), K: rapid.IntRange(0, 3).Draw(rt, "k"), Seed: rapid.Uint64Range(0, 1<<32).Draw(rt, "seed")}
		st.Side = rapid.SampledFrom([]string{"client", "peer"}).Draw(rt, "side")
		switch rapid.IntRange(0, 11).Draw(rt, "op") {
		case 0, 1:
			st.Op = "dial"
		case 2, 3, 4:
			st.Op = "peerdial"
			if rapid.Bool().Draw(rt, "earlyData") {
				st.Early = rapid.OneOf(rapid.IntRange(1, 64), rapid.IntRange(1000, 9000)).Draw(rt, "early")
			}
		case 5, 6, 7, 8:
			st.Op = "write"
			st.N = rapid.OneOf(rapid.IntRange(1, 64), rapid.IntRange(1, 5000), rapid.SampledFrom([]int{1, 4, 20, 1500, 4096, 4097, 65535, 70000})).Draw(rt, "n")
			st.Cuts = rapid.SampledFrom([]int{1, 1, 2, 3, 7}).Draw(rt, "cuts")
		case 9:
			st.Op = "close"
		default:
			st.Op = "sleep"
			st.N = rapid.SampledFrom([]int{1, 5, 29, 31, 60, 119, 121, 299, 301, 400}).Draw(rt, "sleep")
		}
		c.Steps = append(c.Steps, st)
	}

	return c
}

func TestC16Client(t *testing.T) {
	r := vkit.Start(t, "C16")
	defer r.Finish()
	do := func(c *E2ECase, sample string) (string, string) {
		r.Eval(1)
		res := runE2E(t, c)
		r.LabelN("e2e:dials", res.dials)
		r.LabelN("e2e:accepts", res.accepts)
		r.LabelN("e2e:relayed-bytes", res.bytes)
		r.LabelN("e2e:early-peer-data", res.early)
		r.LabelN("e2e:segmented-writes", res.segmented)
		if res.dials > 0 && res.accepts > 0 && res.bytes > 0 {
			r.NonTrivial(vkit.Hash64(c))
			if sample != "" {
				r.Sample(sample, func() any { return c })
			}
		}
		if res.kind != "" && r.IsKnown("C16."+res.kind) {
			return "", ""
		}

		return res.kind, res.msg
	}
	if r.Replay != "" {
		var c E2ECase
		if err := vkit.LoadJSON(r.Replay, &c); err != nil || !c.E2E {
			fmt.Println("REPLAY-NOT-MINE: not a client end-to-end case")

			return
		}
		kind, msg := do(&c, "")
		fmt.Printf("replay %s: kind=%q %s\n", r.Replay, kind, msg)
		if kind != "" {
			r.Violate(kind, msg, &c)
		}

		return
	}
	for _, f := range r.RegressFiles(".e2e.json") {
		var c E2ECase
		if err := vkit.LoadJSON(f, &c); err != nil {
			t.Fatalf("bad regress file %s: %v", f, err)
		}
		if kind, msg := do(&c, ""); kind != "" {
			r.Violate(kind, "regress "+f+": "+msg, &c)
		}
	}
	if r.Violations() > 0 {
		return
	}
	maxSteps := 16
	if r.Thorough() {
		maxSteps = 40
	}
	r.Rapid(t, "e2e", 0, r.Checks, func(rt *rapid.T) {
		c := genE2E(rt, maxSteps)
		r.Journal(c)
		kind, msg := do(c, "e2e")
		if kind != "" {
			r.NoteFail(kind, msg, c)
			rt.Fatalf("C16 %s", kind)
		}
	})
}
