package cliworld

import (
	"bytes"
	"fmt"
	"net"
	"os"
	"strconv"
	"strings"
	"sync"
	"testing"
	"testing/synctest"
	"time"

	"github.com/pion/turn/v5"
	"github.com/pion/turn/v5/internal/zzverif/ref"
	"github.com/pion/turn/v5/internal/zzverif/sim"
	"github.com/pion/turn/v5/internal/zzverif/vkit"
	"pgregory.net/rapid"
)

// Seg is one piece of the traffic pattern: stay idle for GapS seconds, then send Burst probes
// in each direction to/from every peer.
type Seg struct {
	GapS  int `json:"gap_s"`
	Burst int `json:"burst"`
	// Refused: before the burst the application writes to a peer the server refuses
	// (1 = an address the operator's PermissionHandler denies, 2 = an IPv6 peer on this IPv4
	// allocation); the write may fail, the flows of the other peers must not suffer.
	Refused int `json:"refused,omitempty"`
	// HorizonMs != 0: after the gap, wait on until this many milliseconds after the instant
	// at which the nonce the client holds turns one hour old (the harness reads the mint
	// time off the wire), so that the burst is the first thing to meet the stale nonce.
	HorizonMs int `json:"horizon_ms,omitempty"`
	// PeerFirst: in this burst the peers talk before the client does (other port first).
	PeerFirst bool `json:"peer_first,omitempty"`
	// Realloc: before the gap the relayed socket is closed, the client allocates again and the old
	// handle is closed a second time
	Realloc bool `json:"realloc,omitempty"`
	// Flood > 0: before the gap the application stops reading and a permitted peer sends this many
	// datagrams (more than the relayed socket queues); it only resumes reading after the gap. What
	// overflows may be dropped, the client's own upkeep (refreshes) must go on regardless.
	Flood int `json:"flood,omitempty"`
}

// C14Case is a long-running client/server session; also the replay format.
type C14Case struct {
	LifetimeS     int    `json:"lifetime_s"`     // server AllocationLifetime (0 = default 600 s)
	PermTimeoutS  int    `json:"perm_timeout_s"` // server PermissionTimeout (0 = default 300 s)
	ChanTimeoutS  int    `json:"chan_timeout_s"` // server ChannelBindTimeout (0 = default 600 s)
	PermRefreshS  int    `json:"perm_refresh_s"` // client PermissionRefreshInterval (0 = default 120 s)
	RTOms         int    `json:"rto_ms"`
	NPeers        int    `json:"n_peers"`
	Segs          []Seg  `json:"segments"`
	FailRTs       []int  `json:"fail_round_trips"` // per STUN transaction: this many initial round trips fail (cycled)
	DropResp      []bool `json:"drop_response"`    // whether the failing round trip loses the response (else the request)
	DupCtl        bool   `json:"dup_control,omitempty"`
	DelayCtlMs    int    `json:"delay_control_ms,omitempty"`
	StartOffsetMs int    `json:"start_offset_ms,omitempty"` // the client allocates this long after a whole minute (phase of its refresh timers against the nonce clock)
	JoinSeg       []int  `json:"join_segment,omitempty"`    // per peer (cycled): first segment in which the application talks to it
	Sibling       bool   `json:"sibling,omitempty"`         // every peer host also sends from a second port the client never wrote to (admitted by the per-IP permission alone)
	// Crowd > 0: besides the probed peers the application talks to this many further peer hosts
	// (one IP each) once, early on; from then on a sample of them is probed in every segment from a
	// port the client never wrote to - "any number of peers" of C14's quantifier
	Crowd int `json:"crowd,omitempty"`
	// MixForms: the application names an IPv4 peer now in the 16-byte, now in the 4-byte form
	MixForms bool   `json:"mix_forms,omitempty"`
	Cred     string `json:"cred,omitempty"` // "" static | ltc | rest (time-windowed credentials, C17 end-to-end)
	CredDurS int    `json:"cred_duration_s,omitempty"`
}

type c14Result struct {
	kind, msg                string
	probes                   int
	hours                    float64
	lossy                    int
	refused                  int
	atHorizon                int
	peerFirst                int
	floods                   int
	reallocs                 int
	crowdWrites, crowdProbes int
	// sibling-port probes after an idle gap longer than the default permission lifetime
	siblingAfterIdle int
}

var c14DeniedIP = net.IPv4(10, 2, 0, 250)

func runC14(t *testing.T, c *C14Case) (res c14Result) {
	t.Helper()
	defer func() {
		if p := recover(); p != nil {
			s := fmt.Sprint(p)
			if strings.Contains(s, "blocked goroutines remain") || strings.Contains(s, "deadlock") {
				res.kind, res.msg = "goroutine-leak", "after closing the relayed socket, the client and the server, goroutines are still blocked: "+s

				return
			}
			res.kind, res.msg = "panic", s
		}
	}()
	synctest.Test(t, func(t *testing.T) { res = runC14Inner(c) })

	return res
}

func isSTUN(b []byte) bool {
	return len(b) >= 20 && b[0]&0xC0 == 0 && b[4] == 0x21 && b[5] == 0x12 && b[6] == 0xA4 && b[7] == 0x42
}

func runC14Inner(c *C14Case) (res c14Result) { //nolint:cyclop,gocyclo,maintidx
	n := sim.NewNet()
	logger := sim.NewLogger(c14LogKeep())
	tn := &sim.TNet{N: n}
	srvSock, err := n.BindUDP("udp4", net.IPv4(10, 0, 0, 1), 3478)
	if err != nil {
		return c14Result{kind: "harness", msg: err.Error()}
	}
	const realm = "sim.realm"
	username, password := "alice", "pw-alice"
	secret := "sharedsecret"
	var auth turn.AuthHandler
	switch c.Cred {
	case "ltc":
		username, password, _ = turn.GenerateLongTermCredentials(secret, time.Duration(c.CredDurS)*time.Second)
		auth = turn.NewLongTermAuthHandler(secret, logger.NewLogger("auth"))
	case "rest":
		username, password, _ = turn.GenerateLongTermTURNRESTCredentials(secret, "alice", time.Duration(c.CredDurS)*time.Second)
		auth = turn.LongTermTURNRESTAuthHandler(secret, logger.NewLogger("auth"))
	default:
		auth = func(ra *turn.RequestAttributes) (string, []byte, bool) {
			if ra.Username == "alice" {
				return "alice", turn.GenerateAuthKey("alice", ra.Realm, "pw-alice"), true
			}

			return "", nil, false
		}
	}
	srv, err := turn.NewServer(turn.ServerConfig{
		Realm: realm, LoggerFactory: logger, AuthHandler: auth,
		AllocationLifetime: time.Duration(c.LifetimeS) * time.Second,
		PermissionTimeout:  time.Duration(c.PermTimeoutS) * time.Second,
		ChannelBindTimeout: time.Duration(c.ChanTimeoutS) * time.Second,
		PacketConnConfigs: []turn.PacketConnConfig{{
			PacketConn:            srvSock,
			RelayAddressGenerator: &turn.RelayAddressGeneratorStatic{RelayAddress: net.IPv4(10, 9, 0, 1), Address: "10.9.0.1", Net: tn},
			PermissionHandler:     func(_ net.Addr, peerIP net.IP) bool { return !peerIP.Equal(c14DeniedIP) },
		}},
	})
	if err != nil {
		return c14Result{kind: "harness", msg: err.Error()}
	}
	csock, _ := n.BindUDP("udp4", net.IPv4(10, 1, 0, 1), 5000)
	var peers, siblings []*sim.UDPSock
	for i := 0; i < max(c.NPeers, 1); i++ {
		p, _ := n.BindUDP("udp4", net.IPv4(10, 2, 0, byte(i+1)), 7000)
		peers = append(peers, p)
		sb, _ := n.BindUDP("udp4", net.IPv4(10, 2, 0, byte(i+1)), 7001)
		siblings = append(siblings, sb)
	}
	var crowd, crowdSiblings []*sim.UDPSock
	for i := 0; i < c.Crowd; i++ {
		ip := net.IPv4(10, 3, byte(i/200), byte(1+i%200))
		p, _ := n.BindUDP("udp4", ip, 7000)
		sb, _ := n.BindUDP("udp4", ip, 7001)
		crowd, crowdSiblings = append(crowd, p), append(crowdSiblings, sb)
	}
	crowdWritten := false
	deniedPeer, _ := n.BindUDP("udp4", c14DeniedIP, 7000)
	written := map[int]bool{}
	joined := func(pi, si int) bool { return len(c.JoinSeg) == 0 || si >= c.JoinSeg[pi%len(c.JoinSeg)] }
	// ---- fault script: the first k round trips of every STUN transaction fail
	var fmu sync.Mutex
	txSeen := map[[12]byte]int{} // request transmissions seen per transaction
	txPlan := map[[12]byte]int{} // failing round trips of that transaction
	txResp := map[[12]byte]bool{}
	txCount := 0
	lossy := 0
	var nonceMint time.Time
	n.Fault = func(d *sim.Datagram) sim.FaultAction {
		if !isSTUN(d.Data) {
			return sim.FaultAction{}
		}
		cls := (int(d.Data[0])&1)<<1 | (int(d.Data[1])>>4)&1
		var id [12]byte
		copy(id[:], d.Data[8:20])
		fmu.Lock()
		defer fmu.Unlock()
		act := sim.FaultAction{}
		switch cls {
		case ref.ClassRequest:
			if d.SrcSock != csock.ID {
				return act
			}
			if _, ok := txPlan[id]; !ok {
				k := 0
				if len(c.FailRTs) > 0 {
					k = c.FailRTs[txCount%len(c.FailRTs)]
				}
				dr := false
				if len(c.DropResp) > 0 {
					dr = c.DropResp[txCount%len(c.DropResp)]
				}
				txCount++
				if k > 6 {
					k = 6
				}
				if k > 0 {
					lossy++
				}
				txPlan[id], txResp[id] = k, dr
			}
			txSeen[id]++
			if txSeen[id] <= txPlan[id] && !txResp[id] {
				act.Drop = true

				return act
			}
		case ref.ClassSuccess, ref.ClassError:
			if txSeen[id] <= txPlan[id] && txResp[id] {
				act.Drop = true

				return act
			}
			if d.SrcSock == srvSock.ID && cls == ref.ClassError {
				if m, perr := ref.Parse(d.Data); perr == nil && (m.ErrorCode() == 401 || m.ErrorCode() == 438) {
					nonceMint = time.Now() // the challenge the client will use from now on
				}
			}
		default:
			return act
		}
		if c.DupCtl {
			act.Duplicate = 1
		}
		if c.DelayCtlMs > 0 {
			act.Delay = time.Duration(c.DelayCtlMs)*time.Millisecond + 313*time.Microsecond
		}

		return act
	}
	cl, err := turn.NewClient(&turn.ClientConfig{
		STUNServerAddr: "10.0.0.1:3478", TURNServerAddr: "10.0.0.1:3478", Conn: csock, Net: tn,
		Username: username, Password: password, Realm: realm, LoggerFactory: logger,
		RTO: time.Duration(c.RTOms) * time.Millisecond, PermissionRefreshInterval: time.Duration(c.PermRefreshS) * time.Second,
	})
	if err != nil {
		return c14Result{kind: "harness", msg: err.Error()}
	}
	start := time.Now()
	teardown := func() {
		cl.Close()
		_ = srv.Close()
		n.CloseAll()
	}
	if err = cl.Listen(); err != nil {
		teardown()

		return c14Result{kind: "harness", msg: err.Error()}
	}
	credValid := c.Cred == "" || c.CredDurS >= 0
	time.Sleep(time.Duration(c.StartOffsetMs) * time.Millisecond)
	relay, err := cl.Allocate()
	if !credValid {
		teardown()
		if err == nil {
			return c14Result{kind: "expired-credential-allocates", msg: "Allocate succeeded with a time-windowed credential that had already expired"}
		}

		return c14Result{}
	}
	if err != nil {
		teardown()

		return c14Result{kind: "allocate-failed", msg: fmt.Sprintf("Allocate failed although at most 6 of 7 transmissions of any transaction are lost: %v", err)}
	}
	type rx struct {
		from    string
		payload []byte
	}
	var rmu sync.Mutex
	var got []rx
	done := make(chan struct{})
	// resume is non-nil while the application "does not read": the reader waits on it (a channel,
	// because a goroutine waiting for a mutex would not count as blocked for the bubble)
	var resume chan struct{}
	pauseReader := func() {
		rmu.Lock()
		resume = make(chan struct{})
		rmu.Unlock()
	}
	resumeReader := func() {
		rmu.Lock()
		close(resume)
		resume = nil
		rmu.Unlock()
	}
	startReader := func(conn net.PacketConn, finished chan struct{}) {
		go func() {
			defer close(finished)
			buf := make([]byte, 2048)
			for {
				rmu.Lock()
				ch := resume
				rmu.Unlock()
				if ch != nil {
					<-ch
				}
				k, from, err := conn.ReadFrom(buf)
				if err != nil {
					return
				}
				rmu.Lock()
				got = append(got, rx{from: from.String(), payload: append([]byte{}, buf[:k]...)})
				rmu.Unlock()
			}
		}()
	}
	startReader(relay, done)
	relayAddr := relay.LocalAddr().(*net.UDPAddr) //nolint:forcetypeassert
	fail := func(kind, f string, a ...any) *c14Result {
		r := &c14Result{kind: kind, msg: fmt.Sprintf("at %v of protocol time: ", time.Since(start).Round(time.Millisecond)) + fmt.Sprintf(f, a...) + "\n  log tail:\n    " + strings.Join(tail(logger.Lines(), 14), "\n    ")}
		if f := os.Getenv("VERIF_C14_LOGFILE"); f != "" && os.Getenv("VERIF_C14_LOG") != "" {
			_ = os.WriteFile(f, []byte(strings.Join(logger.Lines(), "\n")), 0o600)
		}
		_ = relay.Close()
		teardown()
		<-done

		return r
	}
	seq := 0
	for si, sg := range c.Segs {
		if sg.Realloc && si > 0 {
			// the application closes its relayed socket, allocates again on the same client and later
			// closes the old handle once more (a deferred Close): the new socket must be unaffected
			old := relay
			wireAtReClose := n.WireLen()
			if err := old.Close(); err != nil {
				return *fail("close-error", "Close of the relayed socket failed: %v", err)
			}
			wait := 8 * time.Second
			if v, perr := strconv.Atoi(os.Getenv("VERIF_C14_REALLOC_WAIT_MS")); perr == nil && v > 0 {
				wait = time.Duration(v) * time.Millisecond // experiment: re-allocate while the old socket's transactions may still be retransmitted
			}
			time.Sleep(wait)
			<-done
			nr, aerr := cl.Allocate()
			if aerr != nil {
				if cnt := srv.AllocationCount(); cnt != 0 {
					kind := "allocation-not-released"
					for _, d := range n.Wire(wireAtReClose) {
						if d.SrcSock == srvSock.ID && isSTUN(d.Data) {
							if m, perr := ref.Parse(d.Data); perr == nil && m.Method == ref.MethodRefresh && m.Class == ref.ClassError && m.ErrorCode() == 438 {
								kind = "close-refresh-stale-nonce" // the recorded known finding
							}
						}
					}

					return *fail(kind, "re-allocation failed (%v): the closed socket's allocation is still at the server (AllocationCount=%d)", aerr, cnt)
				}

				return *fail("reallocate-failed", "Allocate after closing the relayed socket failed: %v", aerr)
			}
			relay = nr
			relayAddr = relay.LocalAddr().(*net.UDPAddr) //nolint:forcetypeassert
			done = make(chan struct{})
			startReader(relay, done)
			written = map[int]bool{}
			crowdWritten = false
			if cerr := old.Close(); cerr == nil {
				return *fail("double-close-no-error", "the second Close of the old relayed socket returned nil")
			}
			res.reallocs++
		}
		flooded := false
		if sg.Flood > 0 && written[0] && joined(0, si) {
			// the application stops reading; peer 0 keeps sending
			pauseReader()
			flooded = true
			for i := 0; i < sg.Flood; i++ {
				_, _ = peers[0].WriteTo([]byte(fmt.Sprintf("flood seg=%d #%d", si, i)), relayAddr)
				if i%64 == 63 {
					synctest.Wait()
				}
			}
			synctest.Wait()
			res.floods++
		}
		time.Sleep(time.Duration(sg.GapS)*time.Second + 1100*time.Microsecond)
		if flooded {
			resumeReader()
			synctest.Wait()
		}
		if sg.HorizonMs != 0 {
			fmu.Lock()
			// the server's default nonces carry a minute count and turn stale when it is 61 behind
			at := time.Unix((nonceMint.Unix()/60+61)*60, 0).Add(time.Duration(sg.HorizonMs)*time.Millisecond + 100*time.Microsecond)
			fmu.Unlock()
			if d := time.Until(at); d > 0 {
				time.Sleep(d)
				res.atHorizon++
			}
		}
		switch sg.Refused {
		case 1:
			_, werr := relay.WriteTo([]byte("to a denied peer"), &net.UDPAddr{IP: c14DeniedIP, Port: 7000})
			synctest.Wait()
			if _, _, ok := deniedPeer.TryRead(); ok {
				return *fail("denied-peer-reached", "a datagram reached the peer the operator denies (WriteTo returned %v)", werr)
			}
			res.refused++
		case 2:
			_, _ = relay.WriteTo([]byte("to an IPv6 peer"), &net.UDPAddr{IP: net.ParseIP("fd00:2::9"), Port: 7000})
			synctest.Wait()
			res.refused++
		}
		for b := 0; b < max(sg.Burst, 1); b++ {
			for pi, p := range peers {
				if !joined(pi, si) {
					continue
				}
				seq++
				pa := &net.UDPAddr{IP: p.Local().IP, Port: p.Local().Port}
				if c.MixForms && seq%2 == 1 {
					// the application alternates between the address it was configured with (16-byte
					// form) and the one ReadFrom reports for that peer (4-byte form)
					pa.IP = pa.IP.To4()
				}
				c2p := func() *c14Result {
					out := []byte(fmt.Sprintf("c2p seg=%d burst=%d peer=%d seq=%d", si, b, pi, seq))
					if _, err := relay.WriteTo(out, pa); err != nil {
						return fail("relayed-write-failed", "WriteTo(%v) on the relayed socket failed: %v", pa, err)
					}
					synctest.Wait()
					data, from, ok := p.TryRead()
					if !ok {
						return fail("client-to-peer-lost", "probe %q to peer %v did not arrive (AllocationCount=%d)", out, pa, srv.AllocationCount())
					}
					if !bytes.Equal(data, out) || !from.IP.Equal(relayAddr.IP) || from.Port != relayAddr.Port {
						return fail("client-to-peer-altered", "peer %v received %q from %v, expected %q from %v", pa, data, from, out, relayAddr)
					}
					if _, _, more := p.TryRead(); more {
						return fail("client-to-peer-duplicated", "peer %v received the probe more than once", pa)
					}
					written[pi] = true
					res.probes++

					return nil
				}
				// toClient sends one datagram from a socket of the peer host towards the relayed address
				toClient := func(src *sim.UDPSock, tag, lost string) *c14Result {
					sa := &net.UDPAddr{IP: src.Local().IP, Port: src.Local().Port}
					in := []byte(fmt.Sprintf("%s seg=%d burst=%d peer=%d seq=%d", tag, si, b, pi, seq))
					rmu.Lock()
					got = got[:0]
					rmu.Unlock()
					_, _ = src.WriteTo(in, relayAddr)
					synctest.Wait()
					rmu.Lock()
					g := append([]rx{}, got...)
					rmu.Unlock()
					if len(g) != 1 {
						return fail(lost, "probe %q from %v (the client has written to peer %v): ReadFrom returned %d datagrams (AllocationCount=%d)", in, sa, pa, len(g), srv.AllocationCount())
					}
					if !bytes.Equal(g[0].payload, in) || g[0].from != sa.String() {
						return fail("peer-to-client-altered", "ReadFrom returned %q from %s, expected %q from %v", g[0].payload, g[0].from, in, sa)
					}
					res.probes++

					return nil
				}
				p2c := func() *c14Result { return toClient(p, "p2c", "peer-to-client-lost") }
				// the peer host's other port: never written to, admitted by the permission for its IP
				s2c := func() *c14Result {
					if !c.Sibling {
						return nil
					}
					if si > 0 && sg.GapS > 300 {
						res.siblingAfterIdle++
					}

					return toClient(siblings[pi], "s2c", "permitted-host-to-client-lost")
				}
				order := []func() *c14Result{c2p, p2c, s2c}
				if sg.PeerFirst && written[pi] {
					order = []func() *c14Result{s2c, p2c, c2p}
					res.peerFirst++
				}
				for _, f := range order {
					if r := f(); r != nil {
						return *r
					}
				}
			}
		}
		if len(crowd) > 0 {
			if !crowdWritten {
				for i, p := range crowd {
					pa := &net.UDPAddr{IP: p.Local().IP, Port: p.Local().Port}
					out := []byte(fmt.Sprintf("crowd c2p seg=%d host=%d", si, i))
					if _, err := relay.WriteTo(out, pa); err != nil {
						return *fail("relayed-write-failed", "WriteTo(%v) (crowd host %d of %d) on the relayed socket failed: %v", pa, i, len(crowd), err)
					}
					synctest.Wait()
					if data, _, ok := p.TryRead(); !ok || !bytes.Equal(data, out) {
						return *fail("client-to-peer-lost", "probe %q to crowd host %v did not arrive", out, pa)
					}
					res.probes++
				}
				crowdWritten = true
				res.crowdWrites++
			}
			// a rotating sample of the crowd, from the port the client never wrote to
			step := max(len(crowd)/12, 1)
			for i := si % step; i < len(crowd); i += step {
				src := crowdSiblings[i]
				sa := &net.UDPAddr{IP: src.Local().IP, Port: src.Local().Port}
				in := []byte(fmt.Sprintf("crowd s2c seg=%d host=%d", si, i))
				rmu.Lock()
				got = got[:0]
				rmu.Unlock()
				_, _ = src.WriteTo(in, relayAddr)
				synctest.Wait()
				rmu.Lock()
				g := append([]rx{}, got...)
				rmu.Unlock()
				if len(g) != 1 || !bytes.Equal(g[0].payload, in) || g[0].from != sa.String() {
					return *fail("permitted-host-to-client-lost", "probe %q from %v (crowd host %d of %d, the client has written to its port 7000): ReadFrom returned %d datagrams", in, sa, i, len(crowd), len(g))
				}
				res.probes++
				res.crowdProbes++
			}
		}
		if cnt := srv.AllocationCount(); cnt != 1 {
			return *fail("allocation-count", "AllocationCount() = %d while the relayed socket is open", cnt)
		}
	}
	if pat := os.Getenv("VERIF_C14_LOG"); pat != "" { // debugging aid: grep the library log into a file
		var sb strings.Builder
		for _, l := range logger.Lines() {
			if strings.Contains(l, pat) {
				sb.WriteString(l + "\n")
			}
		}
		_ = os.WriteFile(os.Getenv("VERIF_C14_LOGFILE"), []byte(sb.String()), 0o600)
	}
	res.hours = time.Since(start).Hours()
	fmu.Lock()
	res.lossy = lossy
	fmu.Unlock()
	// Close releases the allocation at once
	wireAtClose := n.WireLen()
	if err := relay.Close(); err != nil {
		return *fail("close-error", "Close of the relayed socket failed: %v", err)
	}
	// the Refresh(0) may need retransmissions under the loss plan: allow one full schedule
	time.Sleep(8 * time.Second)
	synctest.Wait()
	if cnt := srv.AllocationCount(); cnt != 0 {
		r := c14Result{kind: "allocation-not-released", msg: fmt.Sprintf("AllocationCount() = %d eight seconds after closing the relayed socket", cnt), probes: res.probes, hours: res.hours}
		// known finding: the Refresh(0) sent by Close is fire-and-forget; if the client's nonce
		// has just passed its one-hour horizon the server answers 438 and nobody retries
		for _, d := range n.Wire(wireAtClose) {
			if d.SrcSock == srvSock.ID && isSTUN(d.Data) {
				if m, err := ref.Parse(d.Data); err == nil && m.Method == ref.MethodRefresh && m.Class == ref.ClassError && m.ErrorCode() == 438 {
					r.kind = "close-refresh-stale-nonce"
					r.msg = "Close sent Refresh(lifetime 0) with a nonce older than an hour, the server answered 438 and the fire-and-forget request was not retried: " + r.msg
				}
			}
		}
		teardown()
		<-done

		return r
	}
	for _, s := range n.Socks() {
		if s.Owner == "" && s.Local().IP.Equal(net.IPv4(10, 9, 0, 1)) && !s.IsClosed() {
			r := c14Result{kind: "relay-socket-open", msg: "the relay socket is still open after the allocation was released"}
			teardown()
			<-done

			return r
		}
	}
	teardown()
	<-done

	return res
}

func tail(l []string, n int) []string {
	if len(l) > n {
		return l[len(l)-n:]
	}

	return l
}

func genC14(rt *rapid.T, maxHours int) *C14Case {
	c := &C14Case{}
	c.PermRefreshS = rapid.SampledFrom([]int{0, 0, 30, 60, 120, 240}).Draw(rt, "permRefresh")
	pr := c.PermRefreshS
	if pr == 0 {
		pr = 120
	}
	c.LifetimeS = rapid.SampledFrom([]int{0, 0, 60, 61, 120, 600, 1800, 3600, 7200}).Draw(rt, "lifetime")
	c.PermTimeoutS = rapid.OneOf(rapid.Just(0), rapid.IntRange(pr+30, pr+600)).Draw(rt, "permTimeout")
	if c.PermTimeoutS == 0 && pr+30 > 300 {
		c.PermTimeoutS = pr + 30
	}
	c.ChanTimeoutS = rapid.OneOf(rapid.Just(0), rapid.IntRange(300+30+30, 1800)).Draw(rt, "chanTimeout")
	c.RTOms = rapid.SampledFrom([]int{0, 0, 50, 100, 200, 500}).Draw(rt, "rto")
	c.NPeers = rapid.IntRange(1, 4).Draw(rt, "npeers")
	budget := rapid.IntRange(1800, maxHours*3600).Draw(rt, "duration")
	for total := 0; total < budget && len(c.Segs) < 400; {
		gap := rapid.OneOf(
			rapid.IntRange(1, 120),
			rapid.SampledFrom([]int{29, 30, 31, 59, 60, 119, 120, 121, 299, 300, 301, 599, 600, 601}),
			rapid.IntRange(600, 7200),
		).Draw(rt, "gap")
		sg := Seg{GapS: gap, Burst: rapid.SampledFrom([]int{1, 1, 1, 2, 5}).Draw(rt, "burst")}
		if rapid.IntRange(0, 9).Draw(rt, "refusedSeg") == 0 {
			sg.Refused = rapid.IntRange(1, 2).Draw(rt, "refusedKind")
		}
		if len(c.Segs) > 0 && rapid.IntRange(0, 19).Draw(rt, "reallocSeg") == 0 {
			sg.Realloc = true
		}
		if len(c.Segs) > 0 && rapid.IntRange(0, 11).Draw(rt, "floodSeg") == 0 {
			sg.Flood = rapid.SampledFrom([]int{1000, 1025, 1100, 1500, 3000}).Draw(rt, "flood")
		}
		c.Segs = append(c.Segs, sg)
		total += gap
	}
	for i := range c.Segs {
		if i > 0 && rapid.IntRange(0, 5).Draw(rt, "peerFirst") == 0 {
			c.Segs[i].PeerFirst = true
		}
	}
	c.Sibling = rapid.IntRange(0, 2).Draw(rt, "sibling") > 0
	c.MixForms = rapid.Bool().Draw(rt, "mixForms")
	if rapid.IntRange(0, 5).Draw(rt, "hasCrowd") == 0 {
		c.Crowd = rapid.SampledFrom([]int{12, 40, 100, 114, 118, 125, 160}).Draw(rt, "crowd")
	}
	if rapid.IntRange(0, 2).Draw(rt, "lateJoiners") == 0 {
		// some peers are first written to late in the session (e.g. beyond the nonce horizon)
		for i := 0; i < c.NPeers; i++ {
			c.JoinSeg = append(c.JoinSeg, rapid.OneOf(rapid.Just(0), rapid.IntRange(0, len(c.Segs)-1)).Draw(rt, "join"))
		}
		c.JoinSeg[rapid.IntRange(0, c.NPeers-1).Draw(rt, "joinFirst")] = 0
	}
	if rapid.IntRange(0, 1).Draw(rt, "phase") == 0 {
		c.StartOffsetMs = rapid.OneOf(rapid.IntRange(0, 119999), rapid.SampledFrom([]int{1, 999, 30000, 59999, 60001})).Draw(rt, "startOffset")
	}
	if rapid.IntRange(0, 2).Draw(rt, "horizonFragment") == 0 {
		// the first activity after the nonce turns stale is a write (often to a peer that joins
		// right then); afterwards an idle period, then the peers speak first
		total := 0
		for i := range c.Segs {
			total += c.Segs[i].GapS
			if total < 3500 || i+1 >= len(c.Segs) {
				continue
			}
			if over := total - 3590; over > 0 && c.Segs[i].GapS > over {
				c.Segs[i].GapS -= over // stop short of the horizon, HorizonMs does the rest
			}
			c.Segs[i].HorizonMs = rapid.SampledFrom([]int{1, 1, 5, 50, 500, 5000, -1}).Draw(rt, "horizonMs")
			if c.NPeers > 1 && rapid.Bool().Draw(rt, "joinAtHorizon") {
				for len(c.JoinSeg) < c.NPeers {
					c.JoinSeg = append(c.JoinSeg, 0)
				}
				c.JoinSeg[c.NPeers-1] = i
			}
			c.Segs[i+1].GapS = rapid.SampledFrom([]int{200, 301, 310, 330, 400, 599}).Draw(rt, "afterHorizonGap")
			c.Segs[i+1].PeerFirst = true
			c.Sibling = true
			if rapid.IntRange(0, 2).Draw(rt, "reallocAtHorizon") == 0 {
				// the application closes the socket and allocates again right after the burst at
				// the horizon, while transactions that met the stale nonce are still being redone
				c.Segs[i+1].Realloc = true
			}

			break
		}
	}
	nf := rapid.IntRange(1, 7).Draw(rt, "nfail")
	for i := 0; i < nf; i++ {
		c.FailRTs = append(c.FailRTs, rapid.SampledFrom([]int{0, 0, 0, 1, 2, 3, 6}).Draw(rt, "failRT"))
		c.DropResp = append(c.DropResp, rapid.Bool().Draw(rt, "dropResp"))
	}
	c.DupCtl = rapid.IntRange(0, 3).Draw(rt, "dup") == 0
	if rapid.IntRange(0, 3).Draw(rt, "delay") == 0 {
		c.DelayCtlMs = rapid.IntRange(1, 40).Draw(rt, "delayMs")
	}
	switch rapid.IntRange(0, 7).Draw(rt, "cred") {
	case 0:
		c.Cred = "ltc"
	case 1:
		c.Cred = "rest"
	}
	if c.Cred != "" {
		c.CredDurS = rapid.SampledFrom([]int{-3600, -1, 172800, 172800, 864000}).Draw(rt, "credDur") // valid ones outlive the session
	}

	return c
}

func c14NonTrivial(c *C14Case, res c14Result) bool {
	idle := false
	for _, s := range c.Segs {
		if s.GapS > 600 {
			idle = true
		}
	}

	return (res.hours > 61.0/60 || idle) && res.lossy > 0
}

func TestC14(t *testing.T) {
	r := vkit.Start(t, "C14")
	defer r.Finish()
	r.Assume("server lifetime >= 60 s, permission timeout >= client permission refresh interval + 30 s, channel timeout >= 5 min + 30 s + 30 s (the client's binding refresh and check intervals); every STUN transaction keeps at least one of its 7 transmissions; data datagrams themselves are never dropped by the fault script")
	do := func(c *C14Case, sample string) (string, string) {
		r.Eval(1)
		res := runC14(t, c)
		r.LabelN("probes", res.probes)
		if res.hours > 1.02 {
			r.Label("longer-than-nonce-horizon")
		}
		if c.Cred != "" {
			r.Label("time-windowed-credential:" + c.Cred)
		}
		if res.refused > 0 {
			r.Label("write-to-refused-peer")
		}
		if res.siblingAfterIdle > 0 {
			r.Label("permission-only-flow-after-idle")
		}
		if len(c.JoinSeg) > 0 {
			r.Label("late-joining-peers")
		}
		if res.atHorizon > 0 {
			r.Label("burst-right-at-nonce-horizon")
		}
		if res.floods > 0 {
			r.Label("reader-paused-under-flood")
		}
		if res.reallocs > 0 {
			r.Label("re-allocation-and-stale-close")
		}
		if res.peerFirst > 0 {
			r.Label("peers-speak-first")
		}
		if res.crowdProbes > 0 {
			r.Label(fmt.Sprintf("crowd-of-%d-peer-hosts", c.Crowd))
			r.LabelN("crowd-probes", res.crowdProbes)
		}
		if c14NonTrivial(c, res) {
			r.NonTrivial(vkit.Hash64(c))
			r.Label("nontrivial")
			if sample != "" {
				r.Sample(sample, func() any {
					cc := *c
					if len(cc.Segs) > 12 {
						cc.Segs = cc.Segs[:12]
					}

					return map[string]any{"case_first_segments": cc, "segments": len(c.Segs), "protocol_hours": res.hours, "probes": res.probes, "lossy_transactions": res.lossy}
				})
			}
		}
		if res.kind != "" && r.IsKnown("C14."+res.kind) {
			return "", ""
		}

		return res.kind, res.msg
	}
	if r.Replay != "" {
		var c C14Case
		if err := vkit.LoadJSON(r.Replay, &c); err != nil {
			t.Fatalf("cannot load replay: %v", err)
		}
		kind, msg := do(&c, "")
		fmt.Printf("replay %s: kind=%q %s\n", r.Replay, kind, msg)
		if kind != "" {
			r.Violate(kind, msg, &c)
		}

		return
	}
	for _, f := range r.RegressFiles(".json") {
		var c C14Case
		if err := vkit.LoadJSON(f, &c); err != nil {
			t.Fatalf("bad regress file %s: %v", f, err)
		}
		reps := 1
		if strings.Contains(f, "sched-") {
			reps = 6 // the outcome depends on the order of goroutines woken at the same instant
		}
		for i := 0; i < reps; i++ {
			if kind, msg := do(&c, ""); kind != "" {
				r.Violate(kind, "regress "+f+": "+msg, &c)

				break
			}
		}
	}
	if r.Violations() > 0 {
		return
	}
	maxHours := 3
	if r.Thorough() {
		maxHours = 12
	}
	r.Rapid(t, "random", 0, r.Checks, func(rt *rapid.T) {
		c := genC14(rt, maxHours)
		r.Journal(c)
		kind, msg := do(c, "random")
		if kind != "" {
			r.NoteFail(kind, msg, c)
			rt.Fatalf("C14 %s", kind)
		}
	})
}

func c14LogKeep() int {
	if os.Getenv("VERIF_C14_LOG") != "" {
		return 200000
	}

	return 200
}
