package cliworld

import (
	"encoding/binary"
	"fmt"
	"net"
	"strings"
	"testing"
	"testing/synctest"
	"time"

	"github.com/pion/turn/v5"
	"github.com/pion/turn/v5/internal/zzverif/ref"
	"github.com/pion/turn/v5/internal/zzverif/sim"
	"github.com/pion/turn/v5/internal/zzverif/vkit"
	"pgregory.net/rapid"
)

// SFrame is one well-framed but hostile frame the server side writes into the client's stream.
type SFrame struct {
	Kind string `json:"kind"` // stun | chan
	Len  int    `json:"len"`  // declared (and actual) body / payload length
	Num  uint16 `json:"num,omitempty"`
	Cuts int    `json:"cuts,omitempty"` // the frame is written in this many segments
	Seed uint64 `json:"seed,omitempty"`
}

// C09StreamCase: pion's client on a stream transport (Client.Listen over a STUNConn), fed frames
// whose framing is valid but whose size or content is hostile; also the replay format.
type C09StreamCase struct {
	Frames       []SFrame `json:"frames"`
	ClientStream bool     `json:"c09_client_stream"`
}

func runC09Stream(t *testing.T, c *C09StreamCase) (res c09Result) {
	t.Helper()
	defer func() {
		if p := recover(); p != nil {
			s := fmt.Sprint(p)
			if strings.Contains(s, "blocked goroutines remain") || strings.Contains(s, "deadlock") {
				if res.kind == "" {
					res = c09Result{"goroutine-stuck", "client goroutines remain blocked after everything was closed: " + s}
				}

				return
			}
			res = c09Result{"panic", s}
		}
	}()
	synctest.Test(t, func(t *testing.T) { res = runC09StreamInner(c) })

	return res
}

func runC09StreamInner(c *C09StreamCase) (res c09Result) {
	n := sim.NewNet()
	logger := sim.NewLogger(60)
	lis, err := n.ListenTCPAt("tcp4", net.IPv4(10, 0, 0, 1), 3478)
	if err != nil {
		return c09Result{"harness", err.Error()}
	}
	cli, err := n.DialTCPFrom(&net.TCPAddr{IP: net.IPv4(10, 1, 0, 1), Port: 5000}, &net.TCPAddr{IP: net.IPv4(10, 0, 0, 1), Port: 3478})
	if err != nil {
		return c09Result{"harness", err.Error()}
	}
	srvEnd := lis.TryAccept()
	if srvEnd == nil {
		return c09Result{"harness", "no server end"}
	}
	// the scripted server: answers Binding requests, ignores everything else
	go func() {
		var buf []byte
		tmp := make([]byte, 70000)
		for {
			k, rerr := srvEnd.Read(tmp)
			if rerr != nil {
				return
			}
			buf = append(buf, tmp[:k]...)
			for {
				kind, size, complete := ref.NextFrame(buf)
				if kind == ref.FrameInvalid || !complete || size == 0 {
					break
				}
				if kind == ref.FrameSTUN {
					if m, perr := ref.Parse(buf[:size]); perr == nil && m.Method == ref.MethodBinding && m.Class == ref.ClassRequest {
						r := &ref.Msg{Method: ref.MethodBinding, Class: ref.ClassSuccess, TxID: m.TxID}
						r.Add(ref.AttrXORMappedAddress, ref.XorAddr(net.IPv4(10, 1, 0, 1), 5000, m.TxID))
						_, _ = srvEnd.Write(r.Encode())
					}
				}
				buf = buf[size:]
			}
		}
	}()
	cl, err := turn.NewClient(&turn.ClientConfig{
		STUNServerAddr: "10.0.0.1:3478", TURNServerAddr: "10.0.0.1:3478", Conn: turn.NewSTUNConn(cli), Net: &sim.TNet{N: n},
		Username: "alice", Password: "pw", Realm: "sim.realm", LoggerFactory: logger, RTO: 100 * time.Millisecond,
	})
	if err != nil {
		return c09Result{"harness", err.Error()}
	}
	defer func() {
		cl.Close()
		n.CloseAll()
	}()
	if err := cl.Listen(); err != nil {
		return c09Result{"harness", err.Error()}
	}
	probe := func(ctx string) *c09Result {
		done := make(chan error, 1)
		go func() {
			_, e := cl.SendBindingRequest()
			done <- e
		}()
		time.Sleep(12 * time.Second)
		synctest.Wait()
		select {
		case e := <-done:
			if e != nil {
				return &c09Result{"client-dead-after-hostile-frame", fmt.Sprintf("%s: the client no longer completes a transaction: %v", ctx, e)}
			}
		default:
			return &c09Result{"client-hangs-after-hostile-frame", ctx + ": a Binding transaction neither completed nor failed within 12 s"}
		}

		return nil
	}
	if r := probe("before any hostile frame"); r != nil {
		return c09Result{"harness", r.msg}
	}
	for i, f := range c.Frames {
		var raw []byte
		switch f.Kind {
		case "chan":
			raw = make([]byte, 4+((f.Len+3)&^3))
			binary.BigEndian.PutUint16(raw[0:2], f.Num)
			binary.BigEndian.PutUint16(raw[2:4], uint16(f.Len)) //nolint:gosec
		default:
			raw = make([]byte, 20+f.Len)
			binary.BigEndian.PutUint16(raw[0:2], ref.MsgType(ref.MethodData, ref.ClassIndication))
			binary.BigEndian.PutUint16(raw[2:4], uint16(f.Len)) //nolint:gosec
			binary.BigEndian.PutUint32(raw[4:8], ref.MagicCookie)
		}
		for j := 8; j < len(raw); j++ {
			raw[j] = byte(f.Seed + uint64(j)*131)
		}
		if f.Kind == "chan" {
			for j := 4 + f.Len; j < len(raw); j++ {
				raw[j] = 0
			}
		}
		cuts := max(f.Cuts, 1)
		for k := 0; k < cuts; k++ {
			_, _ = srvEnd.Write(raw[len(raw)*k/cuts : len(raw)*(k+1)/cuts])
			synctest.Wait()
		}
		ctx := fmt.Sprintf("frame %d (%s, declared length %d, %d bytes on the stream, %d segments)", i, f.Kind, f.Len, len(raw), cuts)
		if r := probe(ctx); r != nil {
			return *r
		}
	}

	return res
}

func genC09Stream(rt *rapid.T) *C09StreamCase {
	c := &C09StreamCase{ClientStream: true}
	for i, k := 0, rapid.IntRange(1, 5).Draw(rt, "nframes"); i < k; i++ {
		f := SFrame{Kind: rapid.SampledFrom([]string{"stun", "chan"}).Draw(rt, "kind"), Seed: rapid.Uint64Range(0, 1<<20).Draw(rt, "seed")}
		f.Len = rapid.OneOf(
			rapid.SampledFrom([]int{0, 4, 1500, 65508, 65511, 65512, 65515, 65516, 65520, 65528, 65531, 65532, 65535}),
			rapid.IntRange(65480, 65535), rapid.IntRange(0, 70),
		).Draw(rt, "len")
		if f.Kind == "stun" {
			f.Len &^= 3
		}
		f.Num = rapid.SampledFrom([]uint16{0x4000, 0x4001, 0x7FFF}).Draw(rt, "num")
		f.Cuts = rapid.SampledFrom([]int{1, 1, 2, 5, 64}).Draw(rt, "cuts")
		c.Frames = append(c.Frames, f)
	}

	return c
}

func TestC09ClientStream(t *testing.T) {
	r := vkit.Start(t, "C09")
	defer r.Finish()
	do := func(c *C09StreamCase, sample string) (string, string) {
		r.Eval(1)
		r.Label("client-on-stream-transport")
		for _, f := range c.Frames {
			if (f.Kind == "stun" && 20+f.Len > 65535) || (f.Kind == "chan" && 4+((f.Len+3)&^3) > 65535) {
				r.Label("frame-larger-than-the-client's-read-buffer")
			}
		}
		r.NonTrivial(vkit.Hash64(c))
		if sample != "" {
			r.Sample(sample, func() any { return c })
		}
		res := runC09Stream(t, c)
		if res.kind != "" && r.IsKnown("C09."+res.kind) {
			return "", ""
		}

		return res.kind, res.msg
	}
	if r.Replay != "" {
		var c C09StreamCase
		if err := vkit.LoadJSON(r.Replay, &c); err != nil || !c.ClientStream {
			fmt.Println("REPLAY-NOT-MINE: not a client stream case")

			return
		}
		kind, msg := do(&c, "")
		fmt.Printf("replay %s: kind=%q %s\n", r.Replay, kind, msg)
		if kind != "" {
			r.Violate(kind, msg, &c)
		}

		return
	}
	for _, f := range r.RegressFiles(".cstream.json") {
		var c C09StreamCase
		if err := vkit.LoadJSON(f, &c); err != nil {
			t.Fatalf("bad regress file %s: %v", f, err)
		}
		if kind, msg := do(&c, ""); kind != "" {
			r.Violate(kind, "regress "+f+": "+msg, &c)
		}
	}
	if r.Violations() > 0 {
		return
	}
	r.Rapid(t, "client-stream", 0, r.Checks, func(rt *rapid.T) {
		c := genC09Stream(rt)
		r.Journal(c)
		kind, msg := do(c, "client-stream")
		if kind != "" {
			r.NoteFail(kind, msg, c)
			rt.Fatalf("C09 %s", kind)
		}
	})
}
