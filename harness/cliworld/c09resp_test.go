package cliworld

import (
	"fmt"
	"net"
	"strings"
	"sync"
	"testing"
	"testing/synctest"
	"time"

	"github.com/pion/turn/v5"
	"github.com/pion/turn/v5/internal/zzverif/ref"
	"github.com/pion/turn/v5/internal/zzverif/sim"
	"github.com/pion/turn/v5/internal/zzverif/vkit"
	"pgregory.net/rapid"
)

// C09RespCase: the datagrams the client's inbound handler gets are the server's answers to the
// client's own requests - well-formed STUN, correct transaction id, hostile content (a zero or
// huge LIFETIME, missing attributes, odd error codes, the wrong class or method). Whatever the
// answers, every API call returns, the client neither panics nor spins, and Close ends it.
// Reactions are cycled per method. Also the replay format.
type C09RespCase struct {
	Allocate []string `json:"allocate"`
	Refresh  []string `json:"refresh"`
	Perm     []string `json:"create_permission"`
	Bind     []string `json:"channel_bind"`
	Writes   int      `json:"writes"`
	IdleS    int      `json:"idle_s"`
	Resp     bool     `json:"c09_responses"`
}

var (
	allocReacts = []string{"ok", "ok", "lifetime0", "lifetime-max", "lifetime1", "no-lifetime", "no-relayed", "no-mapped", "relayed-port0", "err-300", "err-401", "err-437", "err-438", "err-438-bare", "err-486", "err-508", "err-699", "err-bare", "indication", "other-method", "silence"}
	otherReacts = []string{"ok", "ok", "ok", "lifetime0", "lifetime-max", "no-lifetime", "err-400", "err-403", "err-437", "err-438", "err-438-bare", "err-508", "err-699", "err-bare", "indication", "other-method", "silence"}
)

type hostileServer struct {
	mu      sync.Mutex
	sock    *sim.UDPSock
	client  *net.UDPAddr
	c       *C09RespCase
	idx     map[int]int
	nonceN  int
	at      time.Time
	burst   int
	total   int
	spin    string
	muted   bool
	reacted map[string]int
}

func (s *hostileServer) handle(data []byte) {
	s.mu.Lock()
	defer s.mu.Unlock()
	m, err := ref.Parse(data)
	if err != nil || m.Class != ref.ClassRequest {
		return
	}
	s.total++
	// spinning: hundreds of requests within one instant of the (virtual) clock
	if now := time.Now(); now.Equal(s.at) {
		s.burst++
		if s.burst > 300 && s.spin == "" {
			s.spin = fmt.Sprintf("the client sent %d requests (last: method %#x) within one instant of the clock, %v into the case", s.burst, m.Method, now.Sub(time.Date(2000, 1, 1, 0, 0, 0, 0, time.UTC)))
			s.muted = true // let the clock move on
		}
	} else {
		s.at, s.burst = now, 1
	}
	if s.muted {
		return
	}
	var script []string
	switch m.Method {
	case ref.MethodAllocate:
		if _, ok := m.Get(ref.AttrMessageIntegrity); !ok {
			s.nonceN++
			s.reply(m, ref.ClassError, 401, ref.Attr{Type: ref.AttrNonce, Value: []byte(fmt.Sprintf("n%d", s.nonceN))}, ref.Attr{Type: ref.AttrRealm, Value: []byte("sim.realm")})

			return
		}
		script = s.c.Allocate
	case ref.MethodRefresh:
		script = s.c.Refresh
	case ref.MethodCreatePermission:
		script = s.c.Perm
	case ref.MethodChannelBind:
		script = s.c.Bind
	case ref.MethodBinding:
		s.reply(m, ref.ClassSuccess, 0, ref.Attr{Type: ref.AttrXORMappedAddress, Value: ref.XorAddr(s.client.IP, s.client.Port, m.TxID)})

		return
	default:
		return
	}
	react := "ok"
	if len(script) > 0 {
		react = script[s.idx[m.Method]%len(script)]
		s.idx[m.Method]++
	}
	s.reacted[fmt.Sprintf("%#x:%s", m.Method, react)]++
	relayed := ref.Attr{Type: ref.AttrXORRelayedAddress, Value: ref.XorAddr(net.IPv4(10, 9, 0, 1), 50000, m.TxID)}
	mapped := ref.Attr{Type: ref.AttrXORMappedAddress, Value: ref.XorAddr(s.client.IP, s.client.Port, m.TxID)}
	life := func(v uint32) ref.Attr { return ref.Attr{Type: ref.AttrLifetime, Value: ref.U32(v)} }
	isAlloc := m.Method == ref.MethodAllocate
	ok := func(attrs ...ref.Attr) {
		if !isAlloc && m.Method != ref.MethodRefresh {
			attrs = nil
		}
		s.reply(m, ref.ClassSuccess, 0, attrs...)
	}
	switch react {
	case "ok":
		if isAlloc {
			ok(relayed, life(600), mapped)
		} else {
			ok(life(600))
		}
	case "lifetime0":
		if isAlloc {
			ok(relayed, life(0), mapped)
		} else {
			ok(life(0))
		}
	case "lifetime1":
		ok(relayed, life(1), mapped)
	case "lifetime-max":
		if isAlloc {
			ok(relayed, life(1<<32-1), mapped)
		} else {
			ok(life(1<<32 - 1))
		}
	case "no-lifetime":
		if isAlloc {
			ok(relayed, mapped)
		} else {
			ok()
		}
	case "no-relayed":
		ok(life(600), mapped)
	case "no-mapped":
		ok(relayed, life(600))
	case "relayed-port0":
		ok(ref.Attr{Type: ref.AttrXORRelayedAddress, Value: ref.XorAddr(net.IPv4(0, 0, 0, 0), 0, m.TxID)}, life(600), mapped)
	case "err-438":
		s.nonceN++
		s.reply(m, ref.ClassError, 438, ref.Attr{Type: ref.AttrNonce, Value: []byte(fmt.Sprintf("n%d", s.nonceN))}, ref.Attr{Type: ref.AttrRealm, Value: []byte("sim.realm")})
	case "err-438-bare":
		s.reply(m, ref.ClassError, 438)
	case "err-bare":
		_, _ = s.sock.WriteTo((&ref.Msg{Method: m.Method, Class: ref.ClassError, TxID: m.TxID}).Encode(), s.client)
	case "indication":
		_, _ = s.sock.WriteTo((&ref.Msg{Method: m.Method, Class: ref.ClassIndication, TxID: m.TxID}).Encode(), s.client)
	case "other-method":
		r := &ref.Msg{Method: ref.MethodBinding, Class: ref.ClassSuccess, TxID: m.TxID}
		r.Add(ref.AttrXORMappedAddress, ref.XorAddr(s.client.IP, s.client.Port, m.TxID))
		_, _ = s.sock.WriteTo(r.Encode(), s.client)
	case "silence":
	default:
		var code int
		if _, err := fmt.Sscanf(react, "err-%d", &code); err == nil {
			s.reply(m, ref.ClassError, code)
		}
	}
}

func (s *hostileServer) reply(m *ref.Msg, class int, code int, extra ...ref.Attr) {
	r := &ref.Msg{Method: m.Method, Class: class, TxID: m.TxID}
	if class == ref.ClassError {
		r.Add(ref.AttrErrorCode, []byte{0, 0, byte(code / 100), byte(code % 100)})
	}
	r.Attrs = append(r.Attrs, extra...)
	_, _ = s.sock.WriteTo(r.Encode(), s.client)
}

type c09respResult struct {
	kind, msg string
	allocated bool
	requests  int
}

func runC09Resp(t *testing.T, c *C09RespCase) (res c09respResult) {
	t.Helper()
	defer func() {
		if p := recover(); p != nil {
			s := fmt.Sprint(p)
			if strings.Contains(s, "blocked goroutines remain") || strings.Contains(s, "deadlock") {
				if res.kind == "" {
					res.kind, res.msg = "goroutine-stuck", "client goroutines remain blocked after the relayed socket and the client were closed: "+s
				}

				return
			}
			res.kind, res.msg = "panic", s
		}
	}()
	synctest.Test(t, func(t *testing.T) { res = runC09RespInner(c) })

	return res
}

func runC09RespInner(c *C09RespCase) (res c09respResult) { //nolint:cyclop
	n := sim.NewNet()
	logger := sim.NewLogger(60)
	ssock, _ := n.BindUDP("udp4", net.IPv4(10, 0, 0, 1), 3478)
	csock, _ := n.BindUDP("udp4", net.IPv4(10, 1, 0, 1), 5000)
	srv := &hostileServer{sock: ssock, client: &net.UDPAddr{IP: net.IPv4(10, 1, 0, 1), Port: 5000}, c: c, idx: map[int]int{}, reacted: map[string]int{}}
	go func() {
		buf := make([]byte, 70000)
		for {
			k, _, err := ssock.ReadFrom(buf)
			if err != nil {
				return
			}
			srv.handle(append([]byte{}, buf[:k]...))
		}
	}()
	cl, err := turn.NewClient(&turn.ClientConfig{
		STUNServerAddr: "10.0.0.1:3478", TURNServerAddr: "10.0.0.1:3478", Conn: csock, Net: &sim.TNet{N: n}, Username: "alice", Password: "pw", Realm: "sim.realm", LoggerFactory: logger, RTO: 100 * time.Millisecond,
	})
	if err != nil {
		return c09respResult{kind: "harness", msg: err.Error()}
	}
	if err := cl.Listen(); err != nil {
		return c09respResult{kind: "harness", msg: err.Error()}
	}
	closed := false
	var relay net.PacketConn
	defer func() {
		if relay != nil {
			_ = relay.Close() // (stops its timers; a second Close only returns an error)
		}
		if !closed {
			cl.Close()
		}
		n.CloseAll()
	}()
	fail := func(kind, f string, a ...any) c09respResult {
		r := res
		srv.mu.Lock()
		r.requests = srv.total
		srv.mu.Unlock()
		r.kind, r.msg = kind, fmt.Sprintf(f, a...)+"\n  log tail:\n    "+strings.Join(tail(logger.Lines(), 10), "\n    ")

		return r
	}
	spinning := func() string {
		srv.mu.Lock()
		defer srv.mu.Unlock()

		return srv.spin
	}
	// every API call returns within a minute of protocol time, whatever it returns
	call := func(what string, f func()) *c09respResult {
		done := make(chan struct{})
		go func() {
			defer close(done)
			f()
		}()
		time.Sleep(60 * time.Second)
		synctest.Wait()
		if s := spinning(); s != "" {
			r := fail("client-busy-loop", "%s: %s", what, s)

			return &r
		}
		select {
		case <-done:
		default:
			r := fail("api-call-hangs", "%s has not returned after 60 s", what)

			return &r
		}

		return nil
	}
	for attempt := 0; attempt < 3 && relay == nil; attempt++ {
		if r := call("Allocate", func() { relay, _ = cl.Allocate() }); r != nil {
			return *r
		}
	}
	if relay != nil {
		res.allocated = true
		peer := &net.UDPAddr{IP: net.IPv4(10, 2, 0, 1), Port: 7000}
		for w := 0; w < c.Writes; w++ {
			if r := call("WriteTo", func() { _, _ = relay.WriteTo([]byte("x"), &net.UDPAddr{IP: peer.IP, Port: peer.Port + w%2}) }); r != nil {
				return *r
			}
		}
		// the client's own upkeep (refresh timers) runs against the same hostile answers
		for s := 0; s < c.IdleS; s += 60 {
			time.Sleep(60 * time.Second)
			synctest.Wait()
			if sp := spinning(); sp != "" {
				return fail("client-busy-loop", "while idle: %s", sp)
			}
		}
		if r := call("Close of the relayed socket", func() { _ = relay.Close() }); r != nil {
			return *r
		}
	}
	if r := call("Client.Close", func() { cl.Close() }); r != nil {
		return *r
	}
	closed = true
	srv.mu.Lock()
	res.requests = srv.total
	srv.mu.Unlock()

	return res
}

func genC09Resp(rt *rapid.T) *C09RespCase {
	c := &C09RespCase{Resp: true}
	c.Allocate = rapid.SliceOfN(rapid.SampledFrom(allocReacts), 1, 3).Draw(rt, "allocate")
	c.Refresh = rapid.SliceOfN(rapid.SampledFrom(otherReacts), 1, 4).Draw(rt, "refresh")
	c.Perm = rapid.SliceOfN(rapid.SampledFrom(otherReacts), 1, 4).Draw(rt, "perm")
	c.Bind = rapid.SliceOfN(rapid.SampledFrom(otherReacts), 1, 4).Draw(rt, "bind")
	c.Writes = rapid.IntRange(0, 4).Draw(rt, "writes")
	c.IdleS = rapid.SampledFrom([]int{0, 60, 600, 1300}).Draw(rt, "idle")

	return c
}

func TestC09ClientResponses(t *testing.T) {
	r := vkit.Start(t, "C09")
	defer r.Finish()
	do := func(c *C09RespCase, sample string) (string, string) {
		r.Eval(1)
		res := runC09Resp(t, c)
		r.LabelN("responses:requests-answered", res.requests)
		if res.allocated {
			r.Label("responses:allocation-obtained")
		}
		for _, a := range c.Allocate {
			r.Label("responses:allocate:" + a)
		}
		hostile := false
		for _, l := range [][]string{c.Allocate, c.Refresh, c.Perm, c.Bind} {
			for _, a := range l {
				hostile = hostile || a != "ok"
			}
		}
		if hostile && res.requests > 2 {
			r.NonTrivial(vkit.Hash64(c))
			if sample != "" {
				r.Sample(sample, func() any { return c })
			}
		}
		if res.kind != "" && r.IsKnown("C09."+res.kind) {
			return "", ""
		}

		return res.kind, res.msg
	}
	if r.Replay != "" {
		var c C09RespCase
		if err := vkit.LoadJSON(r.Replay, &c); err != nil || !c.Resp {
			fmt.Println("REPLAY-NOT-MINE: not a hostile-responses case")

			return
		}
		kind, msg := do(&c, "")
		fmt.Printf("replay %s: kind=%q %s\n", r.Replay, kind, msg)
		if kind != "" {
			r.Violate(kind, msg, &c)
		}

		return
	}
	for _, f := range r.RegressFiles(".resp.json") {
		var c C09RespCase
		if err := vkit.LoadJSON(f, &c); err != nil {
			t.Fatalf("bad regress file %s: %v", f, err)
		}
		if kind, msg := do(&c, ""); kind != "" {
			r.Violate(kind, "regress "+f+": "+msg, &c)
		}
	}
	if r.Violations() > 0 {
		return
	}
	r.Rapid(t, "client-responses", 0, r.Checks, func(rt *rapid.T) {
		c := genC09Resp(rt)
		r.Journal(c)
		kind, msg := do(c, "client-responses")
		if kind != "" {
			r.NoteFail(kind, msg, c)
			rt.Fatalf("C09 %s", kind)
		}
	})
}
