package cliworld

import (
	"bytes"
	"encoding/binary"
	"errors"
	"fmt"
	"net"
	"strings"
	"testing"
	"testing/synctest"
	"time"

	"github.com/pion/turn/v5"
	"github.com/pion/turn/v5/internal/zzverif/ref"
	"github.com/pion/turn/v5/internal/zzverif/sim"
	"github.com/pion/turn/v5/internal/zzverif/vkit"
	"pgregory.net/rapid"
)

// ReallocOp is one application call on a client that allocates, closes and allocates again.
type ReallocOp struct {
	Op string `json:"op"`          // alloc | close | write | sleep
	K  int    `json:"k,omitempty"` // close: which of the sockets created so far (0 = newest), live or already closed
	N  int    `json:"n,omitempty"`
}

// ReallocCase: one turn.Client, several relayed sockets over its lifetime (one at a time). Closing
// an old socket again - or late - must not affect its successor; also the replay format.
type ReallocCase struct {
	Ops     []ReallocOp `json:"ops"`
	Realloc bool        `json:"c13_realloc"`
}

type reallocResult struct {
	kind, msg         string
	sockets, stale    int
	probes            int
	refusedSecondOpen int
}

func runRealloc(t *testing.T, c *ReallocCase) (res reallocResult) {
	t.Helper()
	defer func() {
		if p := recover(); p != nil {
			s := fmt.Sprint(p)
			if strings.Contains(s, "blocked goroutines remain") || strings.Contains(s, "deadlock") {
				if res.kind == "" {
					res.kind, res.msg = "goroutine-leak", "after closing every socket and the client, goroutines are still blocked: "+s
				}

				return
			}
			res.kind, res.msg = "panic", s
		}
	}()
	synctest.Test(t, func(t *testing.T) { res = runReallocInner(c) })

	return res
}

func runReallocInner(c *ReallocCase) (res reallocResult) { //nolint:cyclop
	n := sim.NewNet()
	logger := sim.NewLogger(100)
	ssock, _ := n.BindUDP("udp4", net.IPv4(10, 0, 0, 1), 3478)
	csock, _ := n.BindUDP("udp4", net.IPv4(10, 1, 0, 1), 5000)
	cs := &C13Case{PermReact: []string{"ok"}, BindReact: []string{"ok"}}
	srv := &c13Server{sock: ssock, client: &net.UDPAddr{IP: net.IPv4(10, 1, 0, 1), Port: 5000}, c: cs,
		permOK: map[string]bool{}, bound: map[uint16]string{}, reqChan: map[uint16]string{}, peerChan: map[string]uint16{}, sent: map[string][][]byte{}}
	go func() {
		buf := make([]byte, 70000)
		for {
			k, _, err := ssock.ReadFrom(buf)
			if err != nil {
				return
			}
			srv.handle(append([]byte{}, buf[:k]...))
		}
	}()
	cl, err := turn.NewClient(&turn.ClientConfig{
		TURNServerAddr: "10.0.0.1:3478", Conn: csock, Net: &sim.TNet{N: n}, Username: "alice", Password: "pw", Realm: "sim.realm", LoggerFactory: logger, RTO: 100 * time.Millisecond,
	})
	if err != nil {
		return reallocResult{kind: "harness", msg: err.Error()}
	}
	if err := cl.Listen(); err != nil {
		return reallocResult{kind: "harness", msg: err.Error()}
	}
	defer func() {
		cl.Close()
		n.CloseAll()
	}()
	type sock struct {
		conn   net.PacketConn
		closed bool
	}
	var socks []*sock
	var live *sock
	fail := func(kind, f string, a ...any) reallocResult {
		r := res
		r.kind, r.msg = kind, fmt.Sprintf(f, a...)+"\n  log tail:\n    "+strings.Join(tail(logger.Lines(), 10), "\n    ")

		return r
	}
	seq := 0
	peer := &net.UDPAddr{IP: net.IPv4(10, 2, 0, 1), Port: 7000}
	// probe: a datagram relayed by the server must come out of the live socket's ReadFrom
	probe := func(ctx string) *reallocResult {
		if live == nil {
			return nil
		}
		seq++
		payload := []byte(fmt.Sprintf("probe %d after %s", seq, ctx))
		var id [12]byte
		binary.BigEndian.PutUint32(id[0:4], uint32(seq)) //nolint:gosec
		m := &ref.Msg{Method: ref.MethodData, Class: ref.ClassIndication, TxID: id}
		m.Add(ref.AttrXORPeerAddress, ref.XorAddr(peer.IP, peer.Port, id))
		m.Add(ref.AttrData, payload)
		_, _ = ssock.WriteTo(m.Encode(), srv.client)
		synctest.Wait()
		_ = live.conn.SetReadDeadline(time.Now().Add(time.Second))
		buf := make([]byte, 2048)
		k, from, rerr := live.conn.ReadFrom(buf)
		if rerr != nil {
			r := fail("live-socket-deaf", "%s: a datagram relayed for the client's live relayed socket is not returned by its ReadFrom: %v", ctx, rerr)

			return &r
		}
		if !bytes.Equal(buf[:k], payload) || from.String() != peer.String() {
			r := fail("read-wrong", "%s: ReadFrom returned %q from %v, expected %q from %v", ctx, buf[:k], from, payload, peer)

			return &r
		}
		res.probes++

		return nil
	}
	for oi, op := range c.Ops {
		time.Sleep(1300 * time.Microsecond)
		ctx := fmt.Sprintf("op %d (%s)", oi, op.Op)
		switch op.Op {
		case "alloc":
			conn, aerr := cl.Allocate()
			switch {
			case live != nil && aerr == nil:
				return fail("second-allocation-accepted", "%s: Allocate succeeded although the client's relayed socket is open", ctx)
			case live != nil:
				res.refusedSecondOpen++
			case aerr != nil:
				return fail("reallocate-failed", "%s: Allocate after the previous relayed socket was closed failed: %v", ctx, aerr)
			default:
				live = &sock{conn: conn}
				socks = append(socks, live)
				res.sockets++
			}
		case "close":
			if len(socks) == 0 {
				continue
			}
			s := socks[len(socks)-1-op.K%len(socks)]
			cerr := s.conn.Close()
			synctest.Wait()
			switch {
			case s.closed:
				ctx += " of a socket that was closed before"
				res.stale++
				if cerr == nil {
					return fail("double-close-no-error", "%s: the second Close returned nil", ctx)
				}
			case cerr != nil:
				return fail("close-error", "%s: Close of the live relayed socket failed: %v", ctx, cerr)
			default:
				s.closed = true
				if live == s {
					live = nil
				}
			}
		case "write":
			if live == nil {
				continue
			}
			if _, werr := live.conn.WriteTo([]byte(fmt.Sprintf("w%d", oi)), peer); werr != nil {
				return fail("write-failed", "%s: WriteTo on the live relayed socket failed: %v", ctx, werr)
			}
			synctest.Wait()
		case "sleep":
			time.Sleep(time.Duration(op.N) * time.Second)
		}
		if r := probe(ctx); r != nil {
			return *r
		}
		// a closed socket stays closed
		for _, s := range socks {
			if s.closed {
				_ = s.conn.SetReadDeadline(time.Now().Add(time.Millisecond))
				if _, _, rerr := s.conn.ReadFrom(make([]byte, 64)); rerr == nil {
					return fail("closed-socket-reads", "%s: ReadFrom on a closed relayed socket returned data", ctx)
				} else if ne := net.Error(nil); errors.As(rerr, &ne) && ne.Timeout() {
					return fail("closed-socket-blocks", "%s: ReadFrom on a closed relayed socket waits for data instead of failing", ctx)
				}
			}
		}
	}
	for _, s := range socks {
		if !s.closed {
			_ = s.conn.Close()
		}
	}

	return res
}

func genRealloc(rt *rapid.T) *ReallocCase {
	c := &ReallocCase{Realloc: true}
	c.Ops = append(c.Ops, ReallocOp{Op: "alloc"})
	for i, k := 0, rapid.IntRange(3, 14).Draw(rt, "nops"); i < k; i++ {
		op := ReallocOp{Op: rapid.SampledFrom([]string{"alloc", "alloc", "close", "close", "close", "write", "sleep"}).Draw(rt, "op")}
		switch op.Op {
		case "close":
			op.K = rapid.IntRange(0, 3).Draw(rt, "k")
		case "sleep":
			op.N = rapid.SampledFrom([]int{1, 30, 121, 301, 700}).Draw(rt, "sleep")
		}
		c.Ops = append(c.Ops, op)
	}

	return c
}

func TestC13Realloc(t *testing.T) {
	r := vkit.Start(t, "C13")
	defer r.Finish()
	do := func(c *ReallocCase, sample string) (string, string) {
		r.Eval(1)
		res := runRealloc(t, c)
		r.LabelN("realloc:sockets", res.sockets)
		r.LabelN("realloc:stale-closes", res.stale)
		r.LabelN("realloc:probes", res.probes)
		r.LabelN("realloc:allocate-refused-while-open", res.refusedSecondOpen)
		if res.sockets >= 2 && res.stale > 0 {
			r.NonTrivial(vkit.Hash64(c))
			if sample != "" {
				r.Sample(sample, func() any { return c })
			}
		}
		if res.kind != "" && r.IsKnown("C13."+res.kind) {
			return "", ""
		}

		return res.kind, res.msg
	}
	if r.Replay != "" {
		var c ReallocCase
		if err := vkit.LoadJSON(r.Replay, &c); err != nil || !c.Realloc {
			fmt.Println("REPLAY-NOT-MINE: not a reallocation case")

			return
		}
		kind, msg := do(&c, "")
		fmt.Printf("replay %s: kind=%q %s\n", r.Replay, kind, msg)
		if kind != "" {
			r.Violate(kind, msg, &c)
		}

		return
	}
	r.Rapid(t, "realloc", 0, r.Checks, func(rt *rapid.T) {
		c := genRealloc(rt)
		r.Journal(c)
		kind, msg := do(c, "realloc")
		if kind != "" {
			r.NoteFail(kind, msg, c)
			rt.Fatalf("C13 %s", kind)
		}
	})
}
