// Package cliworld runs the real turn.Client inside a synctest bubble against scripted servers.
package cliworld

import (
	"errors"
	"fmt"
	"net"
	"os"
	"reflect"
	"runtime"
	"sort"
	"strings"
	"sync"
	"syscall"
	"testing"
	"testing/synctest"
	"time"
	"unsafe"

	"github.com/pion/stun/v3"
	"github.com/pion/turn/v5"
	"github.com/pion/turn/v5/internal/client"
	"github.com/pion/turn/v5/internal/zzverif/ref"
	"github.com/pion/turn/v5/internal/zzverif/sim"
	"github.com/pion/turn/v5/internal/zzverif/vkit"
	"pgregory.net/rapid"
)

// Tx is one scripted client transaction.
type Tx struct {
	StartMs     int    `json:"start_ms"`
	Kind        string `json:"kind"`    // binding | raw | ignore
	Lost        []bool `json:"lost"`    // per transmission 0..6: the server never sees it
	RespTo      int    `json:"resp_to"` // answer the n-th transmission (-1: never)
	RespDelayMs int    `json:"resp_delay_ms"`
	WrongFirst  bool   `json:"wrong_id_first,omitempty"`
	Dup         bool   `json:"dup,omitempty"`
	Late        bool   `json:"late,omitempty"`       // one more response 5 s after the first
	FromOther   bool   `json:"from_other,omitempty"` // the response comes from another source address
	WriteFailAt int    `json:"write_fail_at"`        // -1 none; else this transmission's socket write fails
	// WriteErr: what kind of error the failing write reports: "" plain | timeout (net.Error with
	// Timeout() true, as a write deadline or EAGAIN gives) | refused (ECONNREFUSED from an ICMP error) | closed
	WriteErr string `json:"write_err,omitempty"`
}

// C12Case is the replay format.
type C12Case struct {
	RTOms     int  `json:"rto_ms"` // 0 = library default
	Txs       []Tx `json:"txs"`
	CloseAtMs int  `json:"close_at_ms"` // -1: never
	// Tie: coincidence mode (C18) - responses, Close and failing writes land exactly on timer
	// instants, a failing write spins for a few microseconds of real time; only order-insensitive
	// oracles are applied.
	Tie bool `json:"tie,omitempty"`
	// SlowFirstWriteUs: the socket write of every first transmission takes this long (virtual) to
	// return after the datagram has left - a response can be back before the writer is
	SlowFirstWriteUs int `json:"slow_first_write_us,omitempty"`
}

type txObs struct {
	sent     []time.Duration // arrival offsets of request datagrams at the scripted server
	txids    [][12]byte
	returned bool
	retAt    time.Duration
	retErr   error
	retPort  int // port of the reflexive address returned (identifies which response was consumed)
	retTx    [12]byte
	retHas   bool
}

type failConn struct {
	net.PacketConn
	mu    sync.Mutex
	count map[int]int
	fail  map[int]int // dest port -> transmission index whose write fails
	kind  map[int]string
	spin  bool
	slow  time.Duration // the first write to every destination returns this much later
}

func (f *failConn) WriteTo(b []byte, a net.Addr) (int, error) {
	port := 0
	if u, ok := a.(*net.UDPAddr); ok {
		port = u.Port
	}
	f.mu.Lock()
	n := f.count[port]
	f.count[port]++
	want, has := f.fail[port]
	f.mu.Unlock()
	if has && want == n {
		if f.spin {
			for i := 0; i < 300; i++ { // a few microseconds of real time in which other goroutines run
				runtime.Gosched()
			}
		}

		switch f.kind[port] {
		case "timeout":
			return 0, &net.OpError{Op: "write", Net: "udp", Addr: a, Err: os.ErrDeadlineExceeded}
		case "refused":
			return 0, &net.OpError{Op: "write", Net: "udp", Addr: a, Err: os.NewSyscallError("sendto", syscall.ECONNREFUSED)}
		case "closed":
			return 0, &net.OpError{Op: "write", Net: "udp", Addr: a, Err: net.ErrClosed}
		}

		return 0, errors.New("sim: injected write failure")
	}

	k, err := f.PacketConn.WriteTo(b, a)
	if n == 0 && f.slow > 0 {
		time.Sleep(f.slow)
	}

	return k, err
}

func trMapOf(c *turn.Client) *client.TransactionMap {
	defer func() { _ = recover() }()
	v := reflect.ValueOf(c).Elem()
	want := reflect.TypeOf((*client.TransactionMap)(nil))
	for i := 0; i < v.NumField(); i++ {
		if f := v.Field(i); f.Type() == want {
			return *(**client.TransactionMap)(unsafe.Pointer(f.UnsafeAddr())) //nolint:gosec
		}
	}

	return nil
}

func rtoOf(c *C12Case) time.Duration {
	if c.RTOms <= 0 {
		return 200 * time.Millisecond
	}

	return time.Duration(c.RTOms) * time.Millisecond
}

// schedule is M-rtx: offsets of the 7 transmissions and of the final failure.
func schedule(rto time.Duration) (tx []time.Duration, fail time.Duration) {
	t := time.Duration(0)
	iv := rto
	for i := 0; i < 7; i++ {
		tx = append(tx, t)
		t += iv
		iv *= 2
		if iv > 1600*time.Millisecond {
			iv = 1600 * time.Millisecond
		}
	}

	return tx, t
}

type c12Result struct {
	kind, msg string
	skipped   string
}

func runC12(t *testing.T, c *C12Case) (res c12Result) {
	t.Helper()
	defer func() {
		if p := recover(); p != nil {
			s := fmt.Sprint(p)
			if strings.Contains(s, "blocked goroutines remain") || strings.Contains(s, "deadlock") {
				res = c12Result{kind: "hang", msg: "the bubble cannot drain: a transaction call never returned or a client goroutine is stuck (" + s + ")"}

				return
			}
			res = c12Result{kind: "panic", msg: s}
		}
	}()
	synctest.Test(t, func(t *testing.T) { res = runC12Inner(c) })

	return res
}

func runC12Inner(c *C12Case) c12Result { //nolint:cyclop,gocyclo,maintidx
	n := sim.NewNet()
	logger := sim.NewLogger(60)
	csock, err := n.BindUDP("udp4", net.IPv4(10, 1, 0, 1), 5000)
	if err != nil {
		return c12Result{kind: "harness", msg: err.Error()}
	}
	fc := &failConn{PacketConn: csock, count: map[int]int{}, fail: map[int]int{}, kind: map[int]string{}, spin: c.Tie, slow: time.Duration(c.SlowFirstWriteUs) * time.Microsecond}
	off137, off17, off7 := 137*time.Microsecond, 17*time.Microsecond, 7*time.Microsecond
	if c.Tie {
		off137, off17, off7 = 0, 0, 0
	}
	other, _ := n.BindUDP("udp4", net.IPv4(10, 0, 0, 9), 9999)
	cl, err := turn.NewClient(&turn.ClientConfig{
		Conn: fc, Net: &sim.TNet{N: n}, LoggerFactory: logger, RTO: time.Duration(c.RTOms) * time.Millisecond,
		STUNServerAddr: "10.0.0.1:3478", Software: "verif",
	})
	if err != nil {
		return c12Result{kind: "harness", msg: err.Error()}
	}
	if err := cl.Listen(); err != nil {
		return c12Result{kind: "harness", msg: err.Error()}
	}
	start := time.Now()
	obs := make([]*txObs, len(c.Txs))
	var mu sync.Mutex
	var wg sync.WaitGroup
	servers := make([]*sim.UDPSock, len(c.Txs))
	for i := range c.Txs {
		tx := &c.Txs[i]
		obs[i] = &txObs{}
		port := 4000 + i
		s, err := n.BindUDP("udp4", net.IPv4(10, 0, 0, 1), port)
		if err != nil {
			return c12Result{kind: "harness", msg: err.Error()}
		}
		servers[i] = s
		if tx.WriteFailAt >= 0 {
			fc.fail[port] = tx.WriteFailAt
			fc.kind[port] = tx.WriteErr
		}
		// scripted server for this transaction
		go func(i int, tx *Tx, s *sim.UDPSock) {
			buf := make([]byte, 2048)
			for {
				nr, from, err := s.ReadFrom(buf)
				if err != nil {
					return
				}
				m, perr := ref.Parse(buf[:nr])
				mu.Lock()
				o := obs[i]
				idx := len(o.sent)
				o.sent = append(o.sent, time.Since(start))
				if perr == nil {
					o.txids = append(o.txids, m.TxID)
				}
				mu.Unlock()
				if perr != nil {
					continue
				}
				// which transmission is this? lost ones never arrive here, so count them in
				seen := -1
				for k := 0; k < 7; k++ {
					if k < len(tx.Lost) && tx.Lost[k] {
						continue
					}
					seen++
					if seen == idx {
						idx = k

						break
					}
				}
				if tx.RespTo != idx {
					continue
				}
				reply := func(id [12]byte, variant int, src *sim.UDPSock) {
					rm := &ref.Msg{Method: m.Method, Class: ref.ClassSuccess, TxID: id}
					rm.Add(ref.AttrXORMappedAddress, ref.XorAddr(net.IPv4(192, 0, 2, byte(i+1)), 1000*(i+1)+variant, id))
					_, _ = src.WriteTo(rm.Encode(), from)
				}
				src := s
				if tx.FromOther {
					src = other
				}
				delay := time.Duration(tx.RespDelayMs)*time.Millisecond + off137
				id := m.TxID
				time.AfterFunc(delay, func() {
					if tx.WrongFirst {
						bad := id
						bad[11] ^= 0x5A
						reply(bad, 9, src)
					}
					reply(id, 1, src)
					if tx.Dup {
						reply(id, 2, src)
					}
				})
				if tx.Late {
					time.AfterFunc(delay+5*time.Second, func() { reply(id, 3, src) })
				}
			}
		}(i, tx, s)
	}
	// per-destination wire counter for loss decisions
	wireCount := make([]int, len(c.Txs))
	n.Fault = func(d *sim.Datagram) sim.FaultAction {
		if d.SrcSock != csock.ID {
			return sim.FaultAction{}
		}
		i := d.To.Port - 4000
		if i < 0 || i >= len(c.Txs) {
			return sim.FaultAction{}
		}
		mu.Lock()
		k := wireCount[i]
		wireCount[i]++
		mu.Unlock()
		tx := &c.Txs[i]
		// a failed write never reaches the wire, so transmission indices at or after it shift by one
		if tx.WriteFailAt >= 0 && k >= tx.WriteFailAt {
			k++
		}
		if k < len(tx.Lost) && tx.Lost[k] {
			return sim.FaultAction{Drop: true}
		}

		return sim.FaultAction{}
	}
	// API callers
	for i := range c.Txs {
		tx := &c.Txs[i]
		wg.Add(1)
		go func(i int, tx *Tx) {
			defer wg.Done()
			time.Sleep(time.Duration(tx.StartMs)*time.Millisecond + time.Duration(i+1)*off17)
			to := &net.UDPAddr{IP: net.IPv4(10, 0, 0, 1), Port: 4000 + i}
			o := obs[i]
			var rerr error
			port := 0
			var rtx [12]byte
			has := false
			switch tx.Kind {
			case "binding":
				a, e := cl.SendBindingRequestTo(to)
				rerr = e
				if u, ok := a.(*net.UDPAddr); ok && e == nil {
					port = u.Port
				}
			default:
				msg, e := stun.Build(stun.TransactionID, stun.BindingRequest)
				if e != nil {
					rerr = e

					break
				}
				res, e := cl.PerformTransaction(msg, to, tx.Kind == "ignore")
				rerr = e
				if e == nil && res.Msg != nil {
					rtx, has = res.Msg.TransactionID, true
					var xa stun.XORMappedAddress
					if xa.GetFrom(res.Msg) == nil {
						port = xa.Port
					}
					if res.Msg.TransactionID != msg.TransactionID {
						rerr = fmt.Errorf("MISMATCH: returned response carries transaction id %x, request had %x", res.Msg.TransactionID, msg.TransactionID)
					}
				}
			}
			mu.Lock()
			o.returned, o.retAt, o.retErr, o.retPort, o.retTx, o.retHas = true, time.Since(start), rerr, port, rtx, has
			mu.Unlock()
		}(i, tx)
	}
	if c.CloseAtMs >= 0 {
		wg.Add(1)
		go func() {
			defer wg.Done()
			time.Sleep(time.Duration(c.CloseAtMs)*time.Millisecond + off7)
			cl.Close()
		}()
	}
	// let everything play out: last start + full schedule + late responses + 10 s
	_, failAt := schedule(rtoOf(c))
	horizon := failAt + 20*time.Second
	for _, tx := range c.Txs {
		if d := time.Duration(tx.StartMs)*time.Millisecond + failAt + time.Duration(tx.RespDelayMs)*time.Millisecond + 20*time.Second; d > horizon {
			horizon = d
		}
	}
	time.Sleep(horizon)
	synctest.Wait()
	wireBefore := n.WireLen()
	time.Sleep(30 * time.Second)
	synctest.Wait()
	res := c12Result{}
	judge := func() {
		mu.Lock()
		defer mu.Unlock()
		rto := rtoOf(c)
		sched, failOff := schedule(rto)
		if slow := time.Duration(c.SlowFirstWriteUs) * time.Microsecond; slow > 0 {
			// the retransmission timer starts when the first write returns
			sched = append([]time.Duration{}, sched...)
			for k := 1; k < len(sched); k++ {
				sched[k] += slow
			}
			failOff += slow
		}
		closeOff := time.Duration(-1)
		if c.CloseAtMs >= 0 {
			closeOff = time.Duration(c.CloseAtMs)*time.Millisecond + off7
		}
		for i := range c.Txs {
			tx := &c.Txs[i]
			o := obs[i]
			t0 := time.Duration(tx.StartMs)*time.Millisecond + time.Duration(i+1)*off17
			ctx := fmt.Sprintf("transaction %d (%s, rto %v)", i, tx.Kind, rto)
			if !o.returned {
				res = c12Result{kind: "hang", msg: ctx + ": the API call has not returned 50 s after everything was over"}

				return
			}
			if c.Tie {
				// order-insensitive: the call returned once (by construction), with an error or with
				// the first matching response; retransmissions follow the timetable as far as they go
				if o.retErr != nil && strings.HasPrefix(o.retErr.Error(), "MISMATCH") {
					res = c12Result{kind: "wrong-response-returned", msg: ctx + ": " + o.retErr.Error()}

					return
				}
				if o.retErr == nil && tx.Kind != "ignore" && o.retPort != 1000*(i+1)+1 {
					res = c12Result{kind: "wrong-response-returned", msg: fmt.Sprintf("%s: the call returned the response marked %d", ctx, o.retPort)}

					return
				}
				if len(o.sent) > 7 {
					res = c12Result{kind: "retransmission-schedule", msg: fmt.Sprintf("%s: %d request datagrams", ctx, len(o.sent))}

					return
				}

				continue
			}
			// --- when does the model say the transaction ends, and how?
			endAt, endHow := t0+failOff, "timeout"
			respAt := time.Duration(-1)
			if tx.RespTo >= 0 && tx.RespTo < 7 && !(tx.RespTo < len(tx.Lost) && tx.Lost[tx.RespTo]) && (tx.WriteFailAt < 0 || tx.RespTo < tx.WriteFailAt) {
				respAt = t0 + sched[tx.RespTo] + time.Duration(tx.RespDelayMs)*time.Millisecond + off137
				if respAt < endAt {
					endAt, endHow = respAt, "response"
				}
			}
			if tx.WriteFailAt >= 0 && tx.WriteFailAt < 7 {
				if w := t0 + sched[tx.WriteFailAt]; w < endAt {
					endAt, endHow = w, "write-error"
				}
			}
			if closeOff >= 0 && closeOff > t0 && closeOff < endAt {
				endAt, endHow = closeOff, "close"
			}
			// --- request datagrams on the wire (as seen by the server: the non-lost ones)
			var want []time.Duration
			for k := 0; k < 7; k++ {
				at := t0 + sched[k]
				if at > endAt || (at == endAt && endHow != "response") {
					break
				}
				if endHow == "write-error" && k >= tx.WriteFailAt {
					break
				}
				if k < len(tx.Lost) && tx.Lost[k] {
					continue
				}
				want = append(want, at)
			}
			if endHow == "close" {
				// after Close the transaction is gone from the table: no further retransmission
				w2 := want[:0]
				for _, at := range want {
					if at < closeOff {
						w2 = append(w2, at)
					}
				}
				want = w2
			}
			if !sameTimes(o.sent, want) {
				res = c12Result{kind: "retransmission-schedule", msg: fmt.Sprintf("%s: request datagrams reached the server at %v (relative to t=0), the schedule says %v (ends by %s at %v)", ctx, o.sent, want, endHow, endAt)}

				return
			}
			for _, id := range o.txids {
				if id != o.txids[0] {
					res = c12Result{kind: "txid-changed", msg: ctx + ": retransmissions carry different transaction ids"}

					return
				}
			}
			// --- return time and value
			slowRet := t0 + time.Duration(c.SlowFirstWriteUs)*time.Microsecond // the caller is back from the first write
			if endAt < slowRet {
				endAt = slowRet
			}
			if tx.Kind == "ignore" {
				if o.retErr != nil && endHow != "write-error" {
					res = c12Result{kind: "ignore-result-error", msg: fmt.Sprintf("%s: fire-and-forget transaction returned %v", ctx, o.retErr)}

					return
				}
				if o.retAt != slowRet {
					res = c12Result{kind: "return-time", msg: fmt.Sprintf("%s: fire-and-forget call returned at %v, started at %v", ctx, o.retAt, t0)}

					return
				}

				continue
			}
			if o.retAt != endAt {
				res = c12Result{kind: "return-time", msg: fmt.Sprintf("%s: call returned at %v (err=%v), the model says it ends by %s at %v", ctx, o.retAt, o.retErr, endHow, endAt)}

				return
			}
			if endHow == "response" {
				if o.retErr != nil {
					res = c12Result{kind: "response-not-returned", msg: fmt.Sprintf("%s: a matching response arrived at %v but the call returned error %v", ctx, respAt, o.retErr)}

					return
				}
				if want := 1000*(i+1) + 1; o.retPort != want {
					res = c12Result{kind: "wrong-response-returned", msg: fmt.Sprintf("%s: the call returned the response marked %d, the first response with the request's transaction id is marked %d", ctx, o.retPort, want)}

					return
				}
			} else if o.retErr == nil {
				res = c12Result{kind: "no-error", msg: fmt.Sprintf("%s: ended by %s but the call returned no error (response mark %d)", ctx, endHow, o.retPort)}

				return
			}
		}
	}
	judge()
	if res.kind == "" {
		if n.WireLen() != wireBefore {
			res = c12Result{kind: "late-datagram", msg: "the client sent another datagram more than 20 s after every transaction was over"}
		}
	}
	if res.kind == "" {
		if tm := trMapOf(cl); tm != nil {
			if sz := tm.Size(); sz != 0 {
				res = c12Result{kind: "transaction-table-not-empty", msg: fmt.Sprintf("%d entries left in the transaction table after all %d calls returned", sz, len(c.Txs))}
			}
		} else {
			res.skipped = "transaction table not reachable by reflection"
		}
	}
	// teardown: closing the socket ends the Listen loop; servers end when their sockets close
	cl.Close()
	n.CloseAll()
	wg.Wait()

	return res
}

func sameTimes(a, b []time.Duration) bool {
	if len(a) != len(b) {
		return false
	}
	aa := append([]time.Duration{}, a...)
	sort.Slice(aa, func(i, j int) bool { return aa[i] < aa[j] })
	for i := range aa {
		if aa[i] != b[i] {
			return false
		}
	}

	return true
}

func c12NonTrivial(c *C12Case) bool {
	for _, tx := range c.Txs {
		lost := false
		for _, l := range tx.Lost {
			lost = lost || l
		}
		if lost && (tx.RespTo > 0 || tx.WrongFirst || tx.Dup || tx.Late || c.CloseAtMs >= 0 || tx.WriteFailAt >= 0) {
			return true
		}
	}

	return false
}

func genC12(rt *rapid.T) *C12Case {
	c := &C12Case{CloseAtMs: -1}
	c.RTOms = rapid.OneOf(rapid.SampledFrom([]int{0, 0, 1, 2, 50, 100, 200, 400, 799, 800, 801, 1599, 1600}), rapid.IntRange(1, 1600)).Draw(rt, "rto")
	ntx := rapid.SampledFrom([]int{1, 1, 2, 3, 4}).Draw(rt, "ntx")
	_, failAt := schedule(rtoOf(c))
	for i := 0; i < ntx; i++ {
		tx := Tx{WriteFailAt: -1, RespTo: -1}
		tx.StartMs = rapid.OneOf(rapid.Just(0), rapid.IntRange(0, 3000)).Draw(rt, "start")
		tx.Kind = rapid.SampledFrom([]string{"binding", "binding", "raw", "raw", "ignore"}).Draw(rt, "kind")
		tx.Lost = make([]bool, 7)
		lossMode := rapid.SampledFrom([]string{"none", "first-k", "random", "all"}).Draw(rt, "lossMode")
		switch lossMode {
		case "first-k":
			k := rapid.IntRange(1, 6).Draw(rt, "lostK")
			for j := 0; j < k; j++ {
				tx.Lost[j] = true
			}
		case "random":
			for j := range tx.Lost {
				tx.Lost[j] = rapid.Bool().Draw(rt, "lost")
			}
		case "all":
			for j := range tx.Lost {
				tx.Lost[j] = true
			}
		}
		if lossMode != "all" && rapid.IntRange(0, 9).Draw(rt, "answer") > 0 {
			// answer a transmission that arrives
			var arrive []int
			for j, l := range tx.Lost {
				if !l {
					arrive = append(arrive, j)
				}
			}
			if len(arrive) == 0 {
				arrive = []int{-1}
			}
			tx.RespTo = rapid.SampledFrom(arrive).Draw(rt, "respTo")
			tx.RespDelayMs = rapid.OneOf(rapid.IntRange(0, 50), rapid.IntRange(0, 3000), rapid.IntRange(0, int(failAt/time.Millisecond)+2000)).Draw(rt, "respDelay")
			tx.WrongFirst = rapid.IntRange(0, 3).Draw(rt, "wrongFirst") == 0
			tx.Dup = rapid.IntRange(0, 3).Draw(rt, "dup") == 0
			tx.Late = rapid.IntRange(0, 3).Draw(rt, "late") == 0
			tx.FromOther = rapid.IntRange(0, 5).Draw(rt, "fromOther") == 0
		}
		if rapid.IntRange(0, 5).Draw(rt, "writeFail") == 0 {
			tx.WriteFailAt = rapid.IntRange(0, 6).Draw(rt, "writeFailAt")
			tx.WriteErr = rapid.SampledFrom([]string{"", "", "timeout", "refused", "closed"}).Draw(rt, "writeErr")
		}
		c.Txs = append(c.Txs, tx)
	}
	if rapid.IntRange(0, 3).Draw(rt, "slowWrite") == 0 {
		noFail := true
		for _, tx := range c.Txs {
			noFail = noFail && tx.WriteFailAt < 0
		}
		if noFail {
			c.SlowFirstWriteUs = rapid.SampledFrom([]int{400, 400, 900}).Draw(rt, "slowWriteUs")

			return c // (no Close in these cases: the timetable would depend on where in the write it lands)
		}
	}
	if rapid.IntRange(0, 4).Draw(rt, "close") == 0 {
		c.CloseAtMs = rapid.IntRange(0, int(failAt/time.Millisecond)+3500).Draw(rt, "closeAt")
	}

	return c
}

func TestC12(t *testing.T) { //nolint:cyclop
	r := vkit.Start(t, "C12")
	defer r.Finish()
	r.Assume("response delays carry a 137 µs offset and call start times a per-transaction 17 µs offset, so that no response or Close coincides with a retransmission timer")
	do := func(c *C12Case, sample string) (string, string) {
		r.Eval(1)
		r.LabelN("transactions", len(c.Txs))
		if c.CloseAtMs >= 0 {
			r.Label("with-close")
		}
		for _, tx := range c.Txs {
			if tx.WriteFailAt >= 0 {
				r.Label("with-write-error")
			}
			if tx.RespTo > 0 {
				r.Label("response-to-retransmission")
			}
		}
		if c12NonTrivial(c) {
			r.NonTrivial(vkit.Hash64(c))
			r.Label("nontrivial")
			if sample != "" {
				r.Sample(sample, func() any { return c })
			}
		}
		res := runC12(t, c)
		if res.skipped != "" {
			r.Skipped(res.skipped)
		}
		if res.kind != "" && r.IsKnown("C12."+res.kind) {
			return "", ""
		}

		return res.kind, res.msg
	}
	if r.Replay != "" {
		var c C12Case
		if err := vkit.LoadJSON(r.Replay, &c); err != nil {
			t.Fatalf("cannot load replay: %v", err)
		}
		if c.Tie {
			fmt.Println("REPLAY-NOT-MINE: a coincidence-mode case")

			return
		}
		kind, msg := do(&c, "")
		fmt.Printf("replay %s: kind=%q %s\n", r.Replay, kind, msg)
		if kind != "" {
			r.Violate(kind, msg, &c)
		}

		return
	}
	for _, f := range r.RegressFiles(".json") {
		var c C12Case
		if err := vkit.LoadJSON(f, &c); err != nil {
			t.Fatalf("bad regress file %s: %v", f, err)
		}
		if kind, msg := do(&c, ""); kind != "" {
			r.Violate(kind, "regress "+f+": "+msg, &c)
		}
	}
	if r.Violations() > 0 {
		return
	}
	// exhaustive: every subset of lost transmissions x response position (thorough), sampled in quick
	if r.Thorough() || r.Shard == 0 {
		step := 1
		if !r.Thorough() {
			step = 5
		}
		cnt := 0
		for mask := r.Shard; mask < 128; mask += max(r.NShards, 1) {
			for respTo := -1; respTo < 7; respTo++ {
				cnt++
				if cnt%step != 0 {
					continue
				}
				if respTo >= 0 && mask&(1<<respTo) != 0 {
					continue
				}
				tx := Tx{Kind: "raw", Lost: make([]bool, 7), RespTo: respTo, RespDelayMs: 3, WriteFailAt: -1}
				for k := 0; k < 7; k++ {
					tx.Lost[k] = mask&(1<<k) != 0
				}
				c := &C12Case{RTOms: 100, Txs: []Tx{tx}, CloseAtMs: -1}
				if kind, msg := do(c, "loss-subsets"); kind != "" {
					r.Violate(kind, msg, c)

					return
				}
			}
		}
	}
	r.Rapid(t, "random", 0, r.Checks, func(rt *rapid.T) {
		c := genC12(rt)
		r.Journal(c)
		kind, msg := do(c, "random")
		if kind != "" {
			r.NoteFail(kind, msg, c)
			rt.Fatalf("C12 %s", kind)
		}
	})
}
