package cliworld

import (
	"encoding/binary"
	"encoding/hex"
	"fmt"
	"net"
	"strings"
	"sync"
	"testing"
	"testing/synctest"
	"time"

	"github.com/pion/turn/v5"
	"github.com/pion/turn/v5/internal/zzverif/ref"
	"github.com/pion/turn/v5/internal/zzverif/sim"
	"github.com/pion/turn/v5/internal/zzverif/vkit"
	"pgregory.net/rapid"
)

// In09 is one hostile datagram for the client.
type In09 struct {
	Data   string `json:"data_hex"`
	From   string `json:"from"`   // server | stun | stranger
	Direct bool   `json:"direct"` // call Client.HandleInbound directly (else: through the socket and Client.Listen)
	// Pending: the datagram is a response that carries the transaction id of a request the client
	// has pending at that very moment (the harness reads the id off the wire); Data is ignored
	Pending string `json:"pending,omitempty"` // "" | success | error | garbled
}

// C09Case is the client-side hostile input case; also the replay format.
type C09Case struct {
	State  string `json:"state"` // fresh | udp | tcp
	Inputs []In09 `json:"inputs"`
}

type c09Result struct{ kind, msg string }

func runC09(t *testing.T, c *C09Case) (res c09Result) {
	t.Helper()
	defer func() {
		if p := recover(); p != nil {
			s := fmt.Sprint(p)
			if strings.Contains(s, "blocked goroutines remain") || strings.Contains(s, "deadlock") {
				if res.kind == "" {
					res = c09Result{"goroutine-stuck", "client goroutines remain blocked after everything was closed: " + s}
				}

				return
			}
			res = c09Result{"panic", s}
		}
	}()
	synctest.Test(t, func(t *testing.T) { res = runC09Inner(c) })

	return res
}

func runC09Inner(c *C09Case) (res c09Result) { //nolint:cyclop,gocyclo
	n := sim.NewNet()
	logger := sim.NewLogger(60)
	ssock, _ := n.BindUDP("udp4", net.IPv4(10, 0, 0, 1), 3478)
	stunSock, _ := n.BindUDP("udp4", net.IPv4(10, 0, 0, 2), 3478)
	stranger, _ := n.BindUDP("udp4", net.IPv4(10, 6, 6, 6), 666)
	csock, _ := n.BindUDP("udp4", net.IPv4(10, 1, 0, 1), 5000)
	caddr := &net.UDPAddr{IP: net.IPv4(10, 1, 0, 1), Port: 5000}
	cs := &C13Case{PermReact: []string{"ok"}, BindReact: []string{"ok"}}
	srv := &c13Server{sock: ssock, client: caddr, c: cs, permOK: map[string]bool{}, bound: map[uint16]string{}, reqChan: map[uint16]string{}, peerChan: map[string]uint16{}, sent: map[string][][]byte{}}
	var hmu sync.Mutex
	hold, heldSeen := false, false
	var heldTx [12]byte
	serve := func(s *sim.UDPSock) {
		buf := make([]byte, 70000)
		for {
			k, _, err := s.ReadFrom(buf)
			if err != nil {
				return
			}
			if s == ssock {
				srv.handle(append([]byte{}, buf[:k]...))
			} else if m, perr := ref.Parse(buf[:k]); perr == nil && m.Method == ref.MethodBinding {
				hmu.Lock()
				h := hold
				if h {
					heldTx, heldSeen = m.TxID, true
				}
				hmu.Unlock()
				if h {
					continue // answered later (retransmissions follow)
				}
				r := &ref.Msg{Method: ref.MethodBinding, Class: ref.ClassSuccess, TxID: m.TxID}
				r.Add(ref.AttrXORMappedAddress, ref.XorAddr(caddr.IP, caddr.Port, m.TxID))
				_, _ = s.WriteTo(r.Encode(), caddr)
			}
		}
	}
	go serve(ssock)
	go serve(stunSock)
	cl, err := turn.NewClient(&turn.ClientConfig{
		STUNServerAddr: "10.0.0.2:3478", TURNServerAddr: "10.0.0.1:3478", Conn: csock, Net: &sim.TNet{N: n},
		Username: "alice", Password: "pw", Realm: "sim.realm", LoggerFactory: logger, RTO: 100 * time.Millisecond,
	})
	if err != nil {
		return c09Result{"harness", err.Error()}
	}
	if err := cl.Listen(); err != nil {
		return c09Result{"harness", err.Error()}
	}
	var closers []func()
	switch c.State {
	case "udp":
		relay, aerr := cl.Allocate()
		if aerr != nil {
			n.CloseAll()

			return c09Result{"harness", "Allocate: " + aerr.Error()}
		}
		// create a binding so that known-channel ChannelData exists
		_, _ = relay.WriteTo([]byte("x"), peer13(0))
		time.Sleep(time.Second)
		closers = append(closers, func() { _ = relay.Close() })
	case "tcp":
		ta, aerr := cl.AllocateTCP()
		if aerr != nil {
			n.CloseAll()

			return c09Result{"harness", "AllocateTCP: " + aerr.Error()}
		}
		closers = append(closers, func() { _ = ta.Close() })
	}
	synctest.Wait()
	fail := func(kind, f string, a ...any) {
		if res.kind == "" {
			res = c09Result{kind, fmt.Sprintf(f, a...)}
		}
	}
	probe := func(ctx string) {
		done := make(chan error, 1)
		go func() {
			_, e := cl.SendBindingRequest()
			done <- e
		}()
		time.Sleep(12 * time.Second)
		synctest.Wait()
		select {
		case e := <-done:
			if e != nil {
				fail("client-dead-after-hostile-datagram", "%s: the client no longer completes a transaction: %v", ctx, e)
			}
		default:
			fail("client-hangs-after-hostile-datagram", "%s: a Binding transaction neither completed nor failed within 12 s", ctx)
		}
	}
	for i, in := range c.Inputs {
		if res.kind != "" {
			break
		}
		data, _ := hex.DecodeString(in.Data)
		var from *sim.UDPSock
		switch in.From {
		case "stun":
			from = stunSock
		case "stranger":
			from = stranger
		default:
			from = ssock
		}
		fromAddr := &net.UDPAddr{IP: from.Local().IP, Port: from.Local().Port}
		ctx := fmt.Sprintf("input %d (%d bytes %s… from %s, direct=%v, state %s)", i, len(data), in.Data[:min(len(in.Data), 24)], in.From, in.Direct, c.State)
		time.Sleep(1700 * time.Microsecond)
		if in.Pending != "" {
			// a Binding transaction is pending (the STUN server keeps quiet for now) ...
			hmu.Lock()
			hold, heldSeen = true, false
			hmu.Unlock()
			done := make(chan error, 1)
			go func() {
				_, e := cl.SendBindingRequest()
				done <- e
			}()
			synctest.Wait()
			hmu.Lock()
			seen, tx := heldSeen, heldTx
			hmu.Unlock()
			if seen {
				// ... and somebody sends a response with exactly that transaction id
				r := &ref.Msg{Method: ref.MethodBinding, Class: ref.ClassSuccess, TxID: tx}
				switch in.Pending {
				case "error":
					r.Class = ref.ClassError
					r.Add(ref.AttrErrorCode, []byte{0, 0, 4, 0})
				case "garbled":
					r.Add(ref.AttrXORMappedAddress, []byte{0, 1, 2})
				default:
					r.Add(ref.AttrXORMappedAddress, ref.XorAddr(net.IPv4(6, 6, 6, 6), 666, tx))
				}
				_, _ = from.WriteTo(r.Encode(), caddr)
				synctest.Wait()
			}
			hmu.Lock()
			hold = false
			hmu.Unlock()
			time.Sleep(12 * time.Second) // retransmissions reach the STUN server, which answers now
			synctest.Wait()
			select {
			case <-done:
			default:
				fail("client-hangs-after-hostile-datagram", "%s: the pending Binding transaction neither completed nor failed within 12 s after a response with its transaction id came from %s", ctx, in.From)
			}
			if res.kind == "" {
				probe(ctx + " [response for a pending transaction]")
			}

			continue
		}
		if in.Direct {
			type ret struct {
				handled bool
				err     error
			}
			ch := make(chan ret, 1)
			go func() {
				h, e := cl.HandleInbound(data, fromAddr)
				ch <- ret{h, e}
			}()
			synctest.Wait()
			select {
			case r := <-ch:
				looksSTUN := len(data) >= 20 && binary.BigEndian.Uint32(data[4:8]) == ref.MagicCookie
				_, _, isCD := ref.DecodeChannelData(data)
				want := looksSTUN || isCD || in.From == "stun"
				if r.handled != want {
					fail("handled-classification", "%s: HandleInbound returned handled=%v, the documented table says %v (looks like STUN=%v, ChannelData=%v, from STUN server=%v)", ctx, r.handled, want, looksSTUN, isCD, in.From == "stun")
				}
				if !r.handled && r.err != nil {
					fail("false-with-error", "%s: HandleInbound returned (false, %v), a combination the contract excludes", ctx, r.err)
				}
				if m, perr := ref.Parse(data); perr == nil && looksSTUN {
					if m.Class == ref.ClassRequest && r.err == nil {
						fail("request-accepted", "%s: a STUN request was handled without error", ctx)
					}
					if (m.Class == ref.ClassSuccess || m.Class == ref.ClassError) && r.err != nil && len(m.Attrs) == 0 {
						fail("orphan-response-error", "%s: a response for no pending transaction produced error %v (must be discarded silently)", ctx, r.err)
					}
				}
			default:
				fail("handleinbound-blocks", "%s: HandleInbound has not returned", ctx)
			}
		} else {
			_, _ = from.WriteTo(data, caddr)
			synctest.Wait()
		}
		if res.kind == "" && (i == len(c.Inputs)-1 || i%4 == 3) {
			probe(ctx)
		}
	}
	for _, f := range closers {
		f()
	}
	cl.Close()
	n.CloseAll()
	synctest.Wait()

	return res
}

func genIn09(rt *rapid.T) In09 {
	in := In09{From: rapid.SampledFrom([]string{"server", "server", "stun", "stranger"}).Draw(rt, "from"), Direct: rapid.Bool().Draw(rt, "direct")}
	var id [12]byte
	copy(id[:], rapid.SliceOfN(rapid.Byte(), 12, 12).Draw(rt, "txid"))
	var data []byte
	switch rapid.IntRange(0, 8).Draw(rt, "family") {
	case 0:
		data = rapid.SliceOfN(rapid.Byte(), 0, 64).Draw(rt, "random")
	case 1: // ChannelData header grid
		num := rapid.SampledFrom([]uint16{0x4000, 0x4001, 0x7FFF, 0x3FFF, 0x8000, 0, 0xFFFF}).Draw(rt, "num")
		actual := rapid.IntRange(0, 40).Draw(rt, "actual")
		declared := rapid.SampledFrom([]int{0, 1, actual, actual + 1, 0xFFFF}).Draw(rt, "declared")
		data = make([]byte, 4+actual)
		binary.BigEndian.PutUint16(data[0:2], num)
		binary.BigEndian.PutUint16(data[2:4], uint16(declared))
	case 2: // Data indication, possibly missing attributes
		m := &ref.Msg{Method: ref.MethodData, Class: ref.ClassIndication, TxID: id}
		if rapid.Bool().Draw(rt, "hasPeer") {
			m.Add(ref.AttrXORPeerAddress, ref.XorAddr(net.IPv4(10, 2, 0, 1), 7000, id))
		}
		if rapid.Bool().Draw(rt, "hasData") {
			m.Add(ref.AttrData, rapid.SliceOfN(rapid.Byte(), 0, 30).Draw(rt, "payload"))
		}
		data = m.Encode()
	case 3: // ConnectionAttempt, possibly missing attributes
		m := &ref.Msg{Method: ref.MethodConnectionAttempt, Class: ref.ClassIndication, TxID: id}
		if rapid.Bool().Draw(rt, "hasPeer") {
			m.Add(ref.AttrXORPeerAddress, ref.XorAddr(net.IPv4(10, 2, 0, 1), 7000, id))
		}
		if rapid.Bool().Draw(rt, "hasCid") {
			m.Add(ref.AttrConnectionID, rapid.SliceOfN(rapid.Byte(), 0, 8).Draw(rt, "cid"))
		}
		data = m.Encode()
	case 4: // any method x class with odd attributes
		m := &ref.Msg{Method: rapid.IntRange(0, 0xFFF).Draw(rt, "method"), Class: rapid.IntRange(0, 3).Draw(rt, "class"), TxID: id}
		for k := rapid.IntRange(0, 3).Draw(rt, "nattr"); k > 0; k-- {
			m.Add(uint16(rapid.SampledFrom([]int{ref.AttrXORPeerAddress, ref.AttrData, ref.AttrErrorCode, ref.AttrNonce, ref.AttrLifetime, ref.AttrXORRelayedAddress, ref.AttrXORMappedAddress, ref.AttrConnectionID, 0x7F01}).Draw(rt, "atype")),
				rapid.SliceOfN(rapid.Byte(), 0, 24).Draw(rt, "aval"))
		}
		data = m.Encode()
	case 5: // valid-looking STUN with a broken length / truncated
		m := &ref.Msg{Method: ref.MethodBinding, Class: ref.ClassSuccess, TxID: id}
		m.Add(ref.AttrXORMappedAddress, ref.XorAddr(net.IPv4(1, 2, 3, 4), 5, id))
		data = m.Encode()
		if rapid.Bool().Draw(rt, "trunc") {
			data = data[:rapid.IntRange(0, len(data)).Draw(rt, "cut")]
		} else {
			binary.BigEndian.PutUint16(data[2:4], uint16(rapid.SampledFrom([]int{0, 4, 7, 0xFFFC, 0xFFFF, len(data)}).Draw(rt, "len")))
		}
	case 6: // a STUN request
		m := &ref.Msg{Method: rapid.SampledFrom([]int{ref.MethodBinding, ref.MethodAllocate, ref.MethodSend}).Draw(rt, "reqMethod"), Class: ref.ClassRequest, TxID: id}
		data = m.Encode()
	case 7: // ChannelData on the channel the client bound / an unbound valid number
		num := rapid.SampledFrom([]uint16{0x4000, 0x4000, 0x4005, 0x7FFE}).Draw(rt, "num")
		data = ref.EncodeChannelData(num, rapid.SliceOfN(rapid.Byte(), 0, 20).Draw(rt, "payload"), rapid.Bool().Draw(rt, "pad"))
	default: // 438 / error responses without transaction
		m := &ref.Msg{Method: ref.MethodRefresh, Class: ref.ClassError, TxID: id}
		m.Add(ref.AttrErrorCode, []byte{0, 0, 4, 38})
		data = m.Encode()
	}
	in.Data = hex.EncodeToString(data)
	if rapid.IntRange(0, 7).Draw(rt, "pending") == 0 {
		in.Pending = rapid.SampledFrom([]string{"success", "error", "garbled"}).Draw(rt, "pendingKind")
	}

	return in
}

func TestC09Client(t *testing.T) {
	r := vkit.Start(t, "C09")
	defer r.Finish()
	r.Assume("client side: documented (handled, error) table of Client.HandleInbound; a datagram is 'STUN-looking' when it is at least 20 bytes long and carries the magic cookie")
	do := func(c *C09Case, sample string) (string, string) {
		r.Eval(1)
		r.Label("client-state:" + c.State)
		r.NonTrivial(vkit.Hash64(c))
		if sample != "" {
			r.Sample(sample+":"+c.State, func() any { return c })
		}
		res := runC09(t, c)
		if res.kind != "" && r.IsKnown("C09."+res.kind) {
			return "", ""
		}

		return res.kind, res.msg
	}
	if r.Replay != "" {
		var c C09Case
		if err := vkit.LoadJSON(r.Replay, &c); err != nil || len(c.Inputs) == 0 {
			fmt.Println("REPLAY-NOT-MINE: not a client hostile-input case")

			return
		}
		kind, msg := do(&c, "")
		fmt.Printf("replay %s: kind=%q %s\n", r.Replay, kind, msg)
		if kind != "" {
			r.Violate(kind, msg, &c)
		}

		return
	}
	for _, f := range r.RegressFiles(".client.json") {
		var c C09Case
		if err := vkit.LoadJSON(f, &c); err != nil {
			t.Fatalf("bad regress file %s: %v", f, err)
		}
		if kind, msg := do(&c, ""); kind != "" {
			r.Violate(kind, "regress "+f+": "+msg, &c)
		}
	}
	if r.Violations() > 0 {
		return
	}
	r.Rapid(t, "random", 0, r.Checks, func(rt *rapid.T) {
		c := &C09Case{State: rapid.SampledFrom([]string{"fresh", "udp", "udp", "tcp"}).Draw(rt, "state")}
		k := rapid.IntRange(1, 8).Draw(rt, "ninputs")
		for i := 0; i < k; i++ {
			c.Inputs = append(c.Inputs, genIn09(rt))
		}
		r.Journal(c)
		kind, msg := do(c, "client")
		if kind != "" {
			r.NoteFail(kind, msg, c)
			rt.Fatalf("C09 %s", kind)
		}
	})
}
