package cliworld

import (
	"fmt"
	"testing"

	"github.com/pion/turn/v5/internal/zzverif/vkit"
	"pgregory.net/rapid"
)

// C08Client is the replay format of the client-side stage of C08: a C13 world case, judged for
// the channel numbers only.
type C08Client struct {
	C08Client bool    `json:"c08_client"`
	Case      C13Case `json:"case"`
}

// c08Kinds: what the scripted server holds against the client's ChannelBind requests and
// ChannelData as far as the one-to-one map of C08 goes.
var c08Kinds = map[string]bool{"peer-two-channels": true, "channel-number-reused": true, "channel-number-out-of-range": true}

// TestC08Client: the client's side of the binding table. Writes to a handful of peers (two of
// them differ only in port), each peer named now in the 4-byte, now in the 16-byte form of its
// IPv4 address, with refused / unanswered ChannelBind requests, idle periods that expire bindings
// and sockets that are closed. Every ChannelBind the client sends must keep number <-> peer
// one-to-one and inside 0x4000-0x7FFF.
func TestC08Client(t *testing.T) {
	r := vkit.Start(t, "C08")
	defer r.Finish()
	r.Assume("the scripted TURN server answers Allocate and Refresh correctly and reacts to CreatePermission / ChannelBind per script")
	do := func(c *C08Client, sample string) (string, string) {
		r.Eval(1)
		res := runC13(t, &c.Case)
		writes, alt := 0, 0
		for _, op := range c.Case.Ops {
			if op.Kind == "write" {
				writes++
				if op.AltForm {
					alt++
				}
			}
		}
		r.LabelN("client:writes", writes)
		r.LabelN("client:writes-with-the-other-address-form", alt)
		if writes >= 2 && alt > 0 && alt < writes {
			r.NonTrivial(vkit.Hash64(c))
			r.Label("client:both-address-forms-in-one-case")
			if sample != "" {
				r.Sample(sample, func() any { return c })
			}
		}
		if !c08Kinds[res.kind] {
			return "", "" // (everything else in that world is C13's to judge)
		}

		return res.kind, res.msg
	}
	if r.Replay != "" {
		var c C08Client
		if err := vkit.LoadJSON(r.Replay, &c); err != nil || !c.C08Client {
			fmt.Println("REPLAY-NOT-MINE: not a client binding-table case")

			return
		}
		kind, msg := do(&c, "")
		fmt.Printf("replay %s: kind=%q %s\n", r.Replay, kind, msg)
		if kind != "" {
			r.Violate(kind, msg, &c)
		}

		return
	}
	r.Rapid(t, "client-bindings", 0, r.Checks, func(rt *rapid.T) {
		c := &C08Client{C08Client: true}
		c.Case.PermReact = rapid.SliceOfN(rapid.SampledFrom([]string{"ok", "ok", "ok", "ok", "400", "silence"}), 1, 4).Draw(rt, "perm")
		c.Case.BindReact = rapid.SliceOfN(rapid.SampledFrom([]string{"ok", "ok", "ok", "400", "438", "silence", "delay"}), 1, 5).Draw(rt, "bind")
		c.Case.Reader = rapid.Bool().Draw(rt, "reader")
		c.Case.ReuseAddr = rapid.IntRange(0, 2).Draw(rt, "reuseAddr") == 0
		n := rapid.IntRange(2, 16).Draw(rt, "nops")
		for i := 0; i < n; i++ {
			op := Op13{Kind: rapid.SampledFrom([]string{"write", "write", "write", "write", "write", "inbound", "sleep"}).Draw(rt, "kind")}
			switch op.Kind {
			case "write":
				op.Peer = rapid.IntRange(0, 3).Draw(rt, "peer")
				op.N = rapid.IntRange(0, 40).Draw(rt, "n")
				op.Writers = 1
				op.AltForm = rapid.Bool().Draw(rt, "altForm")
			case "inbound":
				op.Peer = rapid.IntRange(0, 3).Draw(rt, "peer")
				op.N = rapid.IntRange(0, 40).Draw(rt, "n")
				op.Burst = 1
				op.Via = rapid.SampledFrom([]string{"data", "chan"}).Draw(rt, "via")
			case "sleep":
				op.N = rapid.SampledFrom([]int{1, 5, 31, 121, 301, 601, 1300}).Draw(rt, "secs")
			}
			c.Case.Ops = append(c.Case.Ops, op)
		}
		r.Journal(c)
		kind, msg := do(c, "client-bindings")
		if kind != "" {
			r.NoteFail(kind, msg, c)
			rt.Fatalf("C08 %s", kind)
		}
	})
}
