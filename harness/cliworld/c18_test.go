package cliworld

import (
	"fmt"
	"net"
	"os"
	"runtime"
	"runtime/pprof"
	"strings"
	"sync"
	"testing"
	"testing/synctest"
	"time"

	"github.com/pion/turn/v5"
	"github.com/pion/turn/v5/internal/zzverif/sim"
	"github.com/pion/turn/v5/internal/zzverif/vkit"
	"pgregory.net/rapid"
)

// CStorm is a client-side concurrency case: writers, a reader, peers and Close act concurrently
// against a real client/server pair.
type CStorm struct {
	Seed             uint64 `json:"seed"`
	Writers          int    `json:"writers"`
	Rounds           int    `json:"rounds"`
	CloseRound       int    `json:"close_round"`        // relayed socket closed in this round, racing with the writers
	ClientCloseRound int    `json:"client_close_round"` // Client.Close in this round (-1: at the end)
	LifetimeS        int    `json:"lifetime_s"`
	IdleGapS         int    `json:"idle_gap_s"` // everybody pauses this long in the middle (crossing the nonce horizon makes every refresh path hit 438 at once)
	// RefusedEvery > 0: every n-th write of a writer goes to a peer the server refuses (403), so that
	// failing CreatePermission transactions overlap the permission refresh timer (PermRefreshMs) while
	// responses take CtlDelayMs to arrive
	RefusedEvery  int `json:"refused_every,omitempty"`
	PermRefreshMs int `json:"perm_refresh_ms,omitempty"`
	CtlDelayMs    int `json:"ctl_delay_ms,omitempty"`
}

type cstormResult struct{ kind, msg string }

func runCStorm(t *testing.T, s *CStorm) (res cstormResult) {
	t.Helper()
	defer func() {
		if p := recover(); p != nil {
			str := fmt.Sprint(p)
			if strings.Contains(str, "blocked goroutines remain") || strings.Contains(str, "deadlock") {
				if res.kind == "" {
					res = cstormResult{"goroutine-leak", "goroutines remain blocked after closing the relayed socket, the client, the server and every socket: " + str}
				}

				return
			}
			panic(p)
		}
	}()
	// a lock-up (two goroutines waiting for each other's mutex) freezes the bubble's clock for good:
	// a wall-clock watchdog outside the bubble turns that into a crash report with all stacks
	watchdog := time.AfterFunc(90*time.Second, func() {
		fmt.Println("fatal error: lock-up: the client storm made no progress for 90 s of wall-clock time (goroutines waiting for mutexes cannot be woken by virtual time)")
		_ = pprof.Lookup("goroutine").WriteTo(os.Stdout, 1)
		os.Exit(3)
	})
	defer watchdog.Stop()
	synctest.Test(t, func(t *testing.T) { res = runCStormInner(s) })

	return res
}

func runCStormInner(s *CStorm) (res cstormResult) {
	n := sim.NewNet()
	logger := sim.NewLogger(40)
	tn := &sim.TNet{N: n}
	srvSock, _ := n.BindUDP("udp4", net.IPv4(10, 0, 0, 1), 3478)
	srv, err := turn.NewServer(turn.ServerConfig{
		Realm: "sim.realm", LoggerFactory: logger,
		AuthHandler: func(ra *turn.RequestAttributes) (string, []byte, bool) {
			return "alice", turn.GenerateAuthKey("alice", ra.Realm, "pw"), ra.Username == "alice"
		},
		AllocationLifetime: time.Duration(s.LifetimeS) * time.Second,
		PacketConnConfigs: []turn.PacketConnConfig{{PacketConn: srvSock,
			RelayAddressGenerator: &turn.RelayAddressGeneratorStatic{RelayAddress: net.IPv4(10, 9, 0, 1), Address: "10.9.0.1", Net: tn},
			PermissionHandler:     func(_ net.Addr, ip net.IP) bool { v4 := ip.To4(); return v4 == nil || v4[3] < 240 }}},
	})
	if s.CtlDelayMs > 0 {
		n.Fault = func(d *sim.Datagram) sim.FaultAction {
			if d.SrcSock == srvSock.ID && isSTUN(d.Data) {
				return sim.FaultAction{Delay: time.Duration(s.CtlDelayMs)*time.Millisecond + 211*time.Microsecond}
			}

			return sim.FaultAction{}
		}
	}
	if err != nil {
		return cstormResult{"harness", err.Error()}
	}
	csock, _ := n.BindUDP("udp4", net.IPv4(10, 1, 0, 1), 5000)
	cl, err := turn.NewClient(&turn.ClientConfig{STUNServerAddr: "10.0.0.1:3478", TURNServerAddr: "10.0.0.1:3478", Conn: csock, Net: tn,
		Username: "alice", Password: "pw", Realm: "sim.realm", LoggerFactory: logger, RTO: 100 * time.Millisecond,
		PermissionRefreshInterval: time.Duration(s.PermRefreshMs) * time.Millisecond})
	if err != nil {
		return cstormResult{"harness", err.Error()}
	}
	_ = cl.Listen()
	// the application looks at the client's accessors from another goroutine while Allocate runs
	accDone := make(chan struct{})
	go func() {
		defer close(accDone)
		for i := 0; i < 40; i++ {
			_, _ = cl.Realm(), cl.Username()
			runtime.Gosched()
		}
	}()
	relay, err := cl.Allocate()
	<-accDone
	if err != nil {
		_ = srv.Close()
		n.CloseAll()

		return cstormResult{"harness", "Allocate: " + err.Error()}
	}
	relayAddr := relay.LocalAddr()
	// an application that asks for a second allocation is refused - and that must be all
	_, secondErr := cl.Allocate()
	var peers []*sim.UDPSock
	for i := 0; i < 2*s.Writers; i++ {
		p, _ := n.BindUDP("udp4", net.IPv4(10, 2, 0, byte(i+1)), 7000)
		peers = append(peers, p)
	}
	var wg sync.WaitGroup
	for i := 0; i < s.Writers; i++ {
		wg.Add(1)
		go func(i int) { // writer i -> peer i, and peer i answers
			defer wg.Done()
			pi := i
			for r := 0; r < s.Rounds; r++ {
				time.Sleep(time.Second)
				if r == s.Rounds/2 {
					time.Sleep(time.Duration(s.IdleGapS) * time.Second)
					pi = i + s.Writers // a new peer after the pause: all writers need a permission at the same instant
				}
				pa := &net.UDPAddr{IP: net.IPv4(10, 2, 0, byte(pi+1)), Port: 7000}
				if s.RefusedEvery > 0 && r%s.RefusedEvery == i%s.RefusedEvery {
					// (a refused peer of the writer's own: two writers waiting for one permission's mutex
					// while its holder waits for a delayed response would freeze the virtual clock)
					_, _ = relay.WriteTo([]byte("refused"), &net.UDPAddr{IP: net.IPv4(10, 2, 0, byte(240+i)), Port: 7000})
				}
				_, _ = relay.WriteTo([]byte(fmt.Sprintf("w%d r%d", i, r)), pa)
				_, _ = peers[pi].WriteTo([]byte(fmt.Sprintf("p%d r%d", i, r)), relayAddr)
			}
		}(i)
	}
	// the application also installs permissions itself (Client.CreatePermission), at the same
	// instants as everything else - including the Close of the relayed socket
	wg.Add(1)
	go func() {
		defer wg.Done()
		for r := 0; r < s.Rounds; r++ {
			time.Sleep(time.Second)
			if r == s.Rounds/2 {
				time.Sleep(time.Duration(s.IdleGapS) * time.Second)
			}
			_ = cl.CreatePermission(&net.UDPAddr{IP: net.IPv4(10, 2, 0, byte(200+r%8)), Port: 7000})
		}
	}()
	readerDone := make(chan struct{})
	go func() {
		defer close(readerDone)
		buf := make([]byte, 2048)
		for {
			if _, _, err := relay.ReadFrom(buf); err != nil {
				return
			}
		}
	}()
	wg.Add(1)
	go func() {
		defer wg.Done()
		for r := 0; r < s.Rounds; r++ {
			time.Sleep(time.Second)
			if r == s.Rounds/2 {
				time.Sleep(time.Duration(s.IdleGapS) * time.Second)
			}
			if r == s.CloseRound {
				_ = relay.Close()
			}
			if r == s.ClientCloseRound {
				cl.Close()
			}
			if r%3 == 2 {
				_, _ = cl.SendBindingRequest()
			}
		}
	}()
	wg.Wait()
	_ = relay.Close()
	if secondErr != nil && (s.ClientCloseRound < 0 || s.ClientCloseRound >= s.Rounds) {
		// the socket is closed, nobody is allocating: a new Allocate may fail for many reasons
		// (the server may still hold the old allocation) but not because "somebody is allocating"
		time.Sleep(2 * time.Second)
		again, aerr := cl.Allocate()
		if aerr != nil && strings.Contains(aerr.Error(), "only one Allocate() caller is allowed") {
			res = cstormResult{"allocate-lock-left-held", "after a refused second Allocate (" + secondErr.Error() + ") and the close of the relayed socket, Allocate fails with: " + aerr.Error()}
		}
		if again != nil {
			_ = again.Close()
		}
	}
	cl.Close()
	time.Sleep(10 * time.Second)
	synctest.Wait()
	select {
	case <-readerDone:
	default:
		if res.kind == "" {
			res = cstormResult{"reader-stuck", "ReadFrom is still blocked after the relayed socket and the client were closed"}
		}
	}
	_ = srv.Close()
	n.CloseAll()
	time.Sleep(time.Hour)
	synctest.Wait()

	return res
}

func TestC18Client(t *testing.T) {
	r := vkit.Start(t, "C18")
	defer r.Finish()
	do := func(s *CStorm, sample string) (string, string) {
		r.Eval(1)
		r.NonTrivial(vkit.Hash64(s))
		r.Label("client-storm")
		if sample != "" {
			r.Sample(sample, func() any { return s })
		}
		res := runCStorm(t, s)
		if res.kind != "" && r.IsKnown("C18."+res.kind) {
			return "", ""
		}

		return res.kind, res.msg
	}
	if r.Replay != "" {
		var s CStorm
		if err := vkit.LoadJSON(r.Replay, &s); err != nil || s.Writers == 0 {
			fmt.Println("REPLAY-NOT-MINE: not a client storm case")

			return
		}
		kind, msg := do(&s, "")
		fmt.Printf("replay %s: kind=%q %s\n", r.Replay, kind, msg)
		if kind != "" {
			r.Violate(kind, msg, &s)
		}

		return
	}
	r.Rapid(t, "client-storm", 0, r.Checks, func(rt *rapid.T) {
		s := &CStorm{Seed: rapid.Uint64Range(1, 1<<30).Draw(rt, "seed")}
		s.Writers = rapid.IntRange(1, 5).Draw(rt, "writers")
		s.Rounds = rapid.IntRange(3, 30).Draw(rt, "rounds")
		s.CloseRound = rapid.IntRange(0, s.Rounds).Draw(rt, "closeRound")
		s.ClientCloseRound = -1
		if rapid.IntRange(0, 2).Draw(rt, "clientClose") == 0 {
			s.ClientCloseRound = rapid.IntRange(0, s.Rounds-1).Draw(rt, "clientCloseRound")
		}
		s.LifetimeS = rapid.SampledFrom([]int{0, 2, 4, 10, 60}).Draw(rt, "lifetime")
		s.IdleGapS = rapid.SampledFrom([]int{0, 0, 3700, 3660, 7300}).Draw(rt, "idleGap")
		if rapid.IntRange(0, 1).Draw(rt, "refused") == 0 {
			s.RefusedEvery = rapid.IntRange(1, 3).Draw(rt, "refusedEvery")
			s.PermRefreshMs = rapid.SampledFrom([]int{500, 1000, 1000, 2000, 3000}).Draw(rt, "permRefresh")
			s.CtlDelayMs = rapid.SampledFrom([]int{0, 100, 300, 700, 1200}).Draw(rt, "ctlDelay")
			s.IdleGapS = 0 // (thousands of refresh ticks under the race detector otherwise)
		}
		if s.IdleGapS > 0 && s.LifetimeS > 0 && s.LifetimeS < 60 {
			s.LifetimeS = 0 // keep the allocation alive across the gap
		}
		r.Journal(s)
		kind, msg := do(s, "client-storm")
		if kind != "" {
			r.NoteFail(kind, msg, s)
			rt.Fatalf("C18 %s", kind)
		}
	})
}

// genTie draws a C12-world case in coincidence mode: responses, Close and failing writes land
// exactly on retransmission timer instants.
func genTie(rt *rapid.T) *C12Case {
	c := &C12Case{CloseAtMs: -1, Tie: true}
	c.RTOms = rapid.SampledFrom([]int{1, 2, 10, 100, 200}).Draw(rt, "rto")
	sched, failAt := schedule(rtoOf(c))
	instants := append(append([]time.Duration{}, sched...), failAt)
	ntx := rapid.IntRange(1, 3).Draw(rt, "ntx")
	for i := 0; i < ntx; i++ {
		tx := Tx{WriteFailAt: -1, RespTo: -1, Kind: rapid.SampledFrom([]string{"binding", "raw", "raw"}).Draw(rt, "kind"), Lost: make([]bool, 7)}
		switch rapid.IntRange(0, 3).Draw(rt, "mode") {
		case 0: // the response to transmission k arrives exactly when timer k+1.. fires
			k := rapid.IntRange(0, 6).Draw(rt, "k")
			j := rapid.IntRange(k+1, 7).Draw(rt, "j")
			tx.RespTo = k
			tx.RespDelayMs = int((instants[j] - instants[k]) / time.Millisecond)
			tx.Dup = rapid.Bool().Draw(rt, "dup")
		case 1: // a write fails at transmission k (k >= 1: on the timer goroutine)
			tx.WriteFailAt = rapid.IntRange(1, 6).Draw(rt, "failAt")
		case 2: // both
			tx.WriteFailAt = rapid.IntRange(1, 6).Draw(rt, "failAt")
			tx.RespTo = 0
			tx.RespDelayMs = int(instants[tx.WriteFailAt] / time.Millisecond)
		}
		c.Txs = append(c.Txs, tx)
	}
	if rapid.IntRange(0, 3).Draw(rt, "close") > 0 {
		c.CloseAtMs = int(instants[rapid.IntRange(1, 7).Draw(rt, "closeK")] / time.Millisecond)
	}

	return c
}

func TestC18Ties(t *testing.T) { tiesTest(t, "C18") }

// TestC12Ties: the same coincidence cases judged for C12 (every transaction completes exactly
// once - with the response or an error - also when response, timeout, write error and Close meet).
func TestC12Ties(t *testing.T) { tiesTest(t, "C12") }

func tiesTest(t *testing.T, id string) {
	t.Helper()
	r := vkit.Start(t, id)
	defer r.Finish()
	r.Assume("coincidence mode: same-instant events run on separate goroutines in real parallel; outcomes are judged order-insensitively (returns once, right response or error, no hang, no panic, empty table)")
	do := func(c *C12Case, sample string) (string, string) {
		r.Eval(1)
		r.NonTrivial(vkit.Hash64(c))
		r.Label("transaction-ties")
		if sample != "" {
			r.Sample(sample, func() any { return c })
		}
		res := runC12(t, c)
		if res.kind != "" && r.IsKnown(id+"."+res.kind) {
			return "", ""
		}

		return res.kind, res.msg
	}
	if r.Replay != "" {
		var c C12Case
		if err := vkit.LoadJSON(r.Replay, &c); err != nil || !c.Tie {
			fmt.Println("REPLAY-NOT-MINE: not a tie case")

			return
		}
		kind, msg := do(&c, "")
		fmt.Printf("replay %s: kind=%q %s\n", r.Replay, kind, msg)
		if kind != "" {
			r.Violate(kind, msg, &c)
		}

		return
	}
	r.Rapid(t, "ties", 0, r.Checks, func(rt *rapid.T) {
		c := genTie(rt)
		r.Journal(c)
		kind, msg := do(c, "ties")
		if kind != "" {
			r.NoteFail(kind, msg, c)
			rt.Fatalf("%s %s", id, kind)
		}
	})
}
