package sim

import (
	crand "crypto/rand"
	"io"
	"sync"
	"sync/atomic"
)

// repeatReader wraps crypto/rand.Reader so that a case can make the random source repeat itself:
// after RepeatNextRand64 the next 8-byte read returns what the previous 8-byte read returned (the
// one-in-2^32 coincidence of two equal connection ids, on demand). Everything else passes through.
type repeatReader struct {
	inner  io.Reader
	mu     sync.Mutex
	last   [8]byte
	have   bool
	repeat atomic.Bool
}

func (r *repeatReader) Read(b []byte) (int, error) {
	if len(b) != 8 {
		return r.inner.Read(b)
	}
	r.mu.Lock()
	defer r.mu.Unlock()
	if r.repeat.Swap(false) && r.have {
		copy(b, r.last[:])

		return 8, nil
	}
	n, err := io.ReadFull(r.inner, b)
	if err == nil {
		copy(r.last[:], b)
		r.have = true
	}

	return n, err
}

var (
	repeatOnce sync.Once
	repeater   *repeatReader
)

// RepeatNextRand64 makes the next 8-byte read from crypto/rand.Reader repeat the previous one.
func RepeatNextRand64() {
	repeatOnce.Do(func() {
		repeater = &repeatReader{inner: crand.Reader}
		crand.Reader = repeater //nolint:reassign
	})
	repeater.repeat.Store(true)
}

// CancelRepeatRand64 withdraws a pending RepeatNextRand64.
func CancelRepeatRand64() {
	if repeater != nil {
		repeater.repeat.Store(false)
	}
}
