package sim

import (
	"context"
	"errors"
	"net"
	"strconv"
	"strings"

	"github.com/pion/transport/v4"
)

// TNet adapts Net to pion's transport.Net so that pion's relay address generators and the TURN
// client run on simnet unchanged.
type TNet struct {
	N *Net
	// BindHook, when set, sees every bind attempt (network, ip, port) before it is made.
	BindHook func(network string, ip net.IP, port int)
}

var _ transport.Net = (*TNet)(nil)

var errNotSupported = errors.New("sim: not supported")

// Hosts is simnet's name service: host names an operator may put where an address is expected.
var Hosts = map[string][]net.IP{
	"relay.sim":  {net.IPv4(10, 9, 0, 1), net.ParseIP("fd00:9::1")},
	"relay4.sim": {net.IPv4(10, 9, 0, 1)},
	"localhost":  {net.IPv4(127, 0, 0, 1), net.ParseIP("::1")},
}

// splitHostPortNet resolves address for network: an IP literal, or a name from Hosts (the first
// address of the network's family, as Go's resolver picks one for Listen and Dial).
func splitHostPortNet(network, address string) (net.IP, int, error) {
	ip, port, err := splitHostPort(address)
	if err == nil {
		return ip, port, nil
	}
	host, _, herr := net.SplitHostPort(address)
	if herr != nil {
		return nil, 0, err
	}
	for _, cand := range Hosts[host] {
		v4 := cand.To4() != nil
		if (strings.HasSuffix(network, "4") && !v4) || (strings.HasSuffix(network, "6") && v4) {
			continue
		}
		_, port, _ = splitHostPort(net.JoinHostPort("0.0.0.0", address[strings.LastIndex(address, ":")+1:]))

		return append(net.IP{}, cand...), port, nil
	}

	return nil, 0, err
}

func splitHostPort(address string) (net.IP, int, error) {
	host, portStr, err := net.SplitHostPort(address)
	if err != nil {
		return nil, 0, err
	}
	port, err := strconv.Atoi(portStr)
	if err != nil || port < 0 || port > 65535 {
		return nil, 0, &net.AddrError{Err: "invalid port", Addr: address}
	}
	if host == "" {
		return nil, port, nil
	}
	ip := net.ParseIP(host)
	if ip == nil {
		return nil, 0, &net.AddrError{Err: "sim: cannot resolve host", Addr: host}
	}

	return ip, port, nil
}

// ListenPacket implements transport.Net.
func (t *TNet) ListenPacket(network string, address string) (net.PacketConn, error) {
	ip, port, err := splitHostPortNet(network, address)
	if err != nil {
		return nil, err
	}
	if t.BindHook != nil {
		t.BindHook(network, ip, port)
	}
	s, err := t.N.BindUDP(network, ip, port)
	if err != nil {
		return nil, err
	}

	return s, nil
}

// ListenUDP implements transport.Net.
func (t *TNet) ListenUDP(network string, locAddr *net.UDPAddr) (transport.UDPConn, error) {
	var ip net.IP
	port := 0
	if locAddr != nil {
		ip, port = locAddr.IP, locAddr.Port
	}
	if t.BindHook != nil {
		t.BindHook(network, ip, port)
	}
	s, err := t.N.BindUDP(network, ip, port)
	if err != nil {
		return nil, err
	}

	return s, nil
}

type tcpListener struct{ *Listener }

func (l tcpListener) AcceptTCP() (transport.TCPConn, error) {
	c, err := l.AcceptConn()
	if err != nil {
		return nil, err
	}

	return c, nil
}

// ListenTCP implements transport.Net.
func (t *TNet) ListenTCP(network string, laddr *net.TCPAddr) (transport.TCPListener, error) {
	var ip net.IP
	port := 0
	if laddr != nil {
		ip, port = laddr.IP, laddr.Port
	}
	if t.BindHook != nil {
		t.BindHook(network, ip, port)
	}
	l, err := t.N.ListenTCPAt(network, ip, port)
	if err != nil {
		return nil, err
	}

	return tcpListener{l}, nil
}

// Dial implements transport.Net.
func (t *TNet) Dial(network, address string) (net.Conn, error) {
	ip, port, err := splitHostPortNet(network, address)
	if err != nil {
		return nil, err
	}
	switch network {
	case "tcp", "tcp4", "tcp6":
		c, err := t.N.DialTCPFrom(nil, &net.TCPAddr{IP: ip, Port: port})
		if err != nil {
			return nil, err
		}

		return c, nil
	default:
		return t.DialUDP(network, nil, &net.UDPAddr{IP: ip, Port: port})
	}
}

// DialUDP implements transport.Net.
func (t *TNet) DialUDP(network string, laddr, raddr *net.UDPAddr) (transport.UDPConn, error) {
	var ip net.IP
	port := 0
	if laddr != nil {
		ip, port = laddr.IP, laddr.Port
	}
	s, err := t.N.BindUDP(network, ip, port)
	if err != nil {
		return nil, err
	}
	s.remote = raddr

	return s, nil
}

// DialTCP implements transport.Net.
func (t *TNet) DialTCP(_ string, laddr, raddr *net.TCPAddr) (transport.TCPConn, error) {
	c, err := t.N.DialTCPFrom(laddr, raddr)
	if err != nil {
		return nil, err
	}

	return c, nil
}

// ResolveIPAddr implements transport.Net.
func (t *TNet) ResolveIPAddr(_, address string) (*net.IPAddr, error) {
	ip := net.ParseIP(address)
	if ip == nil {
		return nil, &net.AddrError{Err: "sim: cannot resolve", Addr: address}
	}

	return &net.IPAddr{IP: ip}, nil
}

// ResolveUDPAddr implements transport.Net.
func (t *TNet) ResolveUDPAddr(network, address string) (*net.UDPAddr, error) {
	ip, port, err := splitHostPortNet(network, address)
	if err != nil {
		return nil, err
	}

	return &net.UDPAddr{IP: ip, Port: port}, nil
}

// ResolveTCPAddr implements transport.Net.
func (t *TNet) ResolveTCPAddr(network, address string) (*net.TCPAddr, error) {
	ip, port, err := splitHostPortNet(network, address)
	if err != nil {
		return nil, err
	}

	return &net.TCPAddr{IP: ip, Port: port}, nil
}

// Interfaces implements transport.Net.
func (t *TNet) Interfaces() ([]*transport.Interface, error) { return nil, errNotSupported }

// InterfaceByIndex implements transport.Net.
func (t *TNet) InterfaceByIndex(int) (*transport.Interface, error) { return nil, errNotSupported }

// InterfaceByName implements transport.Net.
func (t *TNet) InterfaceByName(string) (*transport.Interface, error) { return nil, errNotSupported }

type dialer struct {
	t *TNet
	d *net.Dialer
}

func (d dialer) Dial(network, address string) (net.Conn, error) {
	ip, port, err := splitHostPortNet(network, address)
	if err != nil {
		return nil, err
	}
	var laddr *net.TCPAddr
	if d.d != nil && d.d.LocalAddr != nil {
		switch a := d.d.LocalAddr.(type) {
		case *net.TCPAddr:
			laddr = a
		case *net.UDPAddr:
			laddr = &net.TCPAddr{IP: a.IP, Port: a.Port}
		}
	}
	c, err := d.t.N.DialTCPFrom(laddr, &net.TCPAddr{IP: ip, Port: port})
	if err != nil {
		return nil, err
	}

	return c, nil
}

// CreateDialer implements transport.Net.
func (t *TNet) CreateDialer(d *net.Dialer) transport.Dialer { return dialer{t: t, d: d} }

type listenConfig struct {
	t     *TNet
	reuse bool // a Control function was supplied: pion's generators use it for reuseport.Control
}

func (lc listenConfig) Listen(_ context.Context, network, address string) (net.Listener, error) {
	ip, port, err := splitHostPortNet(network, address)
	if err != nil {
		return nil, err
	}
	if lc.t.BindHook != nil {
		lc.t.BindHook(network, ip, port)
	}
	l, err := lc.t.N.ListenTCPOpt(network, ip, port, lc.reuse)
	if err != nil {
		return nil, err
	}

	return l, nil
}

func (lc listenConfig) ListenPacket(_ context.Context, network, address string) (net.PacketConn, error) {
	ip, port, err := splitHostPortNet(network, address)
	if err != nil {
		return nil, err
	}
	if lc.t.BindHook != nil {
		lc.t.BindHook(network, ip, port)
	}
	s, err := lc.t.N.BindUDPOpt(network, ip, port, lc.reuse)
	if err != nil {
		return nil, err
	}

	return s, nil
}

// CreateListenConfig implements transport.Net.
func (t *TNet) CreateListenConfig(lc *net.ListenConfig) transport.ListenConfig {
	return listenConfig{t: t, reuse: lc != nil && lc.Control != nil}
}
