package sim

import (
	"fmt"
	"strings"
	"sync"
	"sync/atomic"
	"time"

	"github.com/pion/logging"
)

// Logger is a logging.LoggerFactory that keeps the last lines of a case and counts calls (the
// call counter feeds the spin budget).
type Logger struct {
	mu    sync.Mutex
	lines []string
	Keep  int
	Calls atomic.Int64
	// OnLog, when set, is called for every line (level, text).
	OnLog func(level, line string)
}

// NewLogger creates a Logger keeping the last `keep` lines.
func NewLogger(keep int) *Logger { return &Logger{Keep: keep} }

// Lines returns the retained lines.
func (l *Logger) Lines() []string {
	l.mu.Lock()
	defer l.mu.Unlock()

	return append([]string{}, l.lines...)
}

func (l *Logger) add(level, scope, s string) {
	n := l.Calls.Add(1)
	if n > 5_000_000 {
		l.mu.Lock()
		tail := l.lines
		if len(tail) > 12 {
			tail = tail[len(tail)-12:]
		}
		msg := "sim.Logger: more than 5e6 log calls in one case (busy loop?); last lines:\n  " + strings.Join(tail, "\n  ")
		l.mu.Unlock()
		panic(msg)
	}
	if l.Keep <= 0 {
		return
	}
	line := time.Now().UTC().Format("15:04:05.0000") + " " + level + " " + scope + ": " + s
	l.mu.Lock()
	l.lines = append(l.lines, line)
	if len(l.lines) > l.Keep {
		l.lines = l.lines[len(l.lines)-l.Keep:]
	}
	cb := l.OnLog
	l.mu.Unlock()
	if cb != nil {
		cb(level, line)
	}
}

// NewLogger implements logging.LoggerFactory.
func (l *Logger) NewLogger(scope string) logging.LeveledLogger { return &scoped{l: l, scope: scope} }

type scoped struct {
	l     *Logger
	scope string
}

func (s *scoped) Trace(msg string)          { s.l.Calls.Add(1) }
func (s *scoped) Tracef(string, ...any)     { s.l.Calls.Add(1) }
func (s *scoped) Debug(msg string)          { s.l.add("D", s.scope, msg) }
func (s *scoped) Debugf(f string, a ...any) { s.l.add("D", s.scope, fmt.Sprintf(f, a...)) }
func (s *scoped) Info(msg string)           { s.l.add("I", s.scope, msg) }
func (s *scoped) Infof(f string, a ...any)  { s.l.add("I", s.scope, fmt.Sprintf(f, a...)) }
func (s *scoped) Warn(msg string)           { s.l.add("W", s.scope, msg) }
func (s *scoped) Warnf(f string, a ...any)  { s.l.add("W", s.scope, fmt.Sprintf(f, a...)) }
func (s *scoped) Error(msg string)          { s.l.add("E", s.scope, msg) }
func (s *scoped) Errorf(f string, a ...any) { s.l.add("E", s.scope, fmt.Sprintf(f, a...)) }
