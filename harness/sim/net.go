// Package sim is the in-memory network ("simnet") the property checks run pion/turn on: UDP
// sockets with kernel-like datagram semantics, TCP-like stream connections and listeners, a wire
// log of everything sent, script-driven faults, and a transport.Net façade. All blocking is done
// on channels and timers so that it is "durably blocked" for testing/synctest; mutexes are held
// only for short critical sections.
package sim

import (
	"errors"
	"fmt"
	"io"
	"net"
	"os"
	"runtime"
	"strconv"
	"sync"
	"syscall"
	"time"
)

// Datagram is one entry of the UDP wire log.
type Datagram struct {
	Seq     int
	Time    time.Time
	From    *net.UDPAddr
	To      *net.UDPAddr
	Data    []byte
	Dropped bool // dropped by the fault script
	NoDest  bool // nobody was bound at the destination
	SrcSock int  // id of the sending socket
	DstSock int  // id of the receiving socket (0 if none)
}

// FaultAction is what the fault script decides for one datagram.
type FaultAction struct {
	Drop      bool
	Duplicate int           // extra copies
	Delay     time.Duration // deliver later (virtual time)
}

// StreamEvent is one entry of the stream wire log.
type StreamEvent struct {
	Time time.Time
	Conn int    // id of the writing Conn
	Kind string // write | close | dial | accept
	Data []byte
}

// Net is one simulated network.
type Net struct {
	mu        sync.Mutex
	udp       map[string]*UDPSock
	lis       map[string]*Listener
	wire      []*Datagram
	streamLog []StreamEvent
	nextPort  int
	nextID    int
	socks     []*UDPSock
	conns     []*Conn
	listeners []*Listener

	// HostIP4 / HostIP6 are used as source address of wildcard-bound sockets.
	HostIP4 net.IP
	HostIP6 net.IP

	// Fault, when set, is consulted for every datagram (called without locks held).
	Fault func(d *Datagram) FaultAction
	// OwnerTag is attached to sockets/listeners/conns created while it is set (who asked for it).
	ownerTag string
}

// NewNet creates an empty network.
func NewNet() *Net {
	return &Net{
		udp:      map[string]*UDPSock{},
		lis:      map[string]*Listener{},
		nextPort: 49152,
		HostIP4:  net.IPv4(10, 255, 0, 1),
		HostIP6:  net.ParseIP("fd00::ff:1"),
	}
}

// SetOwnerTag sets the tag recorded on resources created from now on.
func (n *Net) SetOwnerTag(tag string) {
	n.mu.Lock()
	n.ownerTag = tag
	n.mu.Unlock()
}

func key(ip net.IP, port int) string {
	ip16 := ip.To16()
	if ip16 == nil {
		ip16 = net.IPv6zero
	}

	return string(ip16) + ":" + strconv.Itoa(port)
}

func isWild(ip net.IP) bool { return ip == nil || ip.IsUnspecified() }

func is4(ip net.IP) bool { return ip.To4() != nil }

// errAddrInUse mimics EADDRINUSE.
func errAddrInUse(op string, a net.Addr) error {
	return &net.OpError{Op: op, Net: a.Network(), Addr: a, Err: os.NewSyscallError("bind", syscall.EADDRINUSE)}
}

func closedErr(op string, a net.Addr) error {
	return &net.OpError{Op: op, Net: "sim", Addr: a, Err: net.ErrClosed}
}

func timeoutErr(op string, a net.Addr) error {
	return &net.OpError{Op: op, Net: "sim", Addr: a, Err: os.ErrDeadlineExceeded}
}

// portBusyLocked reports whether (ip,port) conflicts with a bound UDP socket.
func (n *Net) udpBusyLocked(ip net.IP, port int, v4 bool, reuse bool) bool {
	for _, s := range n.socks {
		if s.local.Port != port || s.v4 != v4 || s.IsClosed() {
			continue
		}
		if reuse && s.Reuse {
			continue // both sockets carry SO_REUSEPORT: the kernel lets them share the port
		}
		if isWild(ip) || isWild(s.local.IP) || s.local.IP.Equal(ip) {
			return true
		}
	}

	return false
}

func (n *Net) tcpBusyLocked(ip net.IP, port int, v4 bool, reuse bool) bool {
	for _, l := range n.listeners {
		if l.addr.Port != port || l.v4 != v4 || l.IsClosed() {
			continue
		}
		if reuse && l.Reuse {
			continue // SO_REUSEPORT on both listeners
		}
		if isWild(ip) || isWild(l.addr.IP) || l.addr.IP.Equal(ip) {
			return true
		}
	}

	return false
}

func familyOf(network string, ip net.IP) (v4 bool, err error) {
	switch network {
	case "udp4", "tcp4":
		if !isWild(ip) && !is4(ip) {
			return false, &net.AddrError{Err: "non-IPv4 address", Addr: ip.String()}
		}

		return true, nil
	case "udp6", "tcp6":
		// (the literal 0.0.0.0 is refused too: "listen udp6: address 0.0.0.0: no suitable address
		// found", while "::" on an IPv4 network is taken for the IPv4 wildcard - as Go's net does)
		if len(ip) > 0 && is4(ip) {
			return false, &net.AddrError{Err: "non-IPv6 address", Addr: ip.String()}
		}

		return false, nil
	case "udp", "tcp":
		if isWild(ip) {
			return len(ip) != net.IPv6len || ip.To4() != nil || ip == nil, nil
		}

		return is4(ip), nil
	}

	return false, net.UnknownNetworkError(network)
}

// BindUDP binds a UDP socket; port 0 picks an ephemeral port.
func (n *Net) BindUDP(network string, ip net.IP, port int) (*UDPSock, error) {
	return n.BindUDPOpt(network, ip, port, false)
}

// BindUDPOpt is BindUDP with the SO_REUSEPORT socket option.
func (n *Net) BindUDPOpt(network string, ip net.IP, port int, reuse bool) (*UDPSock, error) {
	v4, err := familyOf(network, ip)
	if err != nil {
		return nil, err
	}
	if port < 0 || port > 65535 {
		return nil, &net.AddrError{Err: "invalid port", Addr: strconv.Itoa(port)}
	}
	if isWild(ip) {
		if v4 {
			ip = net.IPv4zero
		} else {
			ip = net.IPv6unspecified
		}
	}
	n.mu.Lock()
	defer n.mu.Unlock()
	if port == 0 {
		for i := 0; i < 20000; i++ {
			p := n.nextPort
			n.nextPort++
			if n.nextPort > 65535 {
				n.nextPort = 49152
			}
			if !n.udpBusyLocked(ip, p, v4, false) {
				port = p

				break
			}
		}
		if port == 0 {
			return nil, errAddrInUse("listen", &net.UDPAddr{IP: ip})
		}
	} else if n.udpBusyLocked(ip, port, v4, reuse) {
		return nil, errAddrInUse("listen", &net.UDPAddr{IP: ip, Port: port})
	}
	n.nextID++
	s := &UDPSock{
		net:      n,
		ID:       n.nextID,
		Owner:    n.ownerTag,
		local:    &net.UDPAddr{IP: append(net.IP{}, ip...), Port: port},
		v4:       v4,
		wake:     make(chan struct{}, 1),
		closedCh: make(chan struct{}),
		Born:     time.Now(),
		Reuse:    reuse,
	}
	n.udp[key(ip, port)] = s
	n.socks = append(n.socks, s)

	return s, nil
}

func (n *Net) lookupUDPLocked(dst *net.UDPAddr) *UDPSock {
	if s, ok := n.udp[key(dst.IP, dst.Port)]; ok {
		return s
	}
	if is4(dst.IP) {
		if s, ok := n.udp[key(net.IPv4zero, dst.Port)]; ok && s.v4 {
			return s
		}
		if s, ok := n.udp[key(net.IPv6unspecified, dst.Port)]; ok && s.Dual {
			return s
		}
	} else if s, ok := n.udp[key(net.IPv6unspecified, dst.Port)]; ok && !s.v4 {
		return s
	}

	return nil
}

// send routes one datagram (called by UDPSock.WriteTo).
func (n *Net) send(src *UDPSock, from, to *net.UDPAddr, data []byte) {
	d := &Datagram{Time: time.Now(), From: from, To: to, Data: append([]byte{}, data...), SrcSock: src.ID}
	n.mu.Lock()
	d.Seq = len(n.wire)
	n.wire = append(n.wire, d)
	fault := n.Fault
	n.mu.Unlock()
	act := FaultAction{}
	if fault != nil {
		act = fault(d)
	}
	if act.Drop {
		d.Dropped = true

		return
	}
	deliver := func() {
		n.mu.Lock()
		dst := n.lookupUDPLocked(to)
		n.mu.Unlock()
		if dst == nil {
			d.NoDest = true

			return
		}
		d.DstSock = dst.ID
		dst.enqueue(from, d.Data)
	}
	for i := 0; i <= act.Duplicate; i++ {
		if act.Delay > 0 {
			time.AfterFunc(act.Delay, deliver)
		} else {
			deliver()
		}
	}
}

// BindUDPDual binds the dual-stack wildcard socket [::]:port (net.ListenPacket("udp", ":port")
// on a host with both families).
func (n *Net) BindUDPDual(port int) (*UDPSock, error) {
	s, err := n.BindUDPOpt("udp6", net.IPv6unspecified, port, false)
	if err != nil {
		return nil, err
	}
	n.mu.Lock()
	clash := n.udpBusyLocked(net.IPv4zero, s.local.Port, true, false)
	n.mu.Unlock()
	if clash {
		_ = s.Close()

		return nil, errAddrInUse("listen", s.local)
	}
	s.Dual = true

	return s, nil
}

// Wire returns the UDP wire log entries from index `from` on.
func (n *Net) Wire(from int) []*Datagram {
	n.mu.Lock()
	defer n.mu.Unlock()
	if from > len(n.wire) {
		from = len(n.wire)
	}

	return append([]*Datagram{}, n.wire[from:]...)
}

// WireLen is the current length of the wire log.
func (n *Net) WireLen() int {
	n.mu.Lock()
	defer n.mu.Unlock()

	return len(n.wire)
}

// Socks returns every UDP socket ever bound.
func (n *Net) Socks() []*UDPSock {
	n.mu.Lock()
	defer n.mu.Unlock()

	return append([]*UDPSock{}, n.socks...)
}

// Conns returns every stream connection end ever created.
func (n *Net) Conns() []*Conn {
	n.mu.Lock()
	defer n.mu.Unlock()

	return append([]*Conn{}, n.conns...)
}

// Listeners returns every listener ever created.
func (n *Net) Listeners() []*Listener {
	n.mu.Lock()
	defer n.mu.Unlock()

	return append([]*Listener{}, n.listeners...)
}

// StreamLog returns the stream wire log from index `from` on.
func (n *Net) StreamLog(from int) []StreamEvent {
	n.mu.Lock()
	defer n.mu.Unlock()
	if from > len(n.streamLog) {
		from = len(n.streamLog)
	}

	return append([]StreamEvent{}, n.streamLog[from:]...)
}

func (n *Net) logStream(ev StreamEvent) {
	n.mu.Lock()
	n.streamLog = append(n.streamLog, ev)
	n.mu.Unlock()
}

// CloseAll force-closes everything (used at teardown so that no goroutine stays blocked on simnet).
func (n *Net) CloseAll() {
	for _, s := range n.Socks() {
		s.forceClose()
	}
	for _, l := range n.Listeners() {
		l.forceClose()
	}
	for _, c := range n.Conns() {
		c.forceClose()
	}
}

// ---------------------------------------------------------------------------------------------

// UDPSock is a bound UDP socket; it implements net.PacketConn and transport.UDPConn.
type UDPSock struct {
	net   *Net
	ID    int
	Reuse bool // bound with SO_REUSEPORT
	Owner string
	Born  time.Time
	local *net.UDPAddr
	v4    bool
	// Dual marks an IPv6 wildcard socket without IPV6_V6ONLY: it also receives datagrams
	// addressed to the host's IPv4 addresses and reports their sources in the 16-byte
	// IPv4-mapped form, as the kernel does.
	Dual bool
	// FailClose: Close releases the socket but reports an error
	FailClose bool

	mu         sync.Mutex
	queue      []pkt
	wake       chan struct{}
	closed     bool
	closedCh   chan struct{}
	CloseCount int
	ClosedAt   time.Time
	forced     bool
	rdl        time.Time
	readErr    error
	writeErrs  int // fail this many upcoming writes
	writeErrAt map[int]bool
	writes     int
	Reads      int // successful reads
	ZeroReads  int
	remote     *net.UDPAddr // for DialUDP
}

type pkt struct {
	from *net.UDPAddr
	data []byte
}

func (s *UDPSock) signal() {
	select {
	case s.wake <- struct{}{}:
	default:
	}
}

func (s *UDPSock) enqueue(from *net.UDPAddr, data []byte) {
	s.mu.Lock()
	if s.closed {
		s.mu.Unlock()

		return
	}
	if s.Dual && len(from.IP) == net.IPv4len {
		from = &net.UDPAddr{IP: from.IP.To16(), Port: from.Port}
	}
	s.queue = append(s.queue, pkt{from: from, data: data})
	s.mu.Unlock()
	s.signal()
}

// QueueLen reports how many datagrams wait unread.
func (s *UDPSock) QueueLen() int {
	s.mu.Lock()
	defer s.mu.Unlock()

	return len(s.queue)
}

// TryRead pops one datagram without blocking (harness-side endpoints).
func (s *UDPSock) TryRead() (data []byte, from *net.UDPAddr, ok bool) {
	s.mu.Lock()
	defer s.mu.Unlock()
	if len(s.queue) == 0 {
		return nil, nil, false
	}
	p := s.queue[0]
	s.queue = s.queue[1:]

	return p.data, p.from, true
}

// InjectReadError makes the next (or the currently blocked) ReadFrom fail with err.
func (s *UDPSock) InjectReadError(err error) {
	s.mu.Lock()
	s.readErr = err
	s.mu.Unlock()
	s.signal()
}

// FailWrites makes the next k WriteTo calls fail.
func (s *UDPSock) FailWrites(k int) {
	s.mu.Lock()
	s.writeErrs = k
	s.mu.Unlock()
}

// FailWriteAt makes the i-th WriteTo call (0-based, counted from now) fail.
func (s *UDPSock) FailWriteAt(i int) {
	s.mu.Lock()
	if s.writeErrAt == nil {
		s.writeErrAt = map[int]bool{}
	}
	s.writeErrAt[s.writes+i] = true
	s.mu.Unlock()
}

// IsClosed reports whether Close has been called.
func (s *UDPSock) IsClosed() bool {
	s.mu.Lock()
	defer s.mu.Unlock()

	return s.closed
}

// ReadFrom implements net.PacketConn with kernel semantics: a short buffer truncates the datagram
// and the rest is discarded.
func (s *UDPSock) ReadFrom(b []byte) (int, net.Addr, error) {
	n, a, err := s.readFrom(b)
	if a == nil {
		return n, nil, err
	}

	return n, a, err
}

func (s *UDPSock) readFrom(b []byte) (int, *net.UDPAddr, error) {
	for {
		s.mu.Lock()
		if s.closed {
			s.mu.Unlock()

			return 0, nil, closedErr("read", s.local)
		}
		if s.readErr != nil {
			err := s.readErr
			s.readErr = nil
			s.mu.Unlock()

			return 0, nil, err
		}
		if len(s.queue) > 0 {
			p := s.queue[0]
			s.queue = s.queue[1:]
			s.Reads++
			s.mu.Unlock()
			n := copy(b, p.data)

			return n, p.from, nil
		}
		dl := s.rdl
		s.mu.Unlock()
		var timerC <-chan time.Time
		var timer *time.Timer
		if !dl.IsZero() {
			d := time.Until(dl)
			if d <= 0 {
				return 0, nil, timeoutErr("read", s.local)
			}
			timer = time.NewTimer(d)
			timerC = timer.C
		}
		select {
		case <-s.wake:
		case <-s.closedCh:
		case <-timerC:
		}
		if timer != nil {
			timer.Stop()
		}
	}
}

func toUDPAddr(a net.Addr) (*net.UDPAddr, error) {
	switch v := a.(type) {
	case *net.UDPAddr:
		if v == nil {
			return nil, &net.AddrError{Err: "nil address"}
		}

		return v, nil
	case *net.TCPAddr:
		return &net.UDPAddr{IP: v.IP, Port: v.Port}, nil
	case nil:
		return nil, &net.AddrError{Err: "missing address"}
	default:
		return net.ResolveUDPAddr("udp", a.String())
	}
}

// WriteTo implements net.PacketConn.
func (s *UDPSock) WriteTo(b []byte, addr net.Addr) (int, error) {
	to, err := toUDPAddr(addr)
	if err != nil {
		return 0, err
	}
	s.mu.Lock()
	if s.closed {
		s.mu.Unlock()

		return 0, closedErr("write", s.local)
	}
	idx := s.writes
	s.writes++
	if s.writeErrs > 0 || s.writeErrAt[idx] {
		if s.writeErrs > 0 {
			s.writeErrs--
		}
		s.mu.Unlock()

		return 0, &net.OpError{Op: "write", Net: "udp", Addr: to, Err: os.NewSyscallError("sendto", syscall.ENETUNREACH)}
	}
	s.mu.Unlock()
	if len(b) > 65507 {
		return 0, &net.OpError{Op: "write", Net: "udp", Addr: to, Err: os.NewSyscallError("sendto", syscall.EMSGSIZE)}
	}
	from := s.sourceFor(to)
	s.net.send(s, from, &net.UDPAddr{IP: append(net.IP{}, to.IP...), Port: to.Port}, b)

	return len(b), nil
}

func (s *UDPSock) sourceFor(to *net.UDPAddr) *net.UDPAddr {
	if !isWild(s.local.IP) {
		return &net.UDPAddr{IP: s.local.IP, Port: s.local.Port}
	}
	if is4(to.IP) {
		return &net.UDPAddr{IP: s.net.HostIP4, Port: s.local.Port}
	}

	return &net.UDPAddr{IP: s.net.HostIP6, Port: s.local.Port}
}

// Close implements net.PacketConn; the port becomes free again.
func (s *UDPSock) Close() error {
	s.mu.Lock()
	s.CloseCount++
	if s.closed {
		s.mu.Unlock()

		return closedErr("close", s.local)
	}
	s.closed = true
	s.ClosedAt = time.Now()
	close(s.closedCh)
	failClose := s.FailClose
	s.mu.Unlock()
	s.net.mu.Lock()
	if cur, ok := s.net.udp[key(s.local.IP, s.local.Port)]; ok && cur == s {
		delete(s.net.udp, key(s.local.IP, s.local.Port))
	}
	s.net.mu.Unlock()
	if failClose {
		// close(2) may report a deferred I/O error; the descriptor is released all the same
		return &net.OpError{Op: "close", Net: "udp", Addr: s.local, Err: os.NewSyscallError("close", syscall.EIO)}
	}

	return nil
}

func (s *UDPSock) forceClose() {
	s.mu.Lock()
	if s.closed {
		s.mu.Unlock()

		return
	}
	s.forced = true
	s.closed = true
	close(s.closedCh)
	s.mu.Unlock()
	s.net.mu.Lock()
	if cur, ok := s.net.udp[key(s.local.IP, s.local.Port)]; ok && cur == s {
		delete(s.net.udp, key(s.local.IP, s.local.Port))
	}
	s.net.mu.Unlock()
}

// LocalAddr implements net.PacketConn (a fresh copy each call, like the kernel).
func (s *UDPSock) LocalAddr() net.Addr {
	return &net.UDPAddr{IP: append(net.IP{}, s.local.IP...), Port: s.local.Port}
}

// Local returns the bound address without copying.
func (s *UDPSock) Local() *net.UDPAddr { return s.local }

// SetDeadline implements net.PacketConn.
func (s *UDPSock) SetDeadline(t time.Time) error { return s.SetReadDeadline(t) }

// SetReadDeadline implements net.PacketConn.
func (s *UDPSock) SetReadDeadline(t time.Time) error {
	s.mu.Lock()
	s.rdl = t
	s.mu.Unlock()
	s.signal()

	return nil
}

// SetWriteDeadline implements net.PacketConn.
func (s *UDPSock) SetWriteDeadline(time.Time) error { return nil }

// transport.UDPConn extras.

// RemoteAddr implements transport.UDPConn.
func (s *UDPSock) RemoteAddr() net.Addr {
	if s.remote == nil {
		return nil
	}

	return s.remote
}

// SetReadBuffer implements transport.UDPConn.
func (s *UDPSock) SetReadBuffer(int) error { return nil }

// SetWriteBuffer implements transport.UDPConn.
func (s *UDPSock) SetWriteBuffer(int) error { return nil }

// Read implements transport.UDPConn.
func (s *UDPSock) Read(b []byte) (int, error) {
	n, _, err := s.readFrom(b)

	return n, err
}

// ReadFromUDP implements transport.UDPConn.
func (s *UDPSock) ReadFromUDP(b []byte) (int, *net.UDPAddr, error) { return s.readFrom(b) }

// ReadMsgUDP implements transport.UDPConn.
func (s *UDPSock) ReadMsgUDP(b, _ []byte) (n, oobn, flags int, addr *net.UDPAddr, err error) {
	n, addr, err = s.readFrom(b)

	return n, 0, 0, addr, err
}

// Write implements transport.UDPConn.
func (s *UDPSock) Write(b []byte) (int, error) {
	if s.remote == nil {
		return 0, errors.New("sim: not connected")
	}

	return s.WriteTo(b, s.remote)
}

// WriteToUDP implements transport.UDPConn.
func (s *UDPSock) WriteToUDP(b []byte, addr *net.UDPAddr) (int, error) { return s.WriteTo(b, addr) }

// WriteMsgUDP implements transport.UDPConn.
func (s *UDPSock) WriteMsgUDP(b, _ []byte, addr *net.UDPAddr) (n, oobn int, err error) {
	n, err = s.WriteTo(b, addr)

	return n, 0, err
}

func (s *UDPSock) String() string {
	return fmt.Sprintf("udp#%d@%s(owner=%s)", s.ID, s.local, s.Owner)
}

// ---------------------------------------------------------------------------------------------

type halfPipe struct {
	mu      sync.Mutex
	chunks  [][]byte
	eof     bool // writer closed
	rclosed bool // reader closed
	wake    chan struct{}
	// window > 0: at most this many unread bytes are in flight; Write blocks (and honours the
	// write deadline) until the reader has taken bytes out, as TCP flow control does
	window   int
	buffered int
	space    chan struct{}
}

func newHalfPipe() *halfPipe {
	return &halfPipe{wake: make(chan struct{}, 1), space: make(chan struct{}, 1)}
}

func (h *halfPipe) freed(n int) { // h.mu held
	h.buffered -= n
	select {
	case h.space <- struct{}{}:
	default:
	}
}

func (h *halfPipe) signal() {
	select {
	case h.wake <- struct{}{}:
	default:
	}
}

// Conn is one end of a simulated TCP connection; it implements net.Conn and transport.TCPConn.
type Conn struct {
	net    *Net
	ID     int
	Owner  string
	Born   time.Time
	local  *net.TCPAddr
	remote *net.TCPAddr
	rd     *halfPipe
	wr     *halfPipe
	peer   *Conn

	mu         sync.Mutex
	closed     bool
	closedCh   chan struct{}
	CloseCount int
	ClosedAt   time.Time
	forced     bool
	rdl        time.Time
	wdl        time.Time
	// wtok serialises windowed writers: like a kernel socket, one Write call's bytes are never
	// interleaved with another's (a channel, so that waiting for it is a durable block)
	wtok chan struct{}
	// Segment, when set, splits each Write into the chunks the reader will see one per Read.
	Segment func(b []byte) [][]byte
	// Received accumulates everything this end has read (harness-side ends use ReadAvailable).
	writeErr error
}

func (c *Conn) String() string {
	return fmt.Sprintf("tcp#%d %s->%s(owner=%s)", c.ID, c.local, c.remote, c.Owner)
}

// Peer returns the other end.
func (c *Conn) Peer() *Conn { return c.peer }

// IsClosed reports whether this end was closed locally.
func (c *Conn) IsClosed() bool {
	c.mu.Lock()
	defer c.mu.Unlock()

	return c.closed
}

// InjectWriteError makes every following Write fail with err.
func (c *Conn) InjectWriteError(err error) {
	c.mu.Lock()
	c.writeErr = err
	c.mu.Unlock()
}

// Read implements net.Conn: at most one written chunk per call.
func (c *Conn) Read(b []byte) (int, error) {
	for {
		c.mu.Lock()
		closed := c.closed
		dl := c.rdl
		c.mu.Unlock()
		if closed {
			return 0, closedErr("read", c.local)
		}
		h := c.rd
		h.mu.Lock()
		if h.rclosed {
			h.mu.Unlock()

			return 0, closedErr("read", c.local)
		}
		if len(h.chunks) > 0 {
			if len(b) == 0 {
				h.mu.Unlock()

				return 0, nil
			}
			ch := h.chunks[0]
			n := copy(b, ch)
			if n < len(ch) {
				h.chunks[0] = ch[n:]
			} else {
				h.chunks = h.chunks[1:]
			}
			h.freed(n)
			h.mu.Unlock()

			return n, nil
		}
		if h.eof {
			h.mu.Unlock()

			return 0, io.EOF
		}
		h.mu.Unlock()
		var timerC <-chan time.Time
		var timer *time.Timer
		if !dl.IsZero() {
			d := time.Until(dl)
			if d <= 0 {
				return 0, timeoutErr("read", c.local)
			}
			timer = time.NewTimer(d)
			timerC = timer.C
		}
		select {
		case <-h.wake:
		case <-c.closedCh:
		case <-timerC:
		}
		if timer != nil {
			timer.Stop()
		}
	}
}

// ReadAvailable drains what is buffered without blocking (harness-side ends).
func (c *Conn) ReadAvailable() (data []byte, eof bool) {
	h := c.rd
	h.mu.Lock()
	defer h.mu.Unlock()
	for _, ch := range h.chunks {
		data = append(data, ch...)
	}
	h.chunks = nil
	h.freed(len(data))

	return data, h.eof
}

// SetRecvWindow bounds the bytes in flight towards this end (0 = unbounded): the other end's
// Write blocks while that many bytes are unread here.
func (c *Conn) SetRecvWindow(n int) {
	c.rd.mu.Lock()
	c.rd.window = n
	c.rd.mu.Unlock()
}

// Write implements net.Conn.
func (c *Conn) Write(b []byte) (int, error) {
	c.mu.Lock()
	if c.closed {
		c.mu.Unlock()

		return 0, closedErr("write", c.local)
	}
	if c.writeErr != nil {
		err := c.writeErr
		c.mu.Unlock()

		return 0, err
	}
	seg := c.Segment
	c.mu.Unlock()
	h := c.wr
	h.mu.Lock()
	if h.rclosed || h.eof {
		h.mu.Unlock()

		return 0, &net.OpError{Op: "write", Net: "tcp", Addr: c.remote, Err: os.NewSyscallError("write", syscall.EPIPE)}
	}
	if h.window > 0 {
		h.mu.Unlock()

		return c.writeWindowed(b)
	}
	if len(b) > 0 {
		h.buffered += len(b)
		if seg != nil {
			for _, ch := range seg(b) {
				if len(ch) > 0 {
					h.chunks = append(h.chunks, append([]byte{}, ch...))
				}
			}
		} else {
			h.chunks = append(h.chunks, append([]byte{}, b...))
		}
	}
	h.mu.Unlock()
	h.signal()
	c.net.logStream(StreamEvent{Time: time.Now(), Conn: c.ID, Kind: "write", Data: append([]byte{}, b...)})

	return len(b), nil
}

// writeWindowed is Write under flow control: bytes enter the pipe as the reader makes room; a
// write deadline that expires in between leaves the bytes already taken in the stream and
// reports the rest as not written - like a kernel socket.
func (c *Conn) writeWindowed(b []byte) (int, error) {
	h := c.wr
	written := 0
	c.mu.Lock()
	if c.wtok == nil {
		c.wtok = make(chan struct{}, 1)
	}
	tok := c.wtok
	c.mu.Unlock()
	select {
	case tok <- struct{}{}:
		defer func() { <-tok }()
	case <-c.closedCh:
		return 0, closedErr("write", c.local)
	}
	for written < len(b) {
		c.mu.Lock()
		closed, dl := c.closed, c.wdl
		c.mu.Unlock()
		if closed {
			return written, closedErr("write", c.local)
		}
		h.mu.Lock()
		if h.rclosed || h.eof {
			h.mu.Unlock()

			return written, &net.OpError{Op: "write", Net: "tcp", Addr: c.remote, Err: os.NewSyscallError("write", syscall.EPIPE)}
		}
		if room := h.window - h.buffered; room > 0 {
			k := min(room, len(b)-written)
			h.chunks = append(h.chunks, append([]byte{}, b[written:written+k]...))
			h.buffered += k
			written += k
			h.mu.Unlock()
			h.signal()

			continue
		}
		h.mu.Unlock()
		var timerC <-chan time.Time
		var timer *time.Timer
		if !dl.IsZero() {
			d := time.Until(dl)
			if d <= 0 {
				return written, timeoutErr("write", c.local)
			}
			timer = time.NewTimer(d)
			timerC = timer.C
		}
		select {
		case <-h.space:
		case <-c.closedCh:
		case <-timerC:
		}
		if timer != nil {
			timer.Stop()
		}
	}
	c.net.logStream(StreamEvent{Time: time.Now(), Conn: c.ID, Kind: "write", Data: append([]byte{}, b...)})

	return written, nil
}

func (c *Conn) shutdown(forced bool) bool {
	c.mu.Lock()
	if !forced {
		c.CloseCount++
	}
	if c.closed {
		c.mu.Unlock()

		return false
	}
	c.closed = true
	c.forced = forced
	c.ClosedAt = time.Now()
	close(c.closedCh)
	c.mu.Unlock()
	c.wr.mu.Lock()
	c.wr.eof = true
	c.wr.mu.Unlock()
	c.wr.signal()
	c.rd.mu.Lock()
	c.rd.rclosed = true
	c.rd.mu.Unlock()
	c.rd.signal()

	return true
}

// Close implements net.Conn.
func (c *Conn) Close() error {
	if !c.shutdown(false) {
		return closedErr("close", c.local)
	}
	c.net.logStream(StreamEvent{Time: time.Now(), Conn: c.ID, Kind: "close"})

	return nil
}

func (c *Conn) forceClose() { c.shutdown(true) }

// CloseRead implements transport.TCPConn.
func (c *Conn) CloseRead() error {
	c.rd.mu.Lock()
	c.rd.rclosed = true
	c.rd.mu.Unlock()
	c.rd.signal()

	return nil
}

// CloseWrite implements transport.TCPConn.
func (c *Conn) CloseWrite() error {
	c.wr.mu.Lock()
	c.wr.eof = true
	c.wr.mu.Unlock()
	c.wr.signal()

	return nil
}

// LocalAddr implements net.Conn.
func (c *Conn) LocalAddr() net.Addr { return &net.TCPAddr{IP: c.local.IP, Port: c.local.Port} }

// RemoteAddr implements net.Conn.
func (c *Conn) RemoteAddr() net.Addr { return &net.TCPAddr{IP: c.remote.IP, Port: c.remote.Port} }

// SetDeadline implements net.Conn.
func (c *Conn) SetDeadline(t time.Time) error {
	_ = c.SetWriteDeadline(t)

	return c.SetReadDeadline(t)
}

// SetReadDeadline implements net.Conn.
func (c *Conn) SetReadDeadline(t time.Time) error {
	c.mu.Lock()
	c.rdl = t
	c.mu.Unlock()
	c.rd.signal()

	return nil
}

// SetWriteDeadline implements net.Conn.
func (c *Conn) SetWriteDeadline(t time.Time) error {
	c.mu.Lock()
	c.wdl = t
	c.mu.Unlock()
	// wake a writer that waits for room so that it re-reads the deadline
	select {
	case c.wr.space <- struct{}{}:
	default:
	}

	return nil
}

// ReadFrom implements transport.TCPConn.
func (c *Conn) ReadFrom(r io.Reader) (int64, error) {
	buf := make([]byte, 32*1024)
	var total int64
	for {
		n, err := r.Read(buf)
		if n > 0 {
			if _, werr := c.Write(buf[:n]); werr != nil {
				return total, werr
			}
			total += int64(n)
		}
		if err != nil {
			if errors.Is(err, io.EOF) {
				return total, nil
			}

			return total, err
		}
	}
}

// SetLinger implements transport.TCPConn.
func (c *Conn) SetLinger(int) error { return nil }

// SetKeepAlive implements transport.TCPConn.
func (c *Conn) SetKeepAlive(bool) error { return nil }

// SetKeepAlivePeriod implements transport.TCPConn.
func (c *Conn) SetKeepAlivePeriod(time.Duration) error { return nil }

// SetNoDelay implements transport.TCPConn.
func (c *Conn) SetNoDelay(bool) error { return nil }

// SetWriteBuffer implements transport.TCPConn.
func (c *Conn) SetWriteBuffer(int) error { return nil }

// SetReadBuffer implements transport.TCPConn.
func (c *Conn) SetReadBuffer(int) error { return nil }

// ---------------------------------------------------------------------------------------------

// Listener is a simulated TCP listener.
type Listener struct {
	net   *Net
	ID    int
	Reuse bool // bound with SO_REUSEPORT
	Owner string
	Born  time.Time
	addr  *net.TCPAddr
	v4    bool

	mu         sync.Mutex
	backlog    []*Conn
	wake       chan struct{}
	closed     bool
	closedCh   chan struct{}
	CloseCount int
	ClosedAt   time.Time
	forced     bool
	acceptErr  error
	dl         time.Time
	// Refuse makes Dial to this listener fail (a peer that does not accept).
	Refuse bool
	// AcceptSpin: Accept yields this many times between dequeuing a connection and returning it.
	AcceptSpin int
}

func (l *Listener) String() string {
	return fmt.Sprintf("lis#%d@%s(owner=%s)", l.ID, l.addr, l.Owner)
}

// ListenTCPAt binds a listener; port 0 picks an ephemeral port.
func (n *Net) ListenTCPAt(network string, ip net.IP, port int) (*Listener, error) {
	return n.ListenTCPOpt(network, ip, port, false)
}

// ListenTCPOpt is ListenTCPAt with the SO_REUSEPORT socket option.
func (n *Net) ListenTCPOpt(network string, ip net.IP, port int, reuse bool) (*Listener, error) {
	v4, err := familyOf(network, ip)
	if err != nil {
		return nil, err
	}
	if isWild(ip) {
		if v4 {
			ip = net.IPv4zero
		} else {
			ip = net.IPv6unspecified
		}
	}
	n.mu.Lock()
	defer n.mu.Unlock()
	if port == 0 {
		for i := 0; i < 20000; i++ {
			p := n.nextPort
			n.nextPort++
			if n.nextPort > 65535 {
				n.nextPort = 49152
			}
			if !n.tcpBusyLocked(ip, p, v4, false) {
				port = p

				break
			}
		}
		if port == 0 {
			return nil, errAddrInUse("listen", &net.TCPAddr{IP: ip})
		}
	} else if n.tcpBusyLocked(ip, port, v4, reuse) {
		return nil, errAddrInUse("listen", &net.TCPAddr{IP: ip, Port: port})
	}
	n.nextID++
	l := &Listener{
		net:      n,
		ID:       n.nextID,
		Owner:    n.ownerTag,
		Born:     time.Now(),
		addr:     &net.TCPAddr{IP: append(net.IP{}, ip...), Port: port},
		v4:       v4,
		wake:     make(chan struct{}, 1),
		closedCh: make(chan struct{}),
		Reuse:    reuse,
	}
	n.lis[key(ip, port)] = l
	n.listeners = append(n.listeners, l)

	return l, nil
}

func (l *Listener) signal() {
	select {
	case l.wake <- struct{}{}:
	default:
	}
}

// InjectAcceptError makes the next (or the blocked) Accept fail.
func (l *Listener) InjectAcceptError(err error) {
	l.mu.Lock()
	l.acceptErr = err
	l.mu.Unlock()
	l.signal()
}

// IsClosed reports whether the listener has been closed.
func (l *Listener) IsClosed() bool {
	l.mu.Lock()
	defer l.mu.Unlock()

	return l.closed
}

// AcceptConn waits for the next connection.
func (l *Listener) AcceptConn() (*Conn, error) {
	for {
		l.mu.Lock()
		if l.closed {
			l.mu.Unlock()

			return nil, closedErr("accept", l.addr)
		}
		if l.acceptErr != nil {
			err := l.acceptErr
			l.acceptErr = nil
			l.mu.Unlock()

			return nil, err
		}
		if len(l.backlog) > 0 {
			c := l.backlog[0]
			l.backlog = l.backlog[1:]
			spin := l.AcceptSpin
			l.mu.Unlock()
			for i := 0; i < spin; i++ {
				// a few microseconds of real time between taking the connection and handing it
				// to the caller: whatever races with Accept gets a chance to run in between
				runtime.Gosched()
			}

			return c, nil
		}
		dl := l.dl
		l.mu.Unlock()
		var timerC <-chan time.Time
		var timer *time.Timer
		if !dl.IsZero() {
			d := time.Until(dl)
			if d <= 0 {
				return nil, timeoutErr("accept", l.addr)
			}
			timer = time.NewTimer(d)
			timerC = timer.C
		}
		select {
		case <-l.wake:
		case <-l.closedCh:
		case <-timerC:
		}
		if timer != nil {
			timer.Stop()
		}
	}
}

// Accept implements net.Listener.
func (l *Listener) Accept() (net.Conn, error) {
	c, err := l.AcceptConn()
	if err != nil {
		return nil, err
	}

	return c, nil
}

// TryAccept pops a pending connection without blocking (harness-side listeners).
func (l *Listener) TryAccept() *Conn {
	l.mu.Lock()
	defer l.mu.Unlock()
	if len(l.backlog) == 0 {
		return nil
	}
	c := l.backlog[0]
	l.backlog = l.backlog[1:]

	return c
}

// Close implements net.Listener; pending connections are reset.
func (l *Listener) Close() error {
	l.mu.Lock()
	l.CloseCount++
	if l.closed {
		l.mu.Unlock()

		return closedErr("close", l.addr)
	}
	l.closed = true
	l.ClosedAt = time.Now()
	close(l.closedCh)
	pending := l.backlog
	l.backlog = nil
	l.mu.Unlock()
	for _, c := range pending {
		c.forceClose()
	}
	l.net.mu.Lock()
	if cur, ok := l.net.lis[key(l.addr.IP, l.addr.Port)]; ok && cur == l {
		delete(l.net.lis, key(l.addr.IP, l.addr.Port))
	}
	l.net.mu.Unlock()

	return nil
}

func (l *Listener) forceClose() {
	l.mu.Lock()
	if l.closed {
		l.mu.Unlock()

		return
	}
	l.closed = true
	l.forced = true
	close(l.closedCh)
	pending := l.backlog
	l.backlog = nil
	l.mu.Unlock()
	for _, c := range pending {
		c.forceClose()
	}
	l.net.mu.Lock()
	if cur, ok := l.net.lis[key(l.addr.IP, l.addr.Port)]; ok && cur == l {
		delete(l.net.lis, key(l.addr.IP, l.addr.Port))
	}
	l.net.mu.Unlock()
}

// Addr implements net.Listener.
func (l *Listener) Addr() net.Addr {
	return &net.TCPAddr{IP: append(net.IP{}, l.addr.IP...), Port: l.addr.Port}
}

// TCPAddr returns the bound address.
func (l *Listener) TCPAddr() *net.TCPAddr { return l.addr }

// SetDeadline implements transport.TCPListener.
func (l *Listener) SetDeadline(t time.Time) error {
	l.mu.Lock()
	l.dl = t
	l.mu.Unlock()
	l.signal()

	return nil
}

func (n *Net) lookupListenerLocked(dst *net.TCPAddr) *Listener {
	if l, ok := n.lis[key(dst.IP, dst.Port)]; ok {
		return l
	}
	if is4(dst.IP) {
		if l, ok := n.lis[key(net.IPv4zero, dst.Port)]; ok && l.v4 {
			return l
		}
	} else if l, ok := n.lis[key(net.IPv6unspecified, dst.Port)]; ok && !l.v4 {
		return l
	}

	return nil
}

// DialTCPFrom connects from laddr (nil: ephemeral port on the host address) to raddr.
func (n *Net) DialTCPFrom(laddr, raddr *net.TCPAddr) (*Conn, error) {
	if raddr == nil || raddr.IP == nil {
		return nil, &net.AddrError{Err: "missing address"}
	}
	n.mu.Lock()
	l := n.lookupListenerLocked(raddr)
	if l == nil {
		n.mu.Unlock()

		return nil, &net.OpError{Op: "dial", Net: "tcp", Addr: raddr, Err: os.NewSyscallError("connect", syscall.ECONNREFUSED)}
	}
	l.mu.Lock()
	refuse := l.Refuse || l.closed
	l.mu.Unlock()
	if refuse {
		n.mu.Unlock()

		return nil, &net.OpError{Op: "dial", Net: "tcp", Addr: raddr, Err: os.NewSyscallError("connect", syscall.ECONNREFUSED)}
	}
	var local *net.TCPAddr
	if laddr != nil && laddr.Port != 0 {
		local = &net.TCPAddr{IP: laddr.IP, Port: laddr.Port}
		if isWild(local.IP) {
			if is4(raddr.IP) {
				local.IP = n.HostIP4
			} else {
				local.IP = n.HostIP6
			}
		}
	} else {
		ip := n.HostIP4
		if !is4(raddr.IP) {
			ip = n.HostIP6
		}
		if laddr != nil && !isWild(laddr.IP) {
			ip = laddr.IP
		}
		p := n.nextPort
		n.nextPort++
		if n.nextPort > 65535 {
			n.nextPort = 49152
		}
		local = &net.TCPAddr{IP: ip, Port: p}
	}
	a2b, b2a := newHalfPipe(), newHalfPipe()
	n.nextID++
	ca := &Conn{net: n, ID: n.nextID, Owner: n.ownerTag, Born: time.Now(), local: local, remote: &net.TCPAddr{IP: raddr.IP, Port: raddr.Port}, rd: b2a, wr: a2b, closedCh: make(chan struct{})}
	n.nextID++
	cb := &Conn{net: n, ID: n.nextID, Owner: l.Owner, Born: time.Now(), local: &net.TCPAddr{IP: raddr.IP, Port: raddr.Port}, remote: local, rd: a2b, wr: b2a, closedCh: make(chan struct{})}
	ca.peer, cb.peer = cb, ca
	n.conns = append(n.conns, ca, cb)
	n.streamLog = append(n.streamLog, StreamEvent{Time: time.Now(), Conn: ca.ID, Kind: "dial"})
	n.mu.Unlock()
	l.mu.Lock()
	if l.closed {
		// the listener went away between the lookup and the handshake: the kernel resets
		l.mu.Unlock()
		ca.forceClose()
		cb.forceClose()

		return nil, &net.OpError{Op: "dial", Net: "tcp", Addr: raddr, Err: os.NewSyscallError("connect", syscall.ECONNREFUSED)}
	}
	l.backlog = append(l.backlog, cb)
	l.mu.Unlock()
	l.signal()

	return ca, nil
}
