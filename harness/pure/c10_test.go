package pure

import (
	"bytes"
	"encoding/binary"
	"encoding/hex"
	"errors"
	"fmt"
	"io"
	"net"
	"sort"
	"testing"
	"time"

	"github.com/pion/logging"
	"github.com/pion/stun/v3"
	"github.com/pion/turn/v5/internal/client"
	"github.com/pion/turn/v5/internal/proto"
	"github.com/pion/turn/v5/internal/zzverif/ref"
	"github.com/pion/turn/v5/internal/zzverif/vkit"
	"pgregory.net/rapid"
)

// Frame describes one frame of a generated stream.
type Frame struct {
	Kind   string `json:"kind"` // stun | cd
	Number uint16 `json:"number,omitempty"`
	Len    int    `json:"len"`              // STUN body length (4-aligned) or ChannelData payload length
	Seed   uint64 `json:"seed,omitempty"`   // payload content
	Cookie bool   `json:"cookie,omitempty"` // ChannelData payload starts with the STUN magic cookie
}

// C10Case is a stream of frames, a segmentation, an optional garbage tail; also the replay format.
type C10Case struct {
	Kind   string  `json:"kind"` // frames | bind
	Frames []Frame `json:"frames,omitempty"`
	Cuts   []int   `json:"cuts"` // strictly increasing cut offsets inside the stream
	Tail   string  `json:"tail_hex,omitempty"`
	// ErrAt: before delivering chunk i (index into the chunk list) the connection reports a
	// transient read timeout once; the caller retries
	ErrAt []int `json:"err_at,omitempty"`
	// Buf > 0: the caller's buffer has this many bytes (the server reads with a buffer of its
	// InboundMTU, 1600 by default); a frame that does not fit must still be consumed whole, its
	// head must be what is copied, and the returned length must show that it did not fit
	Buf int `json:"buf,omitempty"`
	// EmptyAt: before delivering chunk i the connection returns (0, nil) once - "nothing happened",
	// a legal io.Reader result that in-memory pipes produce for zero-length writes
	EmptyAt []int `json:"empty_at,omitempty"`
	// EOFWithLast: the read that delivers the last bytes of the stream reports io.EOF together
	// with them (io.Reader allows it; crypto/tls does it when close_notify follows the data)
	EOFWithLast bool `json:"eof_with_last,omitempty"`
	// Wipe: the caller owns its buffer between calls: after taking a frame out it overwrites the
	// whole buffer (a pooled buffer handed on, a fresh one per call, a zeroing allocator)
	Wipe bool `json:"wipe,omitempty"`
	// bind part
	Reply    string `json:"reply,omitempty"` // success | error | indication | notstun | badattr
	Trailing int    `json:"trailing,omitempty"`
}

func (f *Frame) bytes() []byte {
	switch f.Kind {
	case "stun":
		b := make([]byte, 20+f.Len)
		method := ref.MethodBinding + int(f.Seed%3)
		if f.Seed%5 >= 3 {
			// any of the 4096 method numbers (the first byte of the message then runs up to 0x3F)
			method = int(f.Seed>>5) % 0x1000
		}
		binary.BigEndian.PutUint16(b[0:2], ref.MsgType(method, int(f.Seed>>3)%4))
		binary.BigEndian.PutUint16(b[2:4], uint16(f.Len))
		binary.BigEndian.PutUint32(b[4:8], ref.MagicCookie)
		copy(b[8:], synthPayload(12+f.Len, f.Seed+1))

		return b
	default:
		p := synthPayload(f.Len, f.Seed+2)
		if f.Cookie && len(p) >= 4 {
			binary.BigEndian.PutUint32(p[0:4], ref.MagicCookie)
		}

		return ref.EncodeChannelData(f.Number, p, true)
	}
}

type chunkConn struct {
	errAt     map[int]bool
	emptyAt   map[int]bool
	chunks    [][]byte
	idx       int
	delivered int
	// deliveredBefore of every Read call since the last mark
	callsSince  []int
	closed      bool
	written     []byte
	eofWithLast bool
}

func (c *chunkConn) Read(b []byte) (int, error) {
	c.callsSince = append(c.callsSince, c.delivered)
	if len(c.callsSince) > 1<<20 {
		panic("chunkConn: more than 2^20 reads without progress")
	}
	if c.idx >= len(c.chunks) {
		return 0, io.EOF
	}
	if c.errAt[c.idx] {
		delete(c.errAt, c.idx)

		return 0, errTransient
	}
	if c.emptyAt[c.idx] {
		delete(c.emptyAt, c.idx)

		return 0, nil
	}
	ch := c.chunks[c.idx]
	n := copy(b, ch)
	if n < len(ch) {
		c.chunks[c.idx] = ch[n:]
	} else {
		c.idx++
	}
	c.delivered += n
	if c.eofWithLast && c.idx >= len(c.chunks) {
		return n, io.EOF
	}

	return n, nil
}

type transientErr struct{}

func (transientErr) Error() string   { return "sim: i/o timeout (transient)" }
func (transientErr) Timeout() bool   { return true }
func (transientErr) Temporary() bool { return true }

var errTransient error = transientErr{}

func (c *chunkConn) Write(b []byte) (int, error) {
	c.written = append(c.written, b...)

	return len(b), nil
}
func (c *chunkConn) Close() error                     { c.closed = true; return nil }
func (c *chunkConn) LocalAddr() net.Addr              { return &net.TCPAddr{IP: net.IPv4(10, 0, 0, 1), Port: 1} }
func (c *chunkConn) RemoteAddr() net.Addr             { return &net.TCPAddr{IP: net.IPv4(10, 0, 0, 2), Port: 2} }
func (c *chunkConn) SetDeadline(time.Time) error      { return nil }
func (c *chunkConn) SetReadDeadline(time.Time) error  { return nil }
func (c *chunkConn) SetWriteDeadline(time.Time) error { return nil }

// transport.TCPConn extras.
func (c *chunkConn) CloseRead() error                       { return nil }
func (c *chunkConn) CloseWrite() error                      { return nil }
func (c *chunkConn) ReadFrom(io.Reader) (int64, error)      { return 0, errors.New("not supported") }
func (c *chunkConn) SetLinger(int) error                    { return nil }
func (c *chunkConn) SetKeepAlive(bool) error                { return nil }
func (c *chunkConn) SetKeepAlivePeriod(time.Duration) error { return nil }
func (c *chunkConn) SetNoDelay(bool) error                  { return nil }
func (c *chunkConn) SetWriteBuffer(int) error               { return nil }
func (c *chunkConn) SetReadBuffer(int) error                { return nil }

func split(stream []byte, cuts []int) [][]byte {
	var out [][]byte
	prev := 0
	for _, c := range cuts {
		if c <= prev || c >= len(stream) {
			continue
		}
		out = append(out, stream[prev:c])
		prev = c
	}
	if prev < len(stream) {
		out = append(out, stream[prev:])
	}

	return out
}

func runC10(c *C10Case) (kind, msg string) {
	var k, m string
	if p := catch(func() {
		if c.Kind == "bind" {
			k, m = runBind(c)
		} else {
			k, m = runFrames(c)
		}
	}); p != nil {
		return "panic", fmt.Sprintf("panic: %v", p)
	}

	return k, m
}

const c10Buf = 65536 + 64

func runFrames(c *C10Case) (string, string) { //nolint:cyclop
	var stream []byte
	var ends []int
	var want [][]byte
	for i := range c.Frames {
		fb := c.Frames[i].bytes()
		// the reference framer must agree with the generator about each frame
		k, size, complete := ref.NextFrame(fb)
		if !complete || size != len(fb) || (k != ref.FrameSTUN && k != ref.FrameChannelData) {
			return "bad-case", fmt.Sprintf("generator/reference mismatch on frame %d", i)
		}
		stream = append(stream, fb...)
		ends = append(ends, len(stream))
		want = append(want, fb)
	}
	tail, _ := hex.DecodeString(c.Tail)
	framesLen := len(stream)
	stream = append(stream, tail...)
	conn := &chunkConn{chunks: split(append([]byte{}, stream...), c.Cuts), errAt: map[int]bool{}, emptyAt: map[int]bool{}}
	for _, e := range c.ErrAt {
		conn.errAt[e] = true
	}
	for _, e := range c.EmptyAt {
		conn.emptyAt[e] = true
	}
	conn.eofWithLast = c.EOFWithLast
	sc := proto.NewSTUNConn(conn)
	buf := make([]byte, c10Buf)
	if c.Buf > 0 {
		buf = make([]byte, c.Buf)
	}
	consumed := 0
	for i := range want {
		conn.callsSince = conn.callsSince[:0]
		n, addr, err := sc.ReadFrom(buf)
		for retry := 0; retry < 64 && errors.Is(err, errTransient); retry++ {
			// a read deadline expired while part of a frame was buffered: the caller tries again
			// and must lose nothing
			n, addr, err = sc.ReadFrom(buf)
		}
		if err != nil {
			return "frame-error", fmt.Sprintf("ReadFrom #%d returned error %v; expected frame %d of %d (%s, %d bytes)", i, err, i, len(want), c.Frames[i].Kind, len(want[i]))
		}
		if n < 1 {
			return "no-progress", fmt.Sprintf("ReadFrom #%d returned n=%d with nil error (frame %s len %d)", i, n, c.Frames[i].Kind, c.Frames[i].Len)
		}
		if len(want[i]) > len(buf) {
			// does not fit: the caller sees that (n >= len(buf)) and the head of the frame; the frame
			// is gone from the stream (the following frames are checked as usual)
			if n < len(buf) {
				return "oversize-frame-not-signalled", fmt.Sprintf("ReadFrom #%d into a %d-byte buffer returned n=%d for a %d-byte frame: the caller cannot tell that the frame did not fit", i, len(buf), n, len(want[i]))
			}
			if !bytes.Equal(buf, want[i][:len(buf)]) {
				return "frame-mismatch", fmt.Sprintf("ReadFrom #%d into a %d-byte buffer copied %x…, the frame begins %x…", i, len(buf), buf[:min(len(buf), 12)], want[i][:12])
			}
			n = len(want[i])
		} else if !bytes.Equal(buf[:min(n, len(buf))], want[i]) || n != len(want[i]) {
			return "frame-mismatch", fmt.Sprintf("ReadFrom #%d returned %d bytes %x…, expected frame of %d bytes %x…", i, n, buf[:min(n, 12)], len(want[i]), want[i][:min(len(want[i]), 12)])
		}
		if addr == nil {
			return "frame-addr", "ReadFrom returned a frame without the remote address"
		}
		consumed += n
		if c.Wipe {
			for k := range buf {
				buf[k] = 0xEE
			}
		}
		// promptness: no Read may have been issued after the frame's last byte had been delivered
		for _, before := range conn.callsSince {
			if before >= ends[i] {
				return "withheld", fmt.Sprintf("frame %d (%s, %d bytes) was complete after %d stream bytes but the packetiser asked the connection for more before returning it", i, c.Frames[i].Kind, len(want[i]), ends[i])
			}
		}
	}
	if consumed != framesLen {
		return "consumed", fmt.Sprintf("consumed %d bytes, frames hold %d", consumed, framesLen)
	}
	// after the frames: the garbage tail (if any) must never come back as data
	for k := 0; k < 3; k++ {
		conn.callsSince = conn.callsSince[:0]
		n, _, err := sc.ReadFrom(buf)
		if err == nil {
			if n == 0 {
				return "no-progress", "ReadFrom returned n=0 with nil error at the end of the stream"
			}

			return "tail-as-data", fmt.Sprintf("ReadFrom returned %d bytes %x… from bytes that cannot begin a frame (tail %x)", n, buf[:min(n, 12)], tail[:min(len(tail), 12)])
		}
	}

	return "", ""
}

type stubClient struct{}

func (stubClient) WriteTo(data []byte, _ net.Addr) (int, error) { return len(data), nil }
func (stubClient) PerformTransaction(*stun.Message, net.Addr, bool) (client.TransactionResult, error) {
	return client.TransactionResult{}, errors.New("stub")
}
func (stubClient) OnDeallocated(net.Addr) {}

func bindReply(kind string) (raw []byte, wantOK bool) {
	id := [12]byte{1, 2, 3, 4, 5, 6, 7, 8, 9, 10, 11, 12}
	switch kind {
	case "success":
		m := &ref.Msg{Method: ref.MethodConnectionBind, Class: ref.ClassSuccess, TxID: id}
		m.Add(ref.AttrConnectionID, ref.U32(77))

		return m.Encode(), true
	case "success-long":
		m := &ref.Msg{Method: ref.MethodConnectionBind, Class: ref.ClassSuccess, TxID: id}
		m.Add(ref.AttrConnectionID, ref.U32(77))
		m.Add(ref.AttrSoftware, bytes.Repeat([]byte("s"), 200))

		return ref.AddFingerprint(m.Encode()), true
	case "error":
		m := &ref.Msg{Method: ref.MethodConnectionBind, Class: ref.ClassError, TxID: id}
		m.Add(ref.AttrErrorCode, append([]byte{0, 0, 4, 0}, []byte("Bad Request")...))

		return m.Encode(), false
	case "error-bare":
		m := &ref.Msg{Method: ref.MethodConnectionBind, Class: ref.ClassError, TxID: id}

		return m.Encode(), false
	case "indication":
		m := &ref.Msg{Method: ref.MethodConnectionBind, Class: ref.ClassIndication, TxID: id}

		return m.Encode(), false
	default: // notstun: 20+ bytes without the cookie
		return bytes.Repeat([]byte{0x17}, 24), false
	}
}

func runBind(c *C10Case) (string, string) {
	reply, wantOK := bindReply(c.Reply)
	trailing := synthPayload(c.Trailing, 99)
	stream := append(append([]byte{}, reply...), trailing...)
	run := func(cuts []int) (ok bool, rest []byte, err error) {
		conn := &chunkConn{chunks: split(append([]byte{}, stream...), cuts)}
		alloc := client.NewTCPAllocation(&client.AllocationConfig{
			Client:      stubClient{},
			RelayedAddr: &net.TCPAddr{IP: net.IPv4(10, 9, 0, 1), Port: 5000},
			ServerAddr:  &net.TCPAddr{IP: net.IPv4(10, 0, 0, 2), Port: 3478},
			Username:    stun.NewUsername("u"),
			Realm:       stun.NewRealm("r"),
			Nonce:       stun.NewNonce("n"),
			Integrity:   stun.NewLongTermIntegrity("u", "r", "p"),
			Lifetime:    time.Hour,
			Log:         logging.NewDefaultLoggerFactory().NewLogger("x"),
		})
		defer alloc.Close() //nolint:errcheck
		err = alloc.BindConnection(&client.TCPConn{TCPConn: conn}, proto.ConnectionID(77))
		rest, _ = io.ReadAll(conn)

		return err == nil, rest, err
	}
	baseOK, baseRest, baseErr := run(nil)
	if baseOK != wantOK {
		return "bind-base", fmt.Sprintf("unsegmented %s reply: BindConnection ok=%v (err %v), expected ok=%v", c.Reply, baseOK, baseErr, wantOK)
	}
	if c.Reply != "notstun" && !bytes.Equal(baseRest, trailing) {
		return "bind-base-consumed", fmt.Sprintf("unsegmented %s reply: %d trailing application bytes left unread, expected %d", c.Reply, len(baseRest), len(trailing))
	}
	ok, rest, err := run(c.Cuts)
	if ok != baseOK {
		return "bind-segmentation", fmt.Sprintf("%s reply cut at %v: BindConnection ok=%v (err %v) but ok=%v when the reply arrives in one piece", c.Reply, c.Cuts, ok, err, baseOK)
	}
	if c.Reply != "notstun" && !bytes.Equal(rest, trailing) {
		return "bind-consumed", fmt.Sprintf("%s reply cut at %v: %d trailing bytes left for the application, expected %d (the reply is %d bytes)", c.Reply, c.Cuts, len(rest), len(trailing), len(reply))
	}

	return "", ""
}

func c10Trivial(c *C10Case) bool {
	if c.Kind == "bind" {
		return len(c.Cuts) == 0
	}
	if len(c.Frames) == 0 {
		return true
	}
	// non-trivial: >=2 frames and a cut strictly inside a header or padding, or a short CD frame, or
	// an extreme declared length
	off := 0
	cutInside := false
	for _, f := range c.Frames {
		fl := len(f.bytes())
		hdr := 4
		if f.Kind == "stun" {
			hdr = 20
		}
		for _, cut := range c.Cuts {
			if cut > off && cut < off+hdr {
				cutInside = true
			}
			if f.Kind == "cd" && cut > off+4+f.Len && cut < off+fl {
				cutInside = true
			}
		}
		if f.Kind == "cd" && f.Len < 5 {
			return false
		}
		if f.Len >= 0xFFE8 || f.Cookie {
			return false
		}
		off += fl
	}

	return !(len(c.Frames) >= 2 && cutInside)
}

func hashC10(c *C10Case) uint64 {
	h := vkit.Mix(vkit.MixBytes([]byte(c.Kind)), vkit.MixBytes([]byte(c.Tail)), vkit.MixBytes([]byte(c.Reply)), uint64(c.Trailing))
	for _, f := range c.Frames {
		ck := uint64(0)
		if f.Cookie {
			ck = 1
		}
		h = vkit.Mix(h, vkit.MixBytes([]byte(f.Kind)), uint64(f.Number), uint64(f.Len), f.Seed, ck)
	}
	for _, x := range c.Cuts {
		h = vkit.Mix(h, uint64(x))
	}
	for _, x := range c.ErrAt {
		h = vkit.Mix(h, 0xE0000+uint64(x))
	}

	return h
}

func c10Do(r *vkit.Run, c *C10Case, sampleKind string) (string, string) {
	r.Eval(1)
	r.Label(c.Kind)
	if !c10Trivial(c) {
		r.NonTrivial(hashC10(c))
		r.Label("nontrivial")
		if sampleKind != "" {
			r.Sample(sampleKind, func() any { return c })
		}
	}
	kind, msg := runC10(c)
	if kind != "" && r.IsKnown("C10."+kind) {
		return "", ""
	}

	return kind, msg
}

func genFrame(rt *rapid.T, i int) Frame {
	f := Frame{Seed: rapid.Uint64Range(0, 1<<20).Draw(rt, fmt.Sprintf("seed%d", i))}
	if rapid.IntRange(0, 2).Draw(rt, fmt.Sprintf("isstun%d", i)) == 0 {
		f.Kind = "stun"
		f.Len = 4 * rapid.OneOf(
			rapid.IntRange(0, 256),
			rapid.IntRange(0, 8),
			rapid.IntRange(0xFFE8/4, 0xFFFC/4),
		).Draw(rt, fmt.Sprintf("slen%d", i))
	} else {
		f.Kind = "cd"
		f.Number = rapid.OneOf(
			rapid.Uint16Range(0x4000, 0x7FFF),
			rapid.SampledFrom([]uint16{0x4000, 0x4001, 0x7FFE, 0x7FFF, 0x4040, 0x6112}),
		).Draw(rt, fmt.Sprintf("num%d", i))
		f.Len = rapid.OneOf(
			rapid.IntRange(0, 72),
			rapid.IntRange(0, 8),
			rapid.IntRange(1400, 1600),
			rapid.IntRange(65528, 65535),
			rapid.IntRange(0, 65535),
		).Draw(rt, fmt.Sprintf("clen%d", i))
		f.Cookie = rapid.IntRange(0, 7).Draw(rt, fmt.Sprintf("cookie%d", i)) == 0
	}

	return f
}

func genC10(rt *rapid.T) *C10Case {
	if rapid.IntRange(0, 9).Draw(rt, "bind") == 0 {
		c := &C10Case{Kind: "bind"}
		c.Reply = rapid.SampledFrom([]string{"success", "success-long", "error", "error-bare", "indication", "notstun"}).Draw(rt, "reply")
		c.Trailing = rapid.IntRange(0, 40).Draw(rt, "trailing")
		reply, _ := bindReply(c.Reply)
		total := len(reply) + c.Trailing
		c.Cuts = genCuts(rt, total)

		return c
	}
	c := &C10Case{Kind: "frames"}
	n := rapid.IntRange(1, 8).Draw(rt, "nframes")
	total := 0
	for i := 0; i < n; i++ {
		f := genFrame(rt, i)
		c.Frames = append(c.Frames, f)
		total += len(f.bytes())
	}
	if rapid.IntRange(0, 3).Draw(rt, "hastail") == 0 {
		// bytes that cannot begin a frame: first two bits 10/11, or 00 without the cookie
		first := rapid.SampledFrom([]byte{0x80, 0xC0, 0xFF, 0x00, 0x01, 0x3F, 0x16}).Draw(rt, "tail0")
		tl := rapid.IntRange(1, 48).Draw(rt, "taillen")
		tail := synthPayload(tl, uint64(first))
		tail[0] = first
		if tl >= 8 && first < 0x40 {
			tail[4] ^= 0x55 // make sure the cookie is wrong
			if binary.BigEndian.Uint32(tail[4:8]) == ref.MagicCookie {
				tail[4] ^= 0x01
			}
		}
		if first >= 0x80 && tl >= 20 && rapid.Bool().Draw(rt, "tailCookie") {
			// first two bits 10/11 cannot begin a frame - also when the rest imitates a STUN
			// header perfectly (cookie in place, a length that fits)
			binary.BigEndian.PutUint16(tail[2:4], uint16((tl-20)&^3)) //nolint:gosec
			binary.BigEndian.PutUint32(tail[4:8], ref.MagicCookie)
		}
		c.Tail = hex.EncodeToString(tail)
		total += tl
	}
	c.Cuts = genCuts(rt, total)
	if rapid.IntRange(0, 3).Draw(rt, "shortBuffer") == 0 {
		c.Buf = rapid.SampledFrom([]int{24, 64, 100, 512, 1500, 1600, 1600, 4096}).Draw(rt, "buf")
	}
	c.EOFWithLast = rapid.IntRange(0, 3).Draw(rt, "eofWithLast") == 0
	c.Wipe = rapid.IntRange(0, 2).Draw(rt, "wipe") == 0
	if len(c.Cuts) < 64 && rapid.IntRange(0, 3).Draw(rt, "emptyReads") == 0 {
		for k := rapid.IntRange(1, 3).Draw(rt, "nempty"); k > 0; k-- {
			c.EmptyAt = append(c.EmptyAt, rapid.IntRange(0, len(c.Cuts)).Draw(rt, "emptyAt"))
		}
	}
	if len(c.Cuts) > 0 && len(c.Cuts) < 64 && rapid.IntRange(0, 3).Draw(rt, "readErrors") == 0 {
		for k := rapid.IntRange(1, 3).Draw(rt, "nerr"); k > 0; k-- {
			c.ErrAt = append(c.ErrAt, rapid.IntRange(0, len(c.Cuts)).Draw(rt, "errAt"))
		}
	}

	return c
}

func genCuts(rt *rapid.T, total int) []int {
	mode := rapid.SampledFrom([]string{"none", "bytewise", "random", "random", "one", "two", "every4"}).Draw(rt, "cutmode")
	var cuts []int
	switch mode {
	case "bytewise":
		lim := min(total, 4096)
		for i := 1; i < lim; i++ {
			cuts = append(cuts, i)
		}
	case "every4":
		off := rapid.IntRange(1, 4).Draw(rt, "off4")
		for i := off; i < min(total, 8192); i += 4 {
			cuts = append(cuts, i)
		}
	case "one", "two", "random":
		k := 1
		if mode == "two" {
			k = 2
		} else if mode == "random" {
			k = rapid.IntRange(1, 12).Draw(rt, "ncuts")
		}
		seen := map[int]bool{}
		for i := 0; i < k && total > 1; i++ {
			// bias toward the first bytes of the stream and of frames (headers)
			x := rapid.OneOf(rapid.IntRange(1, total-1), rapid.IntRange(1, min(total-1, 40))).Draw(rt, fmt.Sprintf("cut%d", i))
			if !seen[x] {
				seen[x] = true
				cuts = append(cuts, x)
			}
		}
		sort.Ints(cuts)
	}

	return cuts
}

// smallSeqs are the frame sequences whose every 1- and 2-cut segmentation is enumerated.
func smallSeqs() [][]Frame {
	cd := func(n int) Frame { return Frame{Kind: "cd", Number: 0x4000 + uint16(n), Len: n, Seed: uint64(n)} }
	st := func(n int) Frame { return Frame{Kind: "stun", Len: n, Seed: uint64(n)} }

	return [][]Frame{
		{cd(0)}, {cd(1)}, {cd(2)}, {cd(3)}, {cd(4)}, {cd(5)}, {cd(8)}, {st(0)}, {st(4)},
		{cd(0), cd(0)}, {cd(1), st(0)}, {st(0), cd(3)}, {cd(4), cd(5), cd(0)},
		{st(0), cd(2), st(4)}, {cd(7), st(8), cd(1)}, {cd(5), cd(6), cd(7), cd(8)},
		{{Kind: "cd", Number: 0x4001, Len: 16, Cookie: true}, cd(3)},
		{cd(2), {Kind: "cd", Number: 0x7FFF, Len: 20, Cookie: true}},
	}
}

func TestC10(t *testing.T) { //nolint:cyclop,gocyclo
	r := vkit.Start(t, "C10")
	defer r.Finish()
	r.Assume("callers hand STUNConn.ReadFrom a buffer of at least 24 bytes; a frame larger than the caller's buffer is only required to be consumed whole, to hand over its head and to be recognisable as oversize (n >= len(buffer)), which is what the server's read loop relies on")

	if r.Replay != "" {
		var c C10Case
		if err := vkit.LoadJSON(r.Replay, &c); err != nil {
			t.Fatalf("cannot load replay: %v", err)
		}
		kind, msg := c10Do(r, &c, "")
		fmt.Printf("replay %s: kind=%q %s\n", r.Replay, kind, msg)
		if kind != "" {
			r.Violate(kind, msg, &c)
		}

		return
	}
	for _, f := range r.RegressFiles(".json") {
		var c C10Case
		if err := vkit.LoadJSON(f, &c); err != nil {
			t.Fatalf("bad regress file %s: %v", f, err)
		}
		r.Label("regress")
		if kind, msg := c10Do(r, &c, ""); kind != "" {
			r.Violate(kind, msg, &c)
		}
	}
	if r.Violations() > 0 {
		return
	}

	// exhaustive: every single and double cut of the small sequences, plus byte-at-a-time
	seqs := smallSeqs()
	for si, fr := range seqs {
		if si%r.NShards != r.Shard {
			continue
		}
		total := 0
		for i := range fr {
			total += len(fr[i].bytes())
		}
		try := func(cuts []int) bool {
			c := &C10Case{Kind: "frames", Frames: fr, Cuts: cuts}
			if kind, msg := c10Do(r, c, "exhaustive-cuts"); kind != "" {
				r.Violate(kind, msg, c)

				return false
			}

			return true
		}
		ok := try(nil)
		var all []int
		for i := 1; i < total; i++ {
			all = append(all, i)
		}
		ok = ok && try(all)
		for a := 1; a < total && ok; a++ {
			ok = try([]int{a})
			for b := a + 1; b < total && ok && total <= 96; b++ {
				ok = try([]int{a, b})
			}
		}
		if !ok {
			return
		}
	}
	// every STUN body length 0..1024 (4-aligned) and the extremes; every CD payload length 0..72 and extremes,
	// each alone, coalesced with a follower, and cut inside the header
	if r.Shard == 0 {
		var lens []Frame
		for n := 0; n <= 1024; n += 4 {
			lens = append(lens, Frame{Kind: "stun", Len: n, Seed: uint64(n)})
		}
		for n := 0xFFE8; n <= 0xFFFC; n += 4 {
			lens = append(lens, Frame{Kind: "stun", Len: n, Seed: uint64(n)})
		}
		for n := 0; n <= 72; n++ {
			lens = append(lens, Frame{Kind: "cd", Number: 0x4000 + uint16(n), Len: n, Seed: uint64(n)})
		}
		for n := 65528; n <= 65535; n++ {
			lens = append(lens, Frame{Kind: "cd", Number: 0x7FFF, Len: n, Seed: uint64(n)})
		}
		for _, f := range lens {
			for _, cuts := range [][]int{nil, {1}, {3}, {4}, {5}, {19}, {20}} {
				for _, follower := range []bool{false, true} {
					c := &C10Case{Kind: "frames", Frames: []Frame{f}, Cuts: cuts}
					if follower {
						c.Frames = append(c.Frames, Frame{Kind: "cd", Number: 0x4444, Len: 1, Seed: 1})
					}
					if kind, msg := c10Do(r, c, "length-sweep"); kind != "" {
						r.Violate(kind, msg, c)

						return
					}
				}
			}
		}
		// BindConnection: every reply kind under every 1- and 2-cut segmentation and byte-at-a-time
		for _, reply := range []string{"success", "success-long", "error", "error-bare", "indication", "notstun"} {
			raw, _ := bindReply(reply)
			for _, trailing := range []int{0, 7} {
				total := len(raw) + trailing
				var sets [][]int
				var all []int
				for a := 1; a < total; a++ {
					all = append(all, a)
					sets = append(sets, []int{a})
					if total <= 60 {
						for b := a + 1; b < total; b++ {
							sets = append(sets, []int{a, b})
						}
					}
				}
				sets = append(sets, all, nil)
				for _, cuts := range sets {
					c := &C10Case{Kind: "bind", Reply: reply, Trailing: trailing, Cuts: cuts}
					if kind, msg := c10Do(r, c, "bind"); kind != "" {
						r.Violate(kind, msg, c)

						return
					}
				}
			}
		}
	}

	r.Rapid(t, "random", 0, r.Checks, func(rt *rapid.T) {
		c := genC10(rt)
		r.Journal(c)
		kind, msg := c10Do(r, c, "random-"+c.Kind)
		if kind != "" {
			r.NoteFail(kind, msg, c)
			rt.Fatalf("C10 %s", kind)
		}
	})
}
