package pure

import (
	"fmt"
	"net"
	"os"
	"testing"

	"github.com/pion/turn/v5/internal/allocation"
	"github.com/pion/turn/v5/internal/ipnet"
	"github.com/pion/turn/v5/internal/zzverif/vkit"
	"pgregory.net/rapid"
)

// FPAddr is one endpoint of a generated 5-tuple.
type FPAddr struct {
	IP   []byte `json:"ip"` // 4 or 16 bytes
	Port int    `json:"port"`
	TCP  bool   `json:"tcp_addr,omitempty"` // represented as *net.TCPAddr
}

// FPCase is a pair of 5-tuples; also the replay format.
type FPCase struct {
	ASrc, ADst, BSrc, BDst FPAddr
	AProto, BProto         int
}

func (a FPAddr) addr() net.Addr {
	if a.TCP {
		return &net.TCPAddr{IP: net.IP(a.IP), Port: a.Port}
	}

	return &net.UDPAddr{IP: net.IP(a.IP), Port: a.Port}
}

func (a FPAddr) same(b FPAddr) bool {
	return net.IP(a.IP).Equal(net.IP(b.IP)) && a.Port == b.Port
}

// runFP is the oracle: the allocation key of two 5-tuples is equal exactly when they name the
// same client endpoint, the same server endpoint and the same transport. Endpoints are compared
// as addresses (net.IP.Equal: the 4-byte and the IPv4-mapped form name one host), never as bytes.
func runFP(c *FPCase) (kind, msg string) {
	defer func() {
		if p := recover(); p != nil {
			kind, msg = "panic", fmt.Sprint(p)
		}
	}()
	a := &allocation.FiveTuple{Protocol: allocation.Protocol(c.AProto), SrcAddr: c.ASrc.addr(), DstAddr: c.ADst.addr()} //nolint:gosec
	b := &allocation.FiveTuple{Protocol: allocation.Protocol(c.BProto), SrcAddr: c.BSrc.addr(), DstAddr: c.BDst.addr()} //nolint:gosec
	want := c.AProto == c.BProto && c.ASrc.same(c.BSrc) && c.ADst.same(c.BDst)
	got := a.Fingerprint() == b.Fingerprint()
	if got != a.Equal(b) || got != b.Equal(a) {
		return "equal-disagrees-with-fingerprint", fmt.Sprintf("Equal and Fingerprint disagree for %v/%v", a, b)
	}
	switch {
	case got && !want:
		return "distinct-five-tuples-share-key", fmt.Sprintf("%v->%v (%v) and %v->%v (%v) are different 5-tuples with one allocation key",
			a.SrcAddr, a.DstAddr, a.Protocol, b.SrcAddr, b.DstAddr, b.Protocol)
	case !got && want:
		return "one-five-tuple-two-keys", fmt.Sprintf("%v->%v (%v) and %v->%v (%v) are the same 5-tuple with two allocation keys (two allocations possible)",
			a.SrcAddr, a.DstAddr, a.Protocol, b.SrcAddr, b.DstAddr, b.Protocol)
	}

	return "", ""
}

// genRelated derives an address that is byte-wise close to base in the ways allocation keys
// have been built wrongly: other representation of the same host, the IPv4 bytes at either end
// of an IPv6 address, a single flipped bit, swapped port bytes.
func genRelated(rt *rapid.T, base FPAddr, label string) FPAddr {
	out := FPAddr{IP: append([]byte{}, base.IP...), Port: base.Port, TCP: base.TCP}
	v4 := net.IP(base.IP).To4()
	switch rapid.IntRange(0, 11).Draw(rt, label+"rel") {
	case 0: // identical
	case 1: // other representation of the same host
		if v4 != nil {
			if len(base.IP) == 4 {
				out.IP = append([]byte{}, v4.To16()...)
			} else {
				out.IP = append([]byte{}, v4...)
			}
		}
	case 2: // IPv4 bytes lead an IPv6 address, rest zero
		if v4 != nil {
			out.IP = append(append([]byte{}, v4...), make([]byte, 12)...)
		}
	case 3: // IPv4-compatible form ::a.b.c.d
		if v4 != nil {
			out.IP = append(make([]byte, 12), v4...)
		}
	case 4: // one bit off
		i := rapid.IntRange(0, len(out.IP)*8-1).Draw(rt, label+"bit")
		out.IP[i/8] ^= 1 << (i % 8)
	case 5: // port neighbours
		out.Port = rapid.SampledFrom([]int{base.Port ^ 1, (base.Port>>8 | base.Port<<8) & 0xffff, (base.Port + 256) & 0xffff, 0, 65535}).Draw(rt, label+"port")
	case 6: // same host as a TCP/UDP address value
		out.TCP = !base.TCP
	case 7: // IPv6 address truncated to / extended from its first four bytes
		if v4 == nil {
			out.IP = append([]byte{}, base.IP[:4]...)
		} else {
			out.IP = append(append([]byte{}, v4...), 0, 0, 0, 0, 0, 0, 0, 0, 0, 0, 0, 1)
		}
	case 8: // last four bytes of an IPv6 address as IPv4
		if v4 == nil {
			out.IP = append([]byte{}, base.IP[12:]...)
		}
	default: // unrelated
		out = genFPAddr(rt, label+"fresh")
	}

	return out
}

func genFPAddr(rt *rapid.T, label string) FPAddr {
	a := FPAddr{Port: rapid.OneOf(rapid.IntRange(0, 65535), rapid.SampledFrom([]int{3478, 5000, 5001, 49152})).Draw(rt, label+"port")}
	a.TCP = rapid.IntRange(0, 3).Draw(rt, label+"tcp") == 0
	switch rapid.IntRange(0, 4).Draw(rt, label+"fam") {
	case 0, 1:
		a.IP = rapid.SliceOfN(rapid.Byte(), 4, 4).Draw(rt, label+"ip4")
	case 2:
		a.IP = append([]byte{}, net.IP(rapid.SliceOfN(rapid.Byte(), 4, 4).Draw(rt, label+"ip4m")).To16()...)
	case 3:
		a.IP = rapid.SliceOfN(rapid.Byte(), 16, 16).Draw(rt, label+"ip6")
	default: // sparse IPv6: a few non-zero bytes
		a.IP = make([]byte, 16)
		for k := rapid.IntRange(1, 4).Draw(rt, label+"nz"); k > 0; k-- {
			a.IP[rapid.IntRange(0, 15).Draw(rt, label+"pos")] = rapid.Byte().Draw(rt, label+"val")
		}
	}

	return a
}

func TestC04Fingerprint(t *testing.T) {
	r := vkit.Start(t, "C04")
	defer r.Finish()
	do := func(c *FPCase) (string, string) {
		r.Eval(1)
		same := c.AProto == c.BProto && c.ASrc.same(c.BSrc) && c.ADst.same(c.BDst)
		differIn := 0
		if c.AProto != c.BProto {
			differIn++
		}
		if !c.ASrc.same(c.BSrc) {
			differIn++
		}
		if !c.ADst.same(c.BDst) {
			differIn++
		}
		mixed := (net.IP(c.ASrc.IP).To4() == nil) != (net.IP(c.BSrc.IP).To4() == nil)
		switch {
		case same:
			r.Label("fp:same-five-tuple")
		case differIn == 1:
			r.Label("fp:differ-in-one-component")
		default:
			r.Label("fp:differ-in-several")
		}
		if mixed {
			r.Label("fp:mixed-families")
		}
		if same || differIn == 1 {
			r.NonTrivial(vkit.Hash64(c))
		}
		r.Sample(map[bool]string{true: "fp-same", false: "fp-different"}[same], func() any { return c })

		return runFP(c)
	}
	if r.Replay != "" {
		var c FPCase
		if err := vkit.LoadJSON(r.Replay, &c); err != nil || len(c.ASrc.IP) == 0 {
			fmt.Println("REPLAY-NOT-MINE: not a fingerprint case")

			return
		}
		kind, msg := do(&c)
		fmt.Printf("replay %s: kind=%q %s\n", r.Replay, kind, msg)
		if kind != "" {
			r.Violate(kind, msg, &c)
		}

		return
	}
	r.Rapid(t, "fingerprint", 0, r.Checks*20, func(rt *rapid.T) {
		c := &FPCase{ASrc: genFPAddr(rt, "as"), ADst: genFPAddr(rt, "ad"), AProto: rapid.IntRange(0, 1).Draw(rt, "ap")}
		c.BSrc, c.BDst, c.BProto = genRelated(rt, c.ASrc, "bs"), c.ADst, c.AProto
		if rapid.IntRange(0, 2).Draw(rt, "dstToo") == 0 {
			c.BDst = genRelated(rt, c.ADst, "bd")
		}
		if rapid.IntRange(0, 5).Draw(rt, "protoToo") == 0 {
			c.BProto = 1 - c.AProto
		}
		r.Journal(c)
		kind, msg := do(c)
		if kind != "" {
			r.NoteFail(kind, msg, c)
			rt.Fatalf("C04 %s", kind)
		}
	})
}

// runAddrKey is the oracle for the map keys of permissions (per peer IP, on the server and in the
// client) and for the peer comparison of channel bindings: FingerprintAddr is equal exactly for
// equal IP addresses (ports and address type do not matter), AddrEqual exactly for equal IP and
// port of the same address type.
func runAddrKey(a, b FPAddr) (kind, msg string) {
	defer func() {
		if p := recover(); p != nil {
			kind, msg = "panic", fmt.Sprint(p)
		}
	}()
	sameIP := net.IP(a.IP).Equal(net.IP(b.IP))
	if got := ipnet.FingerprintAddr(a.addr()) == ipnet.FingerprintAddr(b.addr()); got != sameIP {
		if got {
			return "distinct-peers-share-permission-key", fmt.Sprintf("%v and %v are different hosts with one permission key %q", a.addr(), b.addr(), ipnet.FingerprintAddr(a.addr()))
		}

		return "one-peer-two-permission-keys", fmt.Sprintf("%v and %v are the same host with two permission keys %q / %q", a.addr(), b.addr(), ipnet.FingerprintAddr(a.addr()), ipnet.FingerprintAddr(b.addr()))
	}
	want := sameIP && a.Port == b.Port && a.TCP == b.TCP
	if got := ipnet.AddrEqual(a.addr(), b.addr()); got != want {
		return "addr-equal-wrong", fmt.Sprintf("AddrEqual(%v, %v) = %v", a.addr(), b.addr(), got)
	}
	if ipnet.AddrEqual(a.addr(), b.addr()) != ipnet.AddrEqual(b.addr(), a.addr()) {
		return "addr-equal-asymmetric", fmt.Sprintf("AddrEqual(%v, %v) is not symmetric", a.addr(), b.addr())
	}

	return "", ""
}

// AddrKeyCase is the replay format of TestAddrKey.
type AddrKeyCase struct {
	A, B    FPAddr
	AddrKey bool `json:"addr_key"`
}

// TestAddrKey runs for the property named in VERIF_ID (C01, C02, C07 share the permission key).
func TestAddrKey(t *testing.T) {
	r := vkit.Start(t, os.Getenv("VERIF_ID"))
	defer r.Finish()
	do := func(c *AddrKeyCase) (string, string) {
		r.Eval(1)
		same := net.IP(c.A.IP).Equal(net.IP(c.B.IP))
		if same {
			r.Label("addrkey:same-host")
		} else {
			r.Label("addrkey:different-hosts")
		}
		if (net.IP(c.A.IP).To4() == nil) != (net.IP(c.B.IP).To4() == nil) {
			r.Label("addrkey:mixed-families")
		}
		r.NonTrivial(vkit.Hash64(c))
		r.Sample(map[bool]string{true: "addrkey-same", false: "addrkey-different"}[same], func() any { return c })

		return runAddrKey(c.A, c.B)
	}
	if r.Replay != "" {
		var c AddrKeyCase
		if err := vkit.LoadJSON(r.Replay, &c); err != nil || !c.AddrKey {
			fmt.Println("REPLAY-NOT-MINE: not an address-key case")

			return
		}
		kind, msg := do(&c)
		fmt.Printf("replay %s: kind=%q %s\n", r.Replay, kind, msg)
		if kind != "" {
			r.Violate(kind, msg, &c)
		}

		return
	}
	r.Rapid(t, "addrkey", 0, r.Checks*20, func(rt *rapid.T) {
		c := &AddrKeyCase{A: genFPAddr(rt, "a"), AddrKey: true}
		c.B = genRelated(rt, c.A, "b")
		r.Journal(c)
		kind, msg := do(c)
		if kind != "" {
			r.NoteFail(kind, msg, c)
			rt.Fatalf("%s %s", r.ID, kind)
		}
	})
}
