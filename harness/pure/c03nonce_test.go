package pure

import (
	"crypto/hmac"
	"crypto/sha256"
	"encoding/binary"
	"encoding/hex"
	"fmt"
	"math/big"
	"reflect"
	"strings"
	"testing"
	"testing/synctest"
	"time"
	"unsafe"

	"github.com/pion/turn/v5/internal/server"
	"github.com/pion/turn/v5/internal/zzverif/vkit"
	"pgregory.net/rapid"
)

// NonceCase exercises one nonce manager; also the replay format.
type NonceCase struct {
	HMACLen  int    `json:"hmac_len"`  // 0 = long (hex) nonce, 2..32 = short nonce with that MAC length
	OffsetMs int    `json:"offset_ms"` // mint this long after a whole minute
	AgesS    []int  `json:"ages_s"`    // validate at these ages (seconds), increasing
	Seed     uint64 `json:"seed"`
}

func mkManager(n int) (server.NonceManager, error) {
	if n == 0 {
		return server.NewNonceHash()
	}

	return server.NewShortNonceHash(n)
}

const b36c = "0123456789ABCDEFGHIJKLMNOPQRSTUVWXYZ"

func decodeNonce(c *NonceCase, s string) []byte {
	if c.HMACLen == 0 {
		b, _ := hex.DecodeString(s)

		return b
	}
	n := big.NewInt(0)
	for _, ch := range strings.ToUpper(s) {
		d := strings.IndexRune(b36c, ch)
		if d < 0 {
			return nil
		}
		n.Mul(n, big.NewInt(36))
		n.Add(n, big.NewInt(int64(d)))
	}
	b := n.Bytes()
	for len(b) < 4+c.HMACLen {
		b = append([]byte{0}, b...)
	}

	return b
}

func encodeNonce(c *NonceCase, b []byte) string {
	if c.HMACLen == 0 {
		return hex.EncodeToString(b)
	}
	n := new(big.Int).SetBytes(b)
	if n.Sign() == 0 {
		return "0"
	}
	var out []byte
	r := new(big.Int)
	for n.Sign() > 0 {
		n.DivMod(n, big.NewInt(36), r)
		out = append([]byte{b36c[r.Int64()]}, out...)
	}

	return string(out)
}

func runNonce(t *testing.T, c *NonceCase) (kind, msg string) {
	t.Helper()
	defer func() {
		if p := recover(); p != nil {
			kind, msg = "panic", fmt.Sprint(p)
		}
	}()
	synctest.Test(t, func(t *testing.T) { kind, msg = runNonceInner(c) })

	return kind, msg
}

func runNonceInner(c *NonceCase) (string, string) { //nolint:cyclop
	mgr, err := mkManager(c.HMACLen)
	if err != nil {
		return "constructor", err.Error()
	}
	other, _ := mkManager(c.HMACLen)
	time.Sleep(time.Duration(c.OffsetMs) * time.Millisecond)
	nonce, err := mgr.Generate()
	if err != nil {
		return "generate", err.Error()
	}
	minted := time.Now()
	what := fmt.Sprintf("nonce manager with MAC length %d (0 = long nonce)", c.HMACLen)
	if err := mgr.Validate(nonce); err != nil {
		return "fresh-nonce-rejected", what + ": a nonce just minted is rejected: " + err.Error()
	}
	raw := decodeNonce(c, nonce)
	tsLen := 4
	if c.HMACLen == 0 {
		tsLen = 8
	}
	if raw == nil || len(raw) < tsLen+2 {
		return "nonce-format", fmt.Sprintf("%s: cannot decode nonce %q", what, nonce)
	}
	// dated nonces with this instance's genuine MAC (what the instance itself would have minted
	// at another time - a clock that was stepped back leaves such nonces in clients' hands):
	// the present one must be accepted (self-test of the forging code), future ones rejected
	if key := managerKey(mgr); key != nil {
		mintAt := func(at time.Time) string {
			ts := make([]byte, 8)
			if c.HMACLen == 0 {
				binary.BigEndian.PutUint64(ts, uint64(at.UnixMilli())) //nolint:gosec
			} else {
				binary.BigEndian.PutUint64(ts, uint64(at.Unix()/60)) //nolint:gosec
				ts = ts[4:]
			}
			h := hmac.New(sha256.New, key)
			_, _ = h.Write(ts)
			mac := h.Sum(nil)
			if c.HMACLen != 0 {
				mac = mac[:c.HMACLen]
			}

			return encodeNonce(c, append(append([]byte{}, ts...), mac...))
		}
		if self := mintAt(minted); !strings.EqualFold(strings.TrimLeft(self, "0"), strings.TrimLeft(nonce, "0")) {
			return "harness", fmt.Sprintf("%s: the harness cannot reproduce the instance's own nonce (%q vs %q)", what, self, nonce)
		}
		for _, ahead := range []time.Duration{time.Minute, 2 * time.Minute, 59 * time.Minute, time.Hour, 61 * time.Minute, 24 * time.Hour, 366 * 24 * time.Hour} {
			if err := mgr.Validate(mintAt(minted.Add(ahead))); err == nil {
				return "future-dated-nonce-accepted", fmt.Sprintf("%s: a nonce dated %v ahead of the clock (genuine MAC) is accepted", what, ahead)
			}
		}
	} else {
		return "harness", what + ": cannot reach the instance key"
	}
	// same nonce in other spellings must stay valid
	if c.HMACLen != 0 {
		if err := mgr.Validate(strings.ToLower(nonce)); err != nil {
			return "case-variant-rejected", what + ": lower-case spelling of a valid nonce rejected"
		}
	}
	// every single-bit mutation
	for i := 0; i < len(raw)*8; i++ {
		inTS := i/8 < tsLen
		if inTS && c.HMACLen != 0 && c.HMACLen < 8 {
			continue // a MAC collision on a mutated timestamp is a legitimate 2^-16..2^-56 event
		}
		m := append([]byte{}, raw...)
		m[i/8] ^= 1 << (i % 8)
		if err := mgr.Validate(encodeNonce(c, m)); err == nil {
			part := "MAC"
			if inTS {
				part = "timestamp"
			}

			return "mutated-nonce-accepted", fmt.Sprintf("%s: nonce with bit %d (%s part) flipped is accepted", what, i, part)
		}
	}
	// forged ones
	r := &struct{ s uint64 }{c.Seed | 1}
	next := func() byte {
		r.s = r.s*6364136223846793005 + 1442695040888963407

		return byte(r.s >> 33)
	}
	for k := 0; k < 8; k++ {
		f := make([]byte, len(raw))
		for i := range f {
			f[i] = next()
		}
		copy(f[:tsLen], raw[:tsLen]) // current timestamp, random MAC
		if string(f) == string(raw) {
			continue // the random MAC is the genuine one (a 2^-16 event at the shortest length): not a forgery
		}
		if err := mgr.Validate(encodeNonce(c, f)); err == nil {
			return "forged-nonce-accepted", what + ": a nonce with the current timestamp and a random MAC is accepted"
		}
	}
	for _, s := range []string{"", "0", "zz", nonce + "0", nonce[:len(nonce)-1], "!" + nonce, strings.Repeat("Z", len(nonce))} {
		if s == nonce {
			continue
		}
		if err := mgr.Validate(s); err == nil && !(c.HMACLen != 0 && string(decodeNonce(c, s)) == string(raw)) {
			return "malformed-nonce-accepted", fmt.Sprintf("%s: malformed nonce %q accepted", what, s)
		}
	}
	if on, err := other.Generate(); err == nil {
		if mgr.Validate(on) == nil {
			return "foreign-nonce-accepted", what + ": a nonce minted by another instance is accepted"
		}
	}
	// ageing
	for _, a := range c.AgesS {
		at := minted.Add(time.Duration(a) * time.Second)
		if at.Before(time.Now()) {
			continue
		}
		time.Sleep(time.Until(at))
		err := mgr.Validate(nonce)
		switch {
		case a <= 59*60 && err != nil:
			return "valid-nonce-rejected", fmt.Sprintf("%s: nonce rejected at age %d s (< 1 h): %v", what, a, err)
		case a >= 61*60 && err == nil:
			return "expired-nonce-accepted", fmt.Sprintf("%s: nonce still accepted at age %d s (> 1 h)", what, a)
		}
	}

	return "", ""
}

func TestC03Nonce(t *testing.T) {
	r := vkit.Start(t, "C03")
	defer r.Finish()
	do := func(c *NonceCase, sample string) (string, string) {
		r.Eval(1)
		r.Label(fmt.Sprintf("nonce-mac-len:%d", c.HMACLen))
		r.NonTrivial(vkit.Hash64(c))
		if sample != "" {
			r.Sample(sample, func() any { return c })
		}
		kind, msg := runNonce(t, c)
		if kind != "" && r.IsKnown("C03."+kind) {
			return "", ""
		}

		return kind, msg
	}
	if r.Replay != "" {
		var c NonceCase
		if err := vkit.LoadJSON(r.Replay, &c); err != nil || len(c.AgesS) == 0 {
			fmt.Println("REPLAY-NOT-MINE: not a nonce case")

			return
		}
		kind, msg := do(&c, "")
		fmt.Printf("replay %s: kind=%q %s\n", r.Replay, kind, msg)
		if kind != "" {
			r.Violate(kind, msg, &c)
		}

		return
	}
	for _, f := range r.RegressFiles(".nonce.json") {
		var c NonceCase
		if err := vkit.LoadJSON(f, &c); err != nil {
			t.Fatalf("bad regress file %s: %v", f, err)
		}
		if kind, msg := do(&c, ""); kind != "" {
			r.Violate(kind, "regress "+f+": "+msg, &c)
		}
	}
	if r.Violations() > 0 {
		return
	}
	// every MAC length, at the age classes around the horizon
	for n := 0; n <= 32; n++ {
		if n == 1 || n%max(r.NShards, 1) != r.Shard%max(r.NShards, 1) {
			continue
		}
		for _, off := range []int{0, 1, 30000, 59999} {
			c := &NonceCase{HMACLen: n, OffsetMs: off, AgesS: []int{1, 60, 1800, 3540, 3660, 3661, 7200, 86400}, Seed: uint64(n*7 + off)}
			if kind, msg := do(c, "all-mac-lengths"); kind != "" {
				r.Violate(kind, msg, c)

				return
			}
		}
	}
	r.Rapid(t, "random", 0, r.Checks, func(rt *rapid.T) {
		c := &NonceCase{HMACLen: rapid.SampledFrom([]int{0, 0, 2, 3, 7, 8, 12, 12, 16, 31, 32}).Draw(rt, "maclen")}
		if rapid.IntRange(0, 3).Draw(rt, "anylen") == 0 {
			c.HMACLen = rapid.IntRange(2, 32).Draw(rt, "maclenAny")
		}
		c.OffsetMs = rapid.IntRange(0, 59999).Draw(rt, "offset")
		c.Seed = rapid.Uint64().Draw(rt, "seed")
		last := 0
		for k := rapid.IntRange(1, 6).Draw(rt, "nages"); k > 0; k-- {
			last += rapid.OneOf(rapid.IntRange(0, 3540), rapid.IntRange(0, 400), rapid.SampledFrom([]int{3540 - last, 3660 - last, 60})).Draw(rt, "dage")
			if last < 0 {
				last = 0
			}
			c.AgesS = append(c.AgesS, last)
		}
		r.Journal(c)
		kind, msg := do(c, "random")
		if kind != "" {
			r.NoteFail(kind, msg, c)
			rt.Fatalf("C03 %s", kind)
		}
	})
}

// managerKey reads the unexported HMAC key of a nonce manager (NonceHash / ShortNonceHash).
func managerKey(mgr server.NonceManager) (key []byte) {
	defer func() {
		if recover() != nil {
			key = nil
		}
	}()
	v := reflect.ValueOf(mgr)
	if v.Kind() != reflect.Ptr || v.Elem().Kind() != reflect.Struct {
		return nil
	}
	f := v.Elem().FieldByName("key")
	if !f.IsValid() || f.Kind() != reflect.Slice {
		return nil
	}

	return reflect.NewAt(f.Type(), unsafe.Pointer(f.UnsafeAddr())).Elem().Bytes()
}
