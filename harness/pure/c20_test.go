package pure

import (
	"fmt"
	"net"
	"testing"
	"time"

	"github.com/pion/turn/v5"
	"github.com/pion/turn/v5/internal/allocation"
	"github.com/pion/turn/v5/internal/proto"
	"github.com/pion/turn/v5/internal/zzverif/sim"
	"github.com/pion/turn/v5/internal/zzverif/vkit"
	"pgregory.net/rapid"
)

// C20Op is one generator call or a close of a live result.
type C20Op struct {
	Kind string `json:"kind"` // udp | tcp | close
	Req  int    `json:"req,omitempty"`
	Idx  int    `json:"idx,omitempty"`
	// Mgr: the call is made the way the server makes it, through the allocation manager's
	// CreateAllocation (which passes the requested port on to the generator)
	Mgr bool `json:"mgr,omitempty"`
	// OtherFam: this allocation is of the other address family than the generator's addresses
	// (one generator serves a listener's IPv4 and IPv6 allocations alike)
	OtherFam bool `json:"other_family,omitempty"`
}

// nullPacketConn stands for the server's listening socket (nothing is relayed in this stage).
type nullPacketConn struct{ net.PacketConn }

func (nullPacketConn) WriteTo(b []byte, _ net.Addr) (int, error) { return len(b), nil }
func (nullPacketConn) Close() error                              { return nil }
func (nullPacketConn) LocalAddr() net.Addr {
	return &net.UDPAddr{IP: net.IPv4(10, 0, 0, 1), Port: 3478}
}

type closerFunc func() error

func (f closerFunc) Close() error { return f() }

// C20Case is a generator configuration plus a history of allocate/close calls; also the replay.
type C20Case struct {
	Gen        string   `json:"gen"` // range | static | none
	MinPort    int      `json:"min_port,omitempty"`
	MaxPort    int      `json:"max_port,omitempty"`
	MaxRetries int      `json:"max_retries,omitempty"`
	V6         bool     `json:"v6,omitempty"`
	Wild       bool     `json:"wildcard_listen,omitempty"`
	HostName   bool     `json:"host_name_listen,omitempty"` // Address is a host name that resolves to the relay host's address (of both families)
	IP4Form    bool     `json:"relay_ip_4_bytes,omitempty"` // the configured IPv4 relay address is a 4-byte net.IP (net.IP.To4, netip.Addr.AsSlice)
	Rand       []uint32 `json:"rand"`                       // scripted Intn outputs (0xFFFFFFFF = n-1, others reduced mod n)
	Pre        []int    `json:"pre,omitempty"`
	Ops        []C20Op  `json:"ops"`
}

// drawsForever is what scriptedRand panics with when a generator draws more ports for one call
// than MaxRetries allows: it would go on for ever instead of failing.
const drawsForever = "the generator drew more random ports for one call than MaxRetries allows"

type scriptedRand struct {
	limit int // > 0: the call count at which Intn gives up (set per operation)
	vals  []uint32
	i     int
	bad   string
	lastN int
	last  int
	calls int
}

func (r *scriptedRand) Intn(n int) int {
	r.calls++
	if r.limit > 0 && r.calls > r.limit {
		panic(drawsForever)
	}
	r.lastN = n
	if n <= 0 {
		if r.bad == "" {
			r.bad = fmt.Sprintf("Intn called with n=%d", n)
		}
		r.last = 0

		return 0
	}
	v := uint32(0)
	if len(r.vals) > 0 {
		v = r.vals[r.i%len(r.vals)]
		r.i++
	}
	if v == 0xFFFFFFFF {
		r.last = n - 1
	} else {
		r.last = int(v % uint32(n))
	}

	return r.last
}
func (r *scriptedRand) Uint32() uint32                        { return 4 }
func (r *scriptedRand) Uint64() uint64                        { return 4 }
func (r *scriptedRand) GenerateString(n int, _ string) string { return "xxxxxxxxxxxxxxxx"[:n%16] }

// c20Known is set by the test: it reports (and counts) a recorded known finding.
var c20Known func(sig string) bool

type liveRes struct {
	fam6 bool
	kind string
	port int
	sock *sim.UDPSock
	lis  *sim.Listener
	cl   interface{ Close() error }
}

func runC20(c *C20Case) (kind, msg string) { //nolint:cyclop,gocyclo,maintidx
	var k, m string
	if p := catch(func() { k, m = runC20Inner(c) }); p != nil {
		if fmt.Sprint(p) == drawsForever {
			return "never-gives-up", "a call that cannot bind any port does not fail: " + drawsForever + " (it would never return)"
		}

		return "panic", fmt.Sprintf("panic: %v", p)
	}

	return k, m
}

func runC20Inner(c *C20Case) (string, string) { //nolint:cyclop,gocyclo,maintidx
	n := sim.NewNet()
	defer n.CloseAll()
	tn := &sim.TNet{N: n}
	relayIP := net.IPv4(10, 9, 0, 1)
	netU, netT := "udp4", "tcp4"
	listen := "10.9.0.1"
	if c.V6 {
		relayIP = net.ParseIP("fd00:9::1")
		netU, netT = "udp6", "tcp6"
		listen = "fd00:9::1"
	}
	if c.Wild {
		listen = "0.0.0.0"
		if c.V6 {
			listen = "::"
		}
	}
	if c.IP4Form && !c.V6 {
		relayIP = relayIP.To4()
	}
	bindIP := net.ParseIP(listen)
	if c.HostName && !c.Wild {
		listen = "relay.sim" // resolves to 10.9.0.1 and fd00:9::1
	}
	rnd := &scriptedRand{vals: c.Rand}
	var gen turn.RelayAddressGenerator
	switch c.Gen {
	case "range":
		gen = &turn.RelayAddressGeneratorPortRange{RelayAddress: relayIP, MinPort: uint16(c.MinPort), MaxPort: uint16(c.MaxPort), MaxRetries: c.MaxRetries, Rand: rnd, Address: listen, Net: tn}
	case "static":
		gen = &turn.RelayAddressGeneratorStatic{RelayAddress: relayIP, Address: listen, Net: tn}
	default:
		gen = &turn.RelayAddressGeneratorNone{Address: listen, Net: tn}
	}
	if err := gen.Validate(); err != nil {
		return "validate", "Validate rejects a configuration inside the documented domain: " + err.Error()
	}
	for _, p := range c.Pre {
		_, _ = n.BindUDP(netU, bindIP, p)
		_, _ = n.ListenTCPAt(netT, bindIP, p)
	}
	var attempts []int
	tn.BindHook = func(_ string, _ net.IP, port int) { attempts = append(attempts, port) }
	var live []*liveRes
	var mgr *allocation.Manager
	turnSock := nullPacketConn{}
	evens := 0
	_ = evens
	busy := func(kind string, port int, fam6 bool) bool {
		for _, p := range c.Pre {
			if p == port && fam6 == c.V6 {
				return true
			}
		}
		for _, l := range live {
			if l.kind == kind && l.port == port && l.fam6 == fam6 {
				return true
			}
		}

		return false
	}
	for oi, op := range c.Ops {
		ctx := fmt.Sprintf("op %d (%s req=%d mgr=%v)", oi, op.Kind, op.Req, op.Mgr)
		if op.Kind == "close" {
			if len(live) == 0 {
				continue
			}
			i := op.Idx % len(live)
			_ = live[i].cl.Close()
			live = append(live[:i], live[i+1:]...)

			continue
		}
		socksBefore, lisBefore := len(n.Socks()), len(n.Listeners())
		attempts = attempts[:0]
		callsBefore := rnd.calls
		retries := c.MaxRetries
		if retries <= 0 {
			retries = 10 // Validate's default
		}
		rnd.limit = rnd.calls + retries + 8
		if op.Kind == "evenport" {
			rnd.limit = rnd.calls + 128*retries + 8 // GetRandomEvenPort probes up to 128 times
		}
		if op.Kind == "evenport" {
			// the allocation manager's use of the generator for EVEN-PORT requests: the port it
			// picks is what the server then requests (and reserves port+1 next to it)
			if c.V6 {
				continue
			}
			if mgr == nil {
				var merr error
				mgr, merr = allocation.NewManager(allocation.ManagerConfig{
					LeveledLogger: sim.NewLogger(0).NewLogger("c20"), AllocatePacketConn: gen.AllocatePacketConn,
					AllocateListener: gen.AllocateListener, AllocateConn: gen.AllocateConn,
				})
				if merr != nil {
					return "harness", merr.Error()
				}
			}
			port, perr := mgr.GetRandomEvenPort()
			for _, s := range n.Socks()[socksBefore:] {
				if !s.IsClosed() {
					return "leak-on-probe", fmt.Sprintf("%s: GetRandomEvenPort left %v open", ctx, s)
				}
			}
			if perr != nil {
				continue
			}
			evens++
			switch {
			case port%2 != 0 || port <= 0 || port > 65535:
				return "even-port-odd", fmt.Sprintf("%s: GetRandomEvenPort returned %d", ctx, port)
			case c.Gen == "range" && (port < c.MinPort || port > c.MaxPort):
				return "port-outside-range", fmt.Sprintf("%s: GetRandomEvenPort returned %d, the configured range is [%d,%d]", ctx, port, c.MinPort, c.MaxPort)
			case busy("udp", port, false):
				return "port-shared", fmt.Sprintf("%s: GetRandomEvenPort returned port %d which a live allocation holds", ctx, port)
			}
			if c.Gen == "range" {
				for _, a := range attempts {
					if a != 0 && (a < c.MinPort || a > c.MaxPort) {
						return "attempt-outside-range", fmt.Sprintf("%s: tried to bind port %d while looking for an even port, range is [%d,%d]", ctx, a, c.MinPort, c.MaxPort)
					}
				}
			}

			continue
		}
		var adv net.Addr
		var err error
		var res *liveRes
		opU, opT, op6 := netU, netT, c.V6
		if op.OtherFam {
			op6 = !c.V6
			opU, opT = map[bool]string{true: "udp6", false: "udp4"}[op6], map[bool]string{true: "tcp6", false: "tcp4"}[op6]
		}
		conf := turn.AllocateListenerConfig{Network: opU, UserID: "u", Realm: "r", RequestedPort: op.Req}
		if op.Mgr {
			if mgr == nil {
				var merr error
				mgr, merr = allocation.NewManager(allocation.ManagerConfig{
					LeveledLogger: sim.NewLogger(0).NewLogger("c20"), AllocatePacketConn: gen.AllocatePacketConn,
					AllocateListener: gen.AllocateListener, AllocateConn: gen.AllocateConn,
				})
				if merr != nil {
					return "harness", merr.Error()
				}
				defer mgr.Close() //nolint:errcheck
			}
			ft := &allocation.FiveTuple{Protocol: allocation.UDP, SrcAddr: &net.UDPAddr{IP: net.IPv4(10, 1, 0, 1), Port: 20000 + oi}, DstAddr: &net.UDPAddr{IP: net.IPv4(10, 0, 0, 1), Port: 3478}}
			pr, fam := proto.ProtoUDP, proto.RequestedFamilyIPv4
			if op.Kind == "tcp" {
				pr = proto.ProtoTCP
			}
			if op6 {
				fam = proto.RequestedFamilyIPv6
			}
			var a *allocation.Allocation
			a, err = mgr.CreateAllocation(ft, turnSock, pr, op.Req, time.Hour, "u", "r", fam)
			if err == nil {
				adv = a.RelayAddr
				res = &liveRes{kind: op.Kind, cl: closerFunc(func() error { mgr.DeleteAllocation(ft); return nil })}
				// the relay socket / listener is the one bound during this call
				for _, s := range n.Socks()[socksBefore:] {
					if !s.IsClosed() {
						if res.sock != nil {
							return "leak-on-success", fmt.Sprintf("%s: CreateAllocation left two new sockets open (%v and %v)", ctx, res.sock, s)
						}
						res.sock, res.port = s, s.Local().Port
					}
				}
				for _, l := range n.Listeners()[lisBefore:] {
					if !l.IsClosed() {
						if res.lis != nil {
							return "leak-on-success", fmt.Sprintf("%s: CreateAllocation left two new listeners open (%v and %v)", ctx, res.lis, l)
						}
						res.lis, res.port = l, l.TCPAddr().Port
					}
				}
				if (op.Kind == "udp") != (res.sock != nil) || (op.Kind == "tcp") != (res.lis != nil) {
					return "not-a-socket", fmt.Sprintf("%s: CreateAllocation succeeded (relay %v) but no %s relay endpoint was bound through the configured Net", ctx, adv, op.Kind)
				}
			}
		} else if op.Kind == "udp" {
			var pc net.PacketConn
			pc, adv, err = gen.AllocatePacketConn(conf)
			if err == nil {
				s, ok := pc.(*sim.UDPSock)
				if !ok || s == nil {
					return "not-a-socket", ctx + ": returned PacketConn is not a socket bound through the configured Net"
				}
				res = &liveRes{kind: "udp", port: s.Local().Port, sock: s, cl: s}
			}
		} else {
			conf.Network = opT
			var ln net.Listener
			ln, adv, err = gen.AllocateListener(conf)
			if err == nil {
				l, ok := ln.(*sim.Listener)
				if !ok || l == nil {
					return "not-a-listener", ctx + ": returned Listener is not bound through the configured Net"
				}
				res = &liveRes{kind: "tcp", port: l.TCPAddr().Port, lis: l, cl: l}
			}
		}
		if rnd.bad != "" {
			return "intn-nonpositive", ctx + ": " + rnd.bad
		}
		// every port tried for an unrequested allocation lies inside the configured range
		if c.Gen == "range" && op.Req == 0 {
			for _, a := range attempts {
				if a < c.MinPort || a > c.MaxPort {
					return "attempt-outside-range", fmt.Sprintf("%s: tried to bind port %d, range is [%d,%d]", ctx, a, c.MinPort, c.MaxPort)
				}
			}
			if rnd.calls > callsBefore && len(attempts) > 0 {
				// the last draw decides the last attempt: Min + draw
				if want := c.MinPort + rnd.last; attempts[len(attempts)-1] != want {
					return "attempt-not-min-plus-draw", fmt.Sprintf("%s: random draw %d of %d led to port %d, expected MinPort+draw = %d", ctx, rnd.last, rnd.lastN, attempts[len(attempts)-1], want)
				}
				if want := c.MaxPort - c.MinPort + 1; rnd.lastN != want {
					return "draw-width", fmt.Sprintf("%s: random source asked for [0,%d), the range holds %d ports", ctx, rnd.lastN, want)
				}
			}
		}
		if err != nil {
			// failing is fine, but it must fail cleanly: nothing left open
			if op.Req != 0 && !busy(op.Kind, op.Req, op6) && op6 == c.V6 {
				return "refused-free-port", fmt.Sprintf("%s: requested port %d is free but the call failed: %v", ctx, op.Req, err)
			}
			for _, s := range n.Socks()[socksBefore:] {
				if !s.IsClosed() {
					return "leak-on-error", fmt.Sprintf("%s: failed (%v) but left %v open", ctx, err, s)
				}
			}
			for _, l := range n.Listeners()[lisBefore:] {
				if !l.IsClosed() {
					return "leak-on-error", fmt.Sprintf("%s: failed (%v) but left %v open", ctx, err, l)
				}
			}

			continue
		}
		// success: fresh, open, truthful
		if res.sock != nil && (res.sock.IsClosed() || res.sock.ID <= 0) || res.lis != nil && res.lis.IsClosed() {
			return "returned-closed", ctx + ": returned a closed socket/listener"
		}
		res.fam6 = op6
		shared := false
		for _, l := range live {
			if l.kind == res.kind && l.port == res.port && l.fam6 != res.fam6 && c.Gen == "none" {
				continue // the pass-through generator advertises the two sockets' own, different addresses
			}
			if l.kind == res.kind && l.port == res.port && l.fam6 != res.fam6 {
				// Address "::" - or a host name with an address of each family - serves both families:
				// [::]:P and 0.0.0.0:P are two sockets, advertised as one transport address
				// RelayAddress:P (known finding, see DESIGN.md)
				if !(c.V6 && c.Wild) && !c.HostName {
					return "port-shared", fmt.Sprintf("%s: port %d handed out for %s while a live allocation of the other family holds it: both are advertised as %v:%d", ctx, res.port, conf.Network, relayIP, res.port)
				}
				if c20Known != nil && c20Known("C20.address-of-both-families-one-port") {
					shared = true

					break
				}

				return "address-of-both-families-one-port", fmt.Sprintf("%s: port %d handed out for %s while a live allocation of the other family holds it: both are advertised as %v:%d", ctx, res.port, conf.Network, relayIP, res.port)
			}
			if l.kind == res.kind && l.port == res.port {
				if res.lis != nil && res.lis.Reuse && l.lis != nil && l.lis.Reuse {
					// the bundled generators bind TCP relay listeners with SO_REUSEPORT, and the
					// kernel lets two such listeners share a port (known finding, see DESIGN.md)
					if c20Known != nil && c20Known("C20.tcp-listener-port-shared-reuseport") {
						shared = true // recorded known finding: counted, and the history goes on

						break
					}

					return "tcp-listener-port-shared-reuseport", fmt.Sprintf("%s: TCP relay listener on port %d handed out while another live listener holds that port (both bound with SO_REUSEPORT)", ctx, res.port)
				}

				return "port-shared", fmt.Sprintf("%s: port %d handed out while another live result holds it", ctx, res.port)
			}
			if (l.sock != nil && l.sock == res.sock) || (l.lis != nil && l.lis == res.lis) {
				return "not-fresh", ctx + ": the same socket was handed out twice"
			}
		}
		_ = shared
		for _, p := range c.Pre {
			if p == res.port && op6 == c.V6 { // (the ports in use are in use in the generator's own family)
				return "port-in-use", fmt.Sprintf("%s: handed out port %d which is in use", ctx, p)
			}
		}
		aip, aport, aerr := addrParts(adv)
		if aerr != nil {
			return "advertised-type", fmt.Sprintf("%s: advertised address %v has an unexpected type", ctx, adv)
		}
		if aport != res.port {
			return "advertised-port", fmt.Sprintf("%s: advertised port %d, the socket is bound to %d", ctx, aport, res.port)
		}
		if op.Req != 0 && res.port != op.Req {
			return "requested-port", fmt.Sprintf("%s: requested port %d, got %d", ctx, op.Req, res.port)
		}
		if op.Req == 0 && c.Gen == "range" && (res.port < c.MinPort || res.port > c.MaxPort) {
			return "port-outside-range", fmt.Sprintf("%s: port %d outside [%d,%d]", ctx, res.port, c.MinPort, c.MaxPort)
		}
		if c.Gen == "none" {
			var local net.IP
			if res.sock != nil {
				local = res.sock.Local().IP
			} else {
				local = res.lis.TCPAddr().IP
			}
			if !aip.Equal(local) {
				return "advertised-ip", fmt.Sprintf("%s: pass-through generator advertises %v, the socket's address is %v", ctx, aip, local)
			}
		} else if !aip.Equal(relayIP) {
			return "advertised-ip", fmt.Sprintf("%s: advertised IP %v, configured relay address %v", ctx, aip, relayIP)
		}
		live = append(live, res)
	}

	return "", ""
}

func addrParts(a net.Addr) (net.IP, int, error) {
	switch v := a.(type) {
	case *net.UDPAddr:
		return v.IP, v.Port, nil
	case *net.TCPAddr:
		return v.IP, v.Port, nil
	}

	return nil, 0, fmt.Errorf("type %T", a)
}

func c20NonTrivial(c *C20Case) bool {
	if c.Gen != "range" {
		return len(c.Ops) >= 2
	}

	return c.MaxPort-c.MinPort <= 4 || c.MaxPort == 65535 || len(c.Pre) > 0
}

func c20Do(r *vkit.Run, c *C20Case, sample string) (string, string) {
	c20Known = r.IsKnown
	r.Eval(1)
	r.Label("gen:" + c.Gen)
	if c20NonTrivial(c) {
		r.NonTrivial(vkit.Hash64(c))
		r.Label("nontrivial")
		if sample != "" {
			r.Sample(sample+":"+c.Gen, func() any { return c })
		}
	}
	kind, msg := runC20(c)
	if kind != "" && r.IsKnown("C20."+kind) {
		return "", ""
	}

	return kind, msg
}

func genC20(rt *rapid.T) *C20Case {
	c := &C20Case{Gen: rapid.SampledFrom([]string{"range", "range", "range", "static", "none"}).Draw(rt, "gen")}
	c.V6 = rapid.IntRange(0, 3).Draw(rt, "v6") == 0
	c.Wild = rapid.IntRange(0, 2).Draw(rt, "wild") == 0
	c.IP4Form = rapid.Bool().Draw(rt, "ip4form")
	c.HostName = !c.Wild && rapid.IntRange(0, 4).Draw(rt, "hostName") == 0
	if c.Gen == "range" {
		width := rapid.OneOf(rapid.IntRange(0, 4), rapid.IntRange(0, 40), rapid.IntRange(0, 65534)).Draw(rt, "width")
		c.MinPort = rapid.OneOf(rapid.IntRange(1, 65535), rapid.SampledFrom([]int{1, 2, 1023, 1024, 49152, 65534, 65535})).Draw(rt, "min")
		c.MaxPort = min(c.MinPort+width, 65535)
		if rapid.IntRange(0, 3).Draw(rt, "toTop") == 0 {
			c.MaxPort = 65535
			c.MinPort = max(1, 65535-width)
		}
		c.MaxRetries = rapid.IntRange(0, 20).Draw(rt, "retries")
		k := rapid.IntRange(0, min(6, c.MaxPort-c.MinPort+1)).Draw(rt, "npre")
		for i := 0; i < k; i++ {
			c.Pre = append(c.Pre, rapid.IntRange(c.MinPort, c.MaxPort).Draw(rt, "pre"))
		}
	}
	c.Rand = rapid.SliceOfN(rapid.OneOf(rapid.Uint32(), rapid.SampledFrom([]uint32{0, 1, 0xFFFFFFFF, 0xFFFFFFFF, 0xFFFFFFFE})), 1, 12).Draw(rt, "rand")
	nops := rapid.IntRange(1, 24).Draw(rt, "nops")
	for i := 0; i < nops; i++ {
		op := C20Op{Kind: rapid.SampledFrom([]string{"udp", "udp", "udp", "tcp", "tcp", "close", "close", "evenport"}).Draw(rt, "kind")}
		if op.Kind == "close" {
			op.Idx = rapid.IntRange(0, 8).Draw(rt, "idx")
		} else if op.Kind == "evenport" {
			// (GetRandomEvenPort takes no argument)
		} else if op.Mgr = rapid.IntRange(0, 3).Draw(rt, "viaManager") == 0; rapid.IntRange(0, 3).Draw(rt, "hasReq") == 0 {
			if c.Gen == "range" && rapid.IntRange(0, 1).Draw(rt, "reqInRange") == 0 {
				op.Req = rapid.IntRange(c.MinPort, c.MaxPort).Draw(rt, "req")
			} else {
				op.Req = rapid.IntRange(1, 65535).Draw(rt, "req")
			}
		}
		if (op.Kind == "udp" || op.Kind == "tcp") && rapid.IntRange(0, 3).Draw(rt, "otherFam") == 0 {
			op.OtherFam = true
			if len(c.Ops) > 0 && rapid.IntRange(0, 1).Draw(rt, "otherFamSamePort") == 0 {
				// the port an earlier call asked for
				if prev := c.Ops[rapid.IntRange(0, len(c.Ops)-1).Draw(rt, "otherFamPrev")]; prev.Req != 0 {
					op.Req = prev.Req
				}
			}
		}
		c.Ops = append(c.Ops, op)
	}

	return c
}

func TestC20(t *testing.T) {
	r := vkit.Start(t, "C20")
	defer r.Finish()
	r.Assume("sockets are bound through the configured transport.Net (simnet refuses a second bind of a port in use; real kernels with SO_REUSEPORT on the TCP listener path are not modelled)")
	r.Assume("MinPort <= MaxPort, both non-zero, as Validate requires and the quantifier states")
	if r.Replay != "" {
		var c C20Case
		if err := vkit.LoadJSON(r.Replay, &c); err != nil {
			t.Fatalf("cannot load replay: %v", err)
		}
		kind, msg := c20Do(r, &c, "")
		fmt.Printf("replay %s: kind=%q %s\n", r.Replay, kind, msg)
		if kind != "" {
			r.Violate(kind, msg, &c)
		}

		return
	}
	for _, f := range r.RegressFiles(".json") {
		var c C20Case
		if err := vkit.LoadJSON(f, &c); err != nil {
			t.Fatalf("bad regress file %s: %v", f, err)
		}
		if kind, msg := c20Do(r, &c, ""); kind != "" {
			r.Violate(kind, msg, &c)
		}
	}
	// exhaustive: the (MinPort, MaxPort) edge grid x every Intn output for widths <= 8; fill and drain
	if r.Shard == 0 {
		for _, base := range []int{1, 2, 1000, 32767, 32768, 65527, 65528, 65534, 65535} {
			for width := 0; width <= 8; width++ {
				lo, hi := base, base+width
				if hi > 65535 {
					continue
				}
				for draw := 0; draw <= width; draw++ {
					for _, kind := range []string{"udp", "tcp"} {
						c := &C20Case{Gen: "range", MinPort: lo, MaxPort: hi, MaxRetries: 3, Rand: []uint32{uint32(draw)}, Ops: []C20Op{{Kind: kind}}}
						if k, m := c20Do(r, c, "grid"); k != "" {
							r.Violate(k, m, c)

							return
						}
					}
				}
				// fill the whole range with a rotating draw, then one more must fail cleanly, then drain and refill
				c := &C20Case{Gen: "range", MinPort: lo, MaxPort: hi, MaxRetries: 40}
				for i := 0; i <= width; i++ {
					c.Rand = append(c.Rand, uint32(i))
				}
				for i := 0; i <= width+1; i++ {
					c.Ops = append(c.Ops, C20Op{Kind: "udp"})
				}
				c.Ops = append(c.Ops, C20Op{Kind: "close", Idx: 0}, C20Op{Kind: "udp"})
				if k, m := c20Do(r, c, "fill-drain"); k != "" {
					r.Violate(k, m, c)

					return
				}
			}
		}
	}
	r.Rapid(t, "random", 0, r.Checks, func(rt *rapid.T) {
		c := genC20(rt)
		r.Journal(c)
		kind, msg := c20Do(r, c, "random")
		if kind != "" {
			r.NoteFail(kind, msg, c)
			rt.Fatalf("C20 %s", kind)
		}
	})
}
