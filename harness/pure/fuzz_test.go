package pure

import (
	"encoding/json"
	"os"
	"testing"

	"pgregory.net/rapid"
)

// Native coverage-guided fuzz targets (thorough tier only). The fuzzer's bytes drive the same
// generators as the rapid search (rapid.MakeFuzz), so every input is a structured case and the
// oracle is the same reference comparison.

func FuzzC10(f *testing.F) {
	f.Add([]byte{0, 1, 2, 3})
	f.Add([]byte("\x40\x00\xff\xfc\x21\x12\xa4\x42 seed with the bytes of a hostile header"))
	f.Fuzz(rapid.MakeFuzz(func(rt *rapid.T) {
		c := genC10(rt)
		if kind, msg := runC10(c); kind != "" {
			rt.Fatalf("C10 %s: %s\ncase: %+v", kind, msg, *c)
		}
	}))
}

func FuzzC11(f *testing.F) {
	f.Add([]byte{0, 1, 2, 3})
	f.Add([]byte("\x00\x01\x00\x08\x21\x12\xa4\x42 seed"))
	f.Fuzz(rapid.MakeFuzz(func(rt *rapid.T) {
		c := genC11(rt)
		if kind, msg := runC11(c); kind != "" {
			rt.Fatalf("C11 %s: %s\ncase: %+v", kind, msg, *c)
		}
	}))
}

// knownSignature reports whether sig is listed under "findings" in the committed known-findings
// file (the fuzz targets run without the bookkeeping of vkit.Run).
func knownSignature(sig string) bool {
	raw, err := os.ReadFile(os.Getenv("VERIF_KNOWN"))
	if err != nil {
		return false
	}
	var kf struct {
		Findings []struct {
			Signature string `json:"signature"`
		} `json:"findings"`
	}
	if json.Unmarshal(raw, &kf) != nil {
		return false
	}
	for _, f := range kf.Findings {
		if f.Signature == sig {
			return true
		}
	}

	return false
}

func FuzzC20(f *testing.F) {
	f.Add([]byte{0, 1, 2, 3})
	if c20Known == nil {
		c20Known = knownSignature // the recorded finding (shared TCP relay port) is excluded so that the search goes on
	}
	f.Fuzz(rapid.MakeFuzz(func(rt *rapid.T) {
		c := genC20(rt)
		if kind, msg := runC20(c); kind != "" {
			rt.Fatalf("C20 %s: %s\ncase: %+v", kind, msg, *c)
		}
	}))
}
