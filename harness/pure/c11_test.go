package pure

import (
	"bytes"
	"encoding/hex"
	"fmt"
	"net"
	"testing"
	"time"

	"github.com/pion/stun/v3"
	"github.com/pion/turn/v5/internal/proto"
	"github.com/pion/turn/v5/internal/zzverif/ref"
	"github.com/pion/turn/v5/internal/zzverif/vkit"
	"pgregory.net/rapid"
)

// C11Case is one codec case; it is also the replay format.
type C11Case struct {
	Kind    string `json:"kind"` // cd-roundtrip | cd-raw | attr-value | attr-raw
	Number  uint16 `json:"number,omitempty"`
	Payload string `json:"payload_hex,omitempty"`
	PayLen  int    `json:"payload_len,omitempty"` // used instead of Payload for synthetic payloads
	PaySeed uint64 `json:"payload_seed,omitempty"`
	Raw     string `json:"raw_hex,omitempty"`
	Attr    string `json:"attr,omitempty"`
	U       uint64 `json:"u,omitempty"`  // numeric value (lifetime seconds, channel number, connection id, protocol, family)
	IP      string `json:"ip,omitempty"` // address attributes
	Port    int    `json:"port,omitempty"`
	TxID    string `json:"txid_hex,omitempty"`
	Val     string `json:"value_hex,omitempty"` // raw attribute value / data / token
	// After: a further occurrence of the same attribute later in the message (a request may name
	// several peers); decoding reads the first occurrence and must judge that one
	After string `json:"after_hex,omitempty"`
}

func synthPayload(n int, seed uint64) []byte {
	b := make([]byte, n)
	x := seed | 1
	for i := range b {
		x ^= x << 13
		x ^= x >> 7
		x ^= x << 17
		b[i] = byte(x)
	}

	return b
}

func (c *C11Case) payload() []byte {
	if c.Payload != "" {
		b, _ := hex.DecodeString(c.Payload)

		return b
	}

	return synthPayload(c.PayLen, c.PaySeed)
}

func catch(f func()) (p any) {
	defer func() { p = recover() }()
	f()

	return nil
}

// runC11 executes one case against the library and the reference codec; "" = property holds.
func runC11(c *C11Case) (kind, msg string) {
	var k, m string
	if p := catch(func() { k, m = runC11Inner(c) }); p != nil {
		return "panic", fmt.Sprintf("panic in codec: %v", p)
	}

	return k, m
}

func runC11Inner(c *C11Case) (string, string) {
	switch c.Kind {
	case "cd-roundtrip":
		return cdRoundTrip(c.Number, c.payload())
	case "cd-raw":
		raw, _ := hex.DecodeString(c.Raw)

		return cdRaw(raw)
	case "attr-value":
		return attrValue(c)
	case "attr-raw":
		return attrRaw(c)
	}

	return "bad-case", "unknown case kind " + c.Kind
}

func cdRoundTrip(num uint16, data []byte) (string, string) {
	if k, m := cdRoundTripWith(num, data, false); k != "" {
		return k, m
	}

	// the same through a reused ChannelData value whose buffer still holds an earlier, longer message
	if k, m := cdRoundTripWith(num, data, true); k != "" {
		return k, m
	}
	// ... and through a value whose buffer has a small capacity left over (a value that failed to
	// decode a runt packet of 1-3 bytes and is used for sending next)
	for _, capLeft := range []int{1, 2, 3, 4, 5, 7, 8} {
		if k, m := cdRoundTripCap(num, data, capLeft); k != "" {
			return k, fmt.Sprintf("%s (value reused with a %d-byte buffer)", m, capLeft)
		}
	}

	// ... and through a value that was decoded from a received frame and is sent on under another
	// number: its Data is a slice of its own Raw
	for _, spare := range []int{0, 1, 4, 64} {
		if k, m := cdRoundTripPrepared(num, data, func(cd *proto.ChannelData) {
			in := ref.EncodeChannelData(0x4ABC, data, true)
			cd.Raw = append(make([]byte, 0, len(in)+spare), in...)
			if err := cd.Decode(); err != nil {
				cd.Reset()
				cd.Data = data
			}
			cd.Number = proto.ChannelNumber(num)
		}); k != "" {
			return k, fmt.Sprintf("%s (value decoded from a frame and encoded again, %d spare bytes)", m, spare)
		}
	}

	// ... and through a value that received another message before and is sent on with only its
	// Number and Data replaced (no Reset: "Length - ignored while encoding, len(Data) is used")
	for _, earlier := range []int{1, 5, 8, 1200} {
		if k, m := cdRoundTripPrepared(num, data, func(cd *proto.ChannelData) {
			in := ref.EncodeChannelData(0x4ABC, bytes.Repeat([]byte{7}, earlier), true)
			cd.Raw = append([]byte{}, in...)
			_ = cd.Decode()
			cd.Number, cd.Data = proto.ChannelNumber(num), data
		}); k != "" {
			return k, fmt.Sprintf("%s (value that decoded a %d-byte message before, Number and Data replaced)", m, earlier)
		}
	}

	return "", ""
}

func cdRoundTripCap(num uint16, data []byte, capLeft int) (string, string) {
	return cdRoundTripPrepared(num, data, func(cd *proto.ChannelData) {
		cd.Raw = make([]byte, capLeft)
		_ = cd.Decode() // a runt: fails, the value keeps its buffer
		cd.Reset()
		cd.Number, cd.Data = proto.ChannelNumber(num), data
	})
}

func cdRoundTripWith(num uint16, data []byte, reuse bool) (string, string) {
	return cdRoundTripPrepared(num, data, func(cd *proto.ChannelData) {
		if reuse {
			cd.Number, cd.Data = 0x7ABC, bytes.Repeat([]byte{0xAB}, len(data)+13)
			cd.Encode()
			cd.Reset()
			cd.Number, cd.Data = proto.ChannelNumber(num), data
		}
	})
}

func cdRoundTripPrepared(num uint16, data []byte, prepare func(*proto.ChannelData)) (string, string) {
	// library encode → reference decode
	cd := proto.ChannelData{Number: proto.ChannelNumber(num), Data: data}
	prepare(&cd)
	cd.Encode()
	raw := cd.Raw
	if len(raw)%4 != 0 {
		return "cd-encode-align", fmt.Sprintf("encoded length %d is not a multiple of 4 (number %#x, payload %d bytes)", len(raw), num, len(data))
	}
	if len(raw) != 4+((len(data)+3)&^3) {
		return "cd-encode-size", fmt.Sprintf("encoded length %d, want %d (payload %d bytes)", len(raw), 4+((len(data)+3)&^3), len(data))
	}
	if got := int(raw[0])<<8 | int(raw[1]); got != int(num) {
		return "cd-encode-number", fmt.Sprintf("encoded number %#x, want %#x", got, num)
	}
	if got := int(raw[2])<<8 | int(raw[3]); got != len(data) {
		return "cd-encode-length", fmt.Sprintf("length field %d, want payload length %d", got, len(data))
	}
	if !bytes.Equal(raw[4:4+len(data)], data) {
		return "cd-encode-payload", "payload bytes altered by Encode"
	}
	for _, b := range raw[4+len(data):] {
		if b != 0 {
			return "cd-encode-padding", "non-zero padding byte"
		}
	}
	rnum, rdata, rok := ref.DecodeChannelData(raw)
	if ref.ValidChannel(num) {
		if !rok || rnum != num || !bytes.Equal(rdata, data) {
			return "cd-encode-refdecode", fmt.Sprintf("reference decoder disagrees with encoded frame (ok=%v num=%#x len=%d)", rok, rnum, len(rdata))
		}
	}
	// library decode of the library's encoding
	dec := proto.ChannelData{Raw: append([]byte{}, raw...)}
	err := dec.Decode()
	if ref.ValidChannel(num) {
		if err != nil {
			return "cd-roundtrip-err", fmt.Sprintf("Decode(Encode(number %#x, %d bytes)) failed: %v", num, len(data), err)
		}
		if uint16(dec.Number) != num || !bytes.Equal(dec.Data, data) {
			return "cd-roundtrip-value", fmt.Sprintf("round trip changed the value: number %#x→%#x, payload %d→%d bytes", num, uint16(dec.Number), len(data), len(dec.Data))
		}
		if dec.Length != len(data) {
			return "cd-roundtrip-length", fmt.Sprintf("decoded Length %d, want %d", dec.Length, len(data))
		}
	} else if err == nil {
		return "cd-decode-invalid-number", fmt.Sprintf("Decode accepted channel number %#x outside 0x4000-0x7FFF", num)
	}
	// reference encode (unpadded and padded) → library decode
	for _, padded := range []bool{true, false} {
		rr := ref.EncodeChannelData(num, data, padded)
		d2 := proto.ChannelData{Raw: rr}
		err = d2.Decode()
		if ref.ValidChannel(num) {
			if err != nil || uint16(d2.Number) != num || !bytes.Equal(d2.Data, data) {
				return "cd-refencode-decode", fmt.Sprintf("library decoder disagrees with reference frame (padded=%v err=%v num=%#x len=%d want %d)", padded, err, uint16(d2.Number), len(d2.Data), len(data))
			}
		} else if err == nil {
			return "cd-decode-invalid-number", fmt.Sprintf("Decode accepted channel number %#x outside 0x4000-0x7FFF", num)
		}
		if got := proto.IsChannelData(rr); got != ref.ValidChannel(num) {
			return "cd-ischanneldata", fmt.Sprintf("IsChannelData=%v for a complete frame with number %#x", got, num)
		}
	}

	return "", ""
}

func cdRaw(raw []byte) (string, string) {
	rnum, rdata, rok := ref.DecodeChannelData(raw)
	d := proto.ChannelData{Raw: append([]byte{}, raw...)}
	err := d.Decode()
	if (err == nil) != rok {
		return "cd-raw-accept", fmt.Sprintf("Decode err=%v but reference ok=%v for %d-byte buffer %x…", err, rok, len(raw), raw[:min(len(raw), 8)])
	}
	if rok {
		if uint16(d.Number) != rnum || !bytes.Equal(d.Data, rdata) {
			return "cd-raw-value", fmt.Sprintf("Decode yields number %#x / %d bytes, reference %#x / %d bytes", uint16(d.Number), len(d.Data), rnum, len(rdata))
		}
	}
	if got := proto.IsChannelData(raw); got != rok {
		return "cd-raw-ischanneldata", fmt.Sprintf("IsChannelData=%v, reference predicate=%v for %d-byte buffer %x…", got, rok, len(raw), raw[:min(len(raw), 8)])
	}

	return "", ""
}

type attrSpec struct {
	name string
	typ  uint16
	size int // fixed value size, -1 = variable (DATA), -2 = address
}

var attrSpecs = []attrSpec{
	{"CHANNEL-NUMBER", ref.AttrChannelNumber, 4},
	{"LIFETIME", ref.AttrLifetime, 4},
	{"XOR-PEER-ADDRESS", ref.AttrXORPeerAddress, -2},
	{"XOR-RELAYED-ADDRESS", ref.AttrXORRelayedAddress, -2},
	{"DATA", ref.AttrData, -1},
	{"REQUESTED-TRANSPORT", ref.AttrRequestedTransport, 4},
	{"REQUESTED-ADDRESS-FAMILY", ref.AttrRequestedAddressFamily, 4},
	{"EVEN-PORT", ref.AttrEvenPort, 1},
	{"RESERVATION-TOKEN", ref.AttrReservationToken, 8},
	{"CONNECTION-ID", ref.AttrConnectionID, 4},
	{"DONT-FRAGMENT", ref.AttrDontFragment, 0},
}

func specByName(n string) *attrSpec {
	for i := range attrSpecs {
		if attrSpecs[i].name == n {
			return &attrSpecs[i]
		}
	}

	return nil
}

func txidOf(c *C11Case) (id [12]byte) {
	b, _ := hex.DecodeString(c.TxID)
	copy(id[:], b)

	return id
}

// libEncode builds a message with the library codec and returns the attribute's raw value as the
// reference parser sees it.
func libEncode(id [12]byte, s stun.Setter, typ uint16) ([]byte, string) {
	m, err := stun.Build(stun.NewTransactionIDSetter(id), stun.NewType(stun.MethodAllocate, stun.ClassRequest), s)
	if err != nil {
		return nil, "build: " + err.Error()
	}
	pm, err := ref.Parse(m.Raw)
	if err != nil {
		return nil, "reference parser rejects the library's message"
	}
	v, ok := pm.Get(typ)
	if !ok {
		return nil, "attribute missing from the library's message"
	}

	return v, ""
}

// libDecodeMsg wraps a raw attribute value in a reference-built message and decodes the envelope.
func libDecodeMsg(id [12]byte, typ uint16, val []byte, after ...[]byte) (*stun.Message, error) {
	rm := &ref.Msg{Method: ref.MethodAllocate, Class: ref.ClassRequest, TxID: id}
	rm.Add(typ, val)
	for _, a := range after {
		rm.Add(typ, a)
	}
	m := &stun.Message{Raw: rm.Encode()}
	if err := m.Decode(); err != nil {
		return nil, err
	}

	return m, nil
}

func attrValue(c *C11Case) (string, string) { //nolint:cyclop,gocyclo
	sp := specByName(c.Attr)
	if sp == nil {
		return "bad-case", "unknown attribute " + c.Attr
	}
	id := txidOf(c)
	fail := func(kind, f string, a ...any) (string, string) {
		return "attr-" + kind, c.Attr + ": " + fmt.Sprintf(f, a...)
	}
	switch c.Attr {
	case "CHANNEL-NUMBER":
		n := uint16(c.U)
		v, e := libEncode(id, proto.ChannelNumber(n), sp.typ)
		if e != "" {
			return fail("encode", "%s", e)
		}
		if !bytes.Equal(v, ref.ChannelNumberAttr(n)) {
			return fail("encode", "encoded %x, reference %x", v, ref.ChannelNumberAttr(n))
		}
		m, err := libDecodeMsg(id, sp.typ, ref.ChannelNumberAttr(n))
		if err != nil {
			return fail("envelope", "%v", err)
		}
		var got proto.ChannelNumber
		if err := got.GetFrom(m); err != nil || uint16(got) != n {
			return fail("decode", "decoded %#x err=%v, want %#x", uint16(got), err, n)
		}
	case "LIFETIME":
		secs := uint32(c.U)
		lt := proto.Lifetime{Duration: time.Duration(secs) * time.Second}
		v, e := libEncode(id, lt, sp.typ)
		if e != "" {
			return fail("encode", "%s", e)
		}
		if !bytes.Equal(v, ref.U32(secs)) {
			return fail("encode", "encoded %x for %d s, reference %x", v, secs, ref.U32(secs))
		}
		m, err := libDecodeMsg(id, sp.typ, ref.U32(secs))
		if err != nil {
			return fail("envelope", "%v", err)
		}
		var got proto.Lifetime
		if err := got.GetFrom(m); err != nil || got.Duration != time.Duration(secs)*time.Second {
			return fail("decode", "decoded %v err=%v, want %d s", got.Duration, err, secs)
		}
	case "CONNECTION-ID":
		n := uint32(c.U)
		v, e := libEncode(id, proto.ConnectionID(n), sp.typ)
		if e != "" {
			return fail("encode", "%s", e)
		}
		if !bytes.Equal(v, ref.U32(n)) {
			return fail("encode", "encoded %x, reference %x", v, ref.U32(n))
		}
		m, err := libDecodeMsg(id, sp.typ, ref.U32(n))
		if err != nil {
			return fail("envelope", "%v", err)
		}
		var got proto.ConnectionID
		if err := got.GetFrom(m); err != nil || uint32(got) != n {
			return fail("decode", "decoded %#x err=%v, want %#x", uint32(got), err, n)
		}
	case "REQUESTED-TRANSPORT":
		p := byte(c.U)
		v, e := libEncode(id, proto.RequestedTransport{Protocol: proto.Protocol(p)}, sp.typ)
		if e != "" {
			return fail("encode", "%s", e)
		}
		want := []byte{p, 0, 0, 0}
		if !bytes.Equal(v, want) {
			return fail("encode", "encoded %x, reference %x", v, want)
		}
		// RFFU bytes must be ignored on reception
		rffu := []byte{p, byte(c.Port), byte(c.Port >> 8), 0xA5}
		m, err := libDecodeMsg(id, sp.typ, rffu)
		if err != nil {
			return fail("envelope", "%v", err)
		}
		var got proto.RequestedTransport
		if err := got.GetFrom(m); err != nil || byte(got.Protocol) != p {
			return fail("decode", "decoded %d err=%v, want %d", got.Protocol, err, p)
		}
	case "REQUESTED-ADDRESS-FAMILY":
		f := byte(c.U)
		valid := f == 1 || f == 2
		v, e := libEncode(id, proto.RequestedAddressFamily(f), sp.typ)
		if e != "" {
			return fail("encode", "%s", e)
		}
		want := []byte{f, 0, 0, 0}
		if !bytes.Equal(v, want) {
			return fail("encode", "encoded %x, reference %x", v, want)
		}
		m, err := libDecodeMsg(id, sp.typ, want)
		if err != nil {
			return fail("envelope", "%v", err)
		}
		var got proto.RequestedAddressFamily
		err = got.GetFrom(m)
		if valid && (err != nil || byte(got) != f) {
			return fail("decode", "decoded %d err=%v, want %d", got, err, f)
		}
		if !valid && err == nil {
			return fail("decode-invalid", "family value %#x accepted (decoded as %d)", f, got)
		}
	case "EVEN-PORT":
		r := c.U != 0
		v, e := libEncode(id, proto.EvenPort{ReservePort: r}, sp.typ)
		if e != "" {
			return fail("encode", "%s", e)
		}
		if len(v) != 1 || (v[0]&0x80 != 0) != r {
			return fail("encode", "encoded %x for R=%v", v, r)
		}
		wv := []byte{0}
		if r {
			wv[0] = 0x80
		}
		m, err := libDecodeMsg(id, sp.typ, wv)
		if err != nil {
			return fail("envelope", "%v", err)
		}
		var got proto.EvenPort
		if err := got.GetFrom(m); err != nil || got.ReservePort != r {
			return fail("decode", "decoded R=%v err=%v, want %v", got.ReservePort, err, r)
		}
	case "DONT-FRAGMENT":
		v, e := libEncode(id, proto.DontFragment{}, sp.typ)
		if e != "" {
			return fail("encode", "%s", e)
		}
		if len(v) != 0 {
			return fail("encode", "DONT-FRAGMENT encoded with %d value bytes", len(v))
		}
		m, err := libDecodeMsg(id, sp.typ, nil)
		if err != nil {
			return fail("envelope", "%v", err)
		}
		var got proto.DontFragment
		if err := got.GetFrom(m); err != nil || !got.IsSet(m) {
			return fail("decode", "GetFrom err=%v IsSet=%v", err, got.IsSet(m))
		}
	case "RESERVATION-TOKEN":
		tok, _ := hex.DecodeString(c.Val)
		m0 := stun.New()
		err := proto.ReservationToken(tok).AddTo(m0)
		if len(tok) != 8 {
			if err == nil {
				return fail("encode-size", "AddTo accepted a %d-byte token", len(tok))
			}

			return "", ""
		}
		if err != nil {
			return fail("encode", "AddTo rejected an 8-byte token: %v", err)
		}
		v, e := libEncode(id, proto.ReservationToken(tok), sp.typ)
		if e != "" {
			return fail("encode", "%s", e)
		}
		if !bytes.Equal(v, tok) {
			return fail("encode", "encoded %x, want %x", v, tok)
		}
		m, err := libDecodeMsg(id, sp.typ, tok)
		if err != nil {
			return fail("envelope", "%v", err)
		}
		var got proto.ReservationToken
		if err := got.GetFrom(m); err != nil || !bytes.Equal(got, tok) {
			return fail("decode", "decoded %x err=%v, want %x", []byte(got), err, tok)
		}
	case "DATA":
		data, _ := hex.DecodeString(c.Val)
		if c.Val == "" {
			data = synthPayload(c.PayLen, c.PaySeed)
		}
		v, e := libEncode(id, proto.Data(data), sp.typ)
		if e != "" {
			return fail("encode", "%s", e)
		}
		if !bytes.Equal(v, data) {
			return fail("encode", "DATA of %d bytes encoded as %d bytes", len(data), len(v))
		}
		m, err := libDecodeMsg(id, sp.typ, data)
		if err != nil {
			return fail("envelope", "%v", err)
		}
		var got proto.Data
		if err := got.GetFrom(m); err != nil || !bytes.Equal(got, data) {
			return fail("decode", "decoded %d bytes err=%v, want %d bytes", len(got), err, len(data))
		}
	case "XOR-PEER-ADDRESS", "XOR-RELAYED-ADDRESS":
		ip := net.ParseIP(c.IP)
		if ip == nil {
			return "bad-case", "bad ip " + c.IP
		}
		if c.U == 4 && ip.To4() != nil {
			ip = ip.To4() // 4-byte representation
		}
		var setter stun.Setter
		if c.Attr == "XOR-PEER-ADDRESS" {
			setter = proto.PeerAddress{IP: ip, Port: c.Port}
		} else {
			setter = proto.RelayedAddress{IP: ip, Port: c.Port}
		}
		v, e := libEncode(id, setter, sp.typ)
		if e != "" {
			return fail("encode", "%s", e)
		}
		want := ref.XorAddr(ip, c.Port, id)
		if !bytes.Equal(v, want) {
			return fail("encode", "encoded %x for %s:%d, reference %x", v, ip, c.Port, want)
		}
		rip, rport, rerr := ref.UnxorAddr(v, id)
		if rerr != nil || !rip.Equal(ip) || rport != c.Port {
			return fail("encode-refdecode", "reference decodes the library's value as %v:%d (%v), want %v:%d", rip, rport, rerr, ip, c.Port)
		}
		m, err := libDecodeMsg(id, sp.typ, want)
		if err != nil {
			return fail("envelope", "%v", err)
		}
		var gip net.IP
		var gport int
		if c.Attr == "XOR-PEER-ADDRESS" {
			var got proto.PeerAddress
			err = got.GetFrom(m)
			gip, gport = got.IP, got.Port
		} else {
			var got proto.RelayedAddress
			err = got.GetFrom(m)
			gip, gport = got.IP, got.Port
		}
		if err != nil || !gip.Equal(ip) || gport != c.Port {
			return fail("decode", "decoded %v:%d err=%v, want %v:%d", gip, gport, err, ip, c.Port)
		}
	}

	return "", ""
}

// decodeAny decodes attribute sp from m with the library; returns a printable value and a
// re-encoder for the drift check.
// decodeAny decodes into a fresh receiver; decodeDirty into one that already holds something
// (a receiver reused across messages): dirty 1 = a longer earlier value, 2 = an empty value with
// spare capacity, 3 = a shorter earlier value with spare capacity.
func decodeAny(sp *attrSpec, m *stun.Message) (val string, re stun.Setter, err error) {
	return decodeDirty(sp, m, 0)
}

func dirtyBytes(dirty int) []byte {
	switch dirty {
	case 1:
		return bytes.Repeat([]byte{0xEE}, 16)
	case 2:
		return make([]byte, 0, 8)
	case 3:
		return append(make([]byte, 0, 32), 0xDD, 0xDD, 0xDD)
	}

	return nil
}

func decodeDirty(sp *attrSpec, m *stun.Message, dirty int) (val string, re stun.Setter, err error) {
	switch sp.name {
	case "CHANNEL-NUMBER":
		var v proto.ChannelNumber
		if dirty > 0 {
			v = 0x7ABC
		}
		err = v.GetFrom(m)

		return fmt.Sprint(uint16(v)), v, err
	case "LIFETIME":
		var v proto.Lifetime
		if dirty > 0 {
			v.Duration = 777 * time.Second
		}
		err = v.GetFrom(m)

		return v.Duration.String(), v, err
	case "XOR-PEER-ADDRESS":
		var v proto.PeerAddress
		if dirty > 0 {
			v.IP, v.Port = net.IP(dirtyBytes(dirty)), 999
		}
		err = v.GetFrom(m)

		return fmt.Sprintf("%v|%d", []byte(v.IP), v.Port), v, err
	case "XOR-RELAYED-ADDRESS":
		var v proto.RelayedAddress
		if dirty > 0 {
			v.IP, v.Port = net.IP(dirtyBytes(dirty)), 999
		}
		err = v.GetFrom(m)

		return fmt.Sprintf("%v|%d", []byte(v.IP), v.Port), v, err
	case "DATA":
		var v proto.Data
		if dirty > 0 {
			v = proto.Data(dirtyBytes(dirty))
		}
		err = v.GetFrom(m)

		return hex.EncodeToString(v), v, err
	case "REQUESTED-TRANSPORT":
		var v proto.RequestedTransport
		if dirty > 0 {
			v.Protocol = 99
		}
		err = v.GetFrom(m)

		return fmt.Sprint(byte(v.Protocol)), v, err
	case "REQUESTED-ADDRESS-FAMILY":
		var v proto.RequestedAddressFamily
		if dirty > 0 {
			v = proto.RequestedAddressFamily(byte(dirty))
		}
		err = v.GetFrom(m)

		return fmt.Sprint(byte(v)), v, err
	case "EVEN-PORT":
		var v proto.EvenPort
		if dirty > 0 {
			v.ReservePort = true
		}
		err = v.GetFrom(m)

		return fmt.Sprint(v.ReservePort), v, err
	case "RESERVATION-TOKEN":
		var v proto.ReservationToken
		if dirty > 0 {
			v = proto.ReservationToken(dirtyBytes(dirty))
		}
		err = v.GetFrom(m)

		return hex.EncodeToString(v), v, err
	case "CONNECTION-ID":
		var v proto.ConnectionID
		if dirty > 0 {
			v = 0xDEADBEEF
		}
		err = v.GetFrom(m)

		return fmt.Sprint(uint32(v)), v, err
	case "DONT-FRAGMENT":
		var v proto.DontFragment
		err = v.GetFrom(m)

		return "set", v, err
	}

	return "", nil, fmt.Errorf("unknown attribute")
}

// attrRaw: an arbitrary byte string as the value of attribute c.Attr in an otherwise valid message.
func attrRaw(c *C11Case) (string, string) {
	sp := specByName(c.Attr)
	if sp == nil {
		return "bad-case", "unknown attribute " + c.Attr
	}
	id := txidOf(c)
	val, _ := hex.DecodeString(c.Val)
	var after [][]byte
	if c.After != "" {
		a, _ := hex.DecodeString(c.After)
		after = append(after, a)
	}
	m, err := libDecodeMsg(id, sp.typ, val, after...)
	if err != nil {
		return "attr-envelope", fmt.Sprintf("%s: well-formed envelope with a %d-byte value rejected: %v", c.Attr, len(val), err)
	}
	got, re, derr := decodeAny(sp, m)
	for dirty := 1; dirty <= 3; dirty++ {
		// the verdict and the value must not depend on what the receiver held before
		if g2, _, e2 := decodeDirty(sp, m, dirty); (e2 == nil) != (derr == nil) || (derr == nil && g2 != got) {
			return "attr-decode-depends-on-receiver", fmt.Sprintf("%s: value %x decodes as %s (err %v) into a fresh receiver but as %s (err %v) into a reused one (variant %d)", c.Attr, val, got, derr, g2, e2, dirty)
		}
	}
	wrongSize := false
	switch sp.size {
	case -1:
	case -2:
		// exact sizes for the two families; anything else is wrong-sized
		wrongSize = !(len(val) == 8 || len(val) == 20)
		if !wrongSize {
			fam := int(val[0])<<8 | int(val[1])
			if (fam == 1) != (len(val) == 8) && (fam == 1 || fam == 2) {
				wrongSize = true // IPv4 family with 16 address bytes or IPv6 family with 4
			}
		}
	default:
		wrongSize = len(val) != sp.size
	}
	if wrongSize {
		if derr == nil {
			return "attr-raw-wrong-size-accepted", fmt.Sprintf("%s: %d-byte value %x decoded without error as %s", c.Attr, len(val), val, got)
		}

		return "", ""
	}
	if derr != nil {
		// right-sized arbitrary bytes may be rejected (bad family, invalid enum)
		return "", ""
	}
	// no silent drift: re-encode the decoded value, decode again, must be the same value
	if sp.name == "RESERVATION-TOKEN" || sp.name == "DATA" || sp.size >= 0 || sp.size == -2 {
		m2, berr := stun.Build(stun.NewTransactionIDSetter(id), stun.NewType(stun.MethodAllocate, stun.ClassRequest), re)
		if berr != nil {
			return "attr-raw-reencode", fmt.Sprintf("%s: decoded value %s cannot be re-encoded: %v", c.Attr, got, berr)
		}
		m3 := &stun.Message{Raw: append([]byte{}, m2.Raw...)}
		if err := m3.Decode(); err != nil {
			return "attr-raw-reencode", fmt.Sprintf("%s: re-encoded message does not decode: %v", c.Attr, err)
		}
		got2, _, derr2 := decodeAny(sp, m3)
		if derr2 != nil || got2 != got {
			return "attr-raw-drift", fmt.Sprintf("%s: value %x decodes as %s but re-encodes to something that decodes as %s (err %v)", c.Attr, val, got, got2, derr2)
		}
	}
	// EVEN-PORT: the R bit is the top bit; the other seven are reserved and ignored on reception
	if sp.name == "EVEN-PORT" {
		if want := fmt.Sprint(val[0]&0x80 != 0); got != want {
			return "attr-raw-value", fmt.Sprintf("EVEN-PORT: value %#02x decodes as R=%s, the R bit (0x80) says %s", val[0], got, want)
		}
	}
	// reference agreement for the address attributes
	if sp.size == -2 {
		rip, rport, rerr := ref.UnxorAddr(val, id)
		if rerr == nil {
			want := fmt.Sprintf("%v|%d", []byte(rip), rport)
			if got != want {
				return "attr-raw-value", fmt.Sprintf("%s: value %x decodes as %s, reference %s", c.Attr, val, got, want)
			}
		} else {
			return "attr-raw-malformed-accepted", fmt.Sprintf("%s: malformed value %x decoded without error as %s", c.Attr, val, got)
		}
	}

	return "", ""
}

func hashC11(c *C11Case) uint64 {
	return vkit.Mix(vkit.MixBytes([]byte(c.Kind)), uint64(c.Number), vkit.MixBytes([]byte(c.Payload)), uint64(c.PayLen), c.PaySeed,
		vkit.MixBytes([]byte(c.Raw)), vkit.MixBytes([]byte(c.Attr)), c.U, vkit.MixBytes([]byte(c.IP)), uint64(c.Port),
		vkit.MixBytes([]byte(c.TxID)), vkit.MixBytes([]byte(c.Val)), vkit.MixBytes([]byte(c.After)))
}

func c11Report(r *vkit.Run, c *C11Case) bool {
	r.Eval(1)
	r.Label(c.Kind)
	r.NonTrivial(hashC11(c))
	kind, msg := runC11(c)
	if kind == "" {
		return true
	}
	if r.IsKnown("C11." + kind) {
		return true
	}
	r.Violate(kind, msg, c)

	return false
}

var c11Lengths = []int{0, 1, 2, 3, 4, 5, 6, 7, 8}

func genC11(rt *rapid.T) *C11Case {
	c := &C11Case{}
	kind := rapid.SampledFrom([]string{"cd-roundtrip", "cd-raw", "cd-raw", "attr-value", "attr-value", "attr-raw", "attr-raw"}).Draw(rt, "kind")
	c.Kind = kind
	idb := rapid.SliceOfN(rapid.Byte(), 12, 12).Draw(rt, "txid")
	c.TxID = hex.EncodeToString(idb)
	numGen := rapid.OneOf(
		rapid.Uint16(),
		rapid.Uint16Range(0x4000, 0x7FFF),
		rapid.SampledFrom([]uint16{0, 1, 0x3FFF, 0x4000, 0x4001, 0x7FFE, 0x7FFF, 0x8000, 0xFFFF, 0x2112, 0x0001, 0x0101, 0x0003}),
	)
	lenGen := rapid.OneOf(
		rapid.IntRange(0, 72),
		rapid.IntRange(0, 72),
		rapid.IntRange(1490, 1610),
		rapid.IntRange(0, 65535),
		rapid.SampledFrom([]int{65531, 65532, 65533, 65534, 65535, 4095, 4096, 4097, 32767, 32768}),
	)
	switch kind {
	case "cd-roundtrip":
		c.Number = numGen.Draw(rt, "number")
		n := lenGen.Draw(rt, "len")
		if n <= 64 {
			c.Payload = hex.EncodeToString(rapid.SliceOfN(rapid.Byte(), n, n).Draw(rt, "payload"))
			if n == 0 {
				c.PayLen = 0
			}
		} else {
			c.PayLen = n
			c.PaySeed = rapid.Uint64().Draw(rt, "pseed")
		}
	case "cd-raw":
		num := numGen.Draw(rt, "number")
		declared := rapid.OneOf(rapid.IntRange(0, 40), rapid.IntRange(0, 65535), rapid.SampledFrom([]int{0xFFFF, 0xFFFC, 0xFFFE, 0x8000, 0x0100})).Draw(rt, "declared")
		rel := rapid.SampledFrom([]string{"exact", "short1", "shortmany", "padded", "long", "headeronly", "tiny"}).Draw(rt, "rel")
		actual := declared
		switch rel {
		case "short1":
			actual = declared - 1
		case "shortmany":
			actual = rapid.IntRange(0, max(declared-1, 0)).Draw(rt, "actual")
		case "padded":
			actual = (declared + 3) &^ 3
		case "long":
			actual = declared + rapid.IntRange(1, 9).Draw(rt, "extra")
		case "headeronly":
			actual = 0
		}
		if actual < 0 {
			actual = 0
		}
		if actual > 2000 && rel != "exact" {
			actual = 2000 + actual%64
		}
		raw := make([]byte, 4, 4+actual)
		raw[0], raw[1] = byte(num>>8), byte(num)
		raw[2], raw[3] = byte(declared>>8), byte(declared)
		raw = append(raw, synthPayload(actual, rapid.Uint64().Draw(rt, "pseed"))...)
		if rel == "tiny" {
			raw = raw[:rapid.IntRange(0, 3).Draw(rt, "tinylen")]
		}
		c.Raw = hex.EncodeToString(raw)
	case "attr-value":
		sp := rapid.SampledFrom(attrSpecs).Draw(rt, "attr")
		c.Attr = sp.name
		switch sp.name {
		case "CHANNEL-NUMBER":
			c.U = uint64(numGen.Draw(rt, "v"))
		case "LIFETIME", "CONNECTION-ID":
			c.U = uint64(rapid.OneOf(rapid.Uint32(), rapid.SampledFrom([]uint32{0, 1, 59, 60, 599, 600, 3599, 3600, 3601, 65535, 65536, 65537, 1<<31 - 1, 1 << 31, 1<<31 + 1, 1<<32 - 1})).Draw(rt, "v"))
		case "REQUESTED-TRANSPORT":
			c.U = uint64(rapid.Byte().Draw(rt, "v"))
			c.Port = int(rapid.Uint16().Draw(rt, "rffu"))
		case "REQUESTED-ADDRESS-FAMILY":
			c.U = uint64(rapid.OneOf(rapid.Byte(), rapid.SampledFrom([]byte{0, 1, 2, 3})).Draw(rt, "v"))
		case "EVEN-PORT":
			c.U = uint64(rapid.IntRange(0, 1).Draw(rt, "v"))
		case "RESERVATION-TOKEN":
			n := rapid.OneOf(rapid.Just(8), rapid.Just(8), rapid.IntRange(0, 20)).Draw(rt, "toklen")
			c.Val = hex.EncodeToString(rapid.SliceOfN(rapid.Byte(), n, n).Draw(rt, "tok"))
		case "DATA":
			n := lenGen.Draw(rt, "len")
			if n > 65000 {
				n = 65000 // must fit in one STUN message together with the header
			}
			if n <= 64 {
				c.Val = hex.EncodeToString(rapid.SliceOfN(rapid.Byte(), n, n).Draw(rt, "data"))
				if n == 0 {
					c.PayLen = 0
				}
			} else {
				c.PayLen = n
				c.PaySeed = rapid.Uint64().Draw(rt, "pseed")
			}
		case "XOR-PEER-ADDRESS", "XOR-RELAYED-ADDRESS":
			fam := rapid.SampledFrom([]string{"v4", "v4", "v6", "mapped", "near-mapped"}).Draw(rt, "fam")
			switch fam {
			case "v4":
				b := rapid.SliceOfN(rapid.Byte(), 4, 4).Draw(rt, "ip")
				c.IP = net.IP(b).String()
				c.U = 4
			case "mapped":
				b := rapid.SliceOfN(rapid.Byte(), 4, 4).Draw(rt, "ip")
				c.IP = net.IP(b).String()
				c.U = 16
			case "near-mapped":
				// a genuine IPv6 address one step away from the IPv4-mapped / IPv4-compatible shapes
				b := make([]byte, 16)
				copy(b[12:], rapid.SliceOfN(rapid.Byte(), 4, 4).Draw(rt, "ip"))
				if rapid.IntRange(0, 3).Draw(rt, "ffff") > 0 {
					b[10], b[11] = 0xff, 0xff
				}
				at := rapid.IntRange(0, 11).Draw(rt, "nearAt")
				b[at] ^= byte(rapid.IntRange(1, 255).Draw(rt, "nearXor"))
				if net.IP(b).To4() != nil {
					b[0] = 0x20
				}
				c.IP = net.IP(b).String()
				c.U = 16
			default:
				b := rapid.SliceOfN(rapid.Byte(), 16, 16).Draw(rt, "ip")
				ip := net.IP(b)
				if ip.To4() != nil {
					b[0] = 0x20
				}
				c.IP = net.IP(b).String()
				c.U = 16
			}
			c.Port = rapid.OneOf(rapid.IntRange(0, 65535), rapid.SampledFrom([]int{0, 1, 0x2112, 0x2113, 65535, 3478, 49152})).Draw(rt, "port")
		}
	case "attr-raw":
		sp := rapid.SampledFrom(attrSpecs).Draw(rt, "attr")
		c.Attr = sp.name
		n := rapid.OneOf(rapid.IntRange(0, 64), rapid.IntRange(0, 24)).Draw(rt, "vlen")
		v := rapid.SliceOfN(rapid.Byte(), n, n).Draw(rt, "val")
		if sp.size == -2 && n >= 2 && rapid.IntRange(0, 3).Draw(rt, "famfix") > 0 {
			v[0] = 0
			v[1] = byte(rapid.IntRange(0, 3).Draw(rt, "fam"))
		}
		c.Val = hex.EncodeToString(v)
		if rapid.IntRange(0, 3).Draw(rt, "second") == 0 {
			// a second, well-formed occurrence of the attribute behind the one under test
			switch {
			case sp.size == -2:
				a := rapid.SliceOfN(rapid.Byte(), 8, 8).Draw(rt, "after")
				a[0], a[1] = 0, 1
				if rapid.Bool().Draw(rt, "after6") {
					a = append(a, rapid.SliceOfN(rapid.Byte(), 12, 12).Draw(rt, "after6b")...)
					a[1] = 2
				}
				c.After = hex.EncodeToString(a)
			case sp.size > 0:
				c.After = hex.EncodeToString(rapid.SliceOfN(rapid.Byte(), sp.size, sp.size).Draw(rt, "afterN"))
			}
		}
	}

	return c
}

func TestC11(t *testing.T) { //nolint:cyclop,gocyclo
	r := vkit.Start(t, "C11")
	defer r.Finish()
	r.Assume("attribute envelopes (STUN header, TLV walk) are decoded by pion/stun, which is outside the repository; only TURN attribute codecs of internal/proto are judged")
	r.Assume("values are decoded into fresh zero values, as every call site in pion/turn does")

	if r.Replay != "" {
		var c C11Case
		if err := vkit.LoadJSON(r.Replay, &c); err != nil {
			t.Fatalf("cannot load replay: %v", err)
		}
		kind, msg := runC11(&c)
		r.Eval(1)
		fmt.Printf("replay %s: kind=%q %s\n", r.Replay, kind, msg)
		if kind != "" && !r.IsKnown("C11."+kind) {
			r.Violate(kind, msg, &c)
		}

		return
	}
	for _, f := range r.RegressFiles(".json") {
		var c C11Case
		if err := vkit.LoadJSON(f, &c); err != nil {
			t.Fatalf("bad regress file %s: %v", f, err)
		}
		r.Label("regress")
		c11Report(r, &c)
	}
	if r.Violations() > 0 {
		return
	}

	// Exhaustive sweeps (sharded over the channel-number space).
	ok := true
	lens := append([]int{}, c11Lengths...)
	if r.Thorough() {
		lens = append(lens, 1499, 1500, 1501)
	}
	for num := r.Shard; num < 65536 && ok; num += r.NShards {
		for _, n := range lens {
			c := &C11Case{Kind: "cd-roundtrip", Number: uint16(num), PayLen: n, PaySeed: uint64(num)*131 + uint64(n)}
			if n == 0 {
				c.PaySeed = 0
			}
			if !c11Report(r, c) {
				ok = false

				break
			}
		}
		// raw headers: declared length vs actual length
		for _, declared := range []int{0, 1, 3, 4, 5, 8, 0xFFFF} {
			for _, actual := range []int{0, declared - 1, declared, (declared + 3) &^ 3, declared + 5} {
				if actual < 0 || actual > 64 {
					continue
				}
				raw := []byte{byte(num >> 8), byte(num), byte(declared >> 8), byte(declared)}
				raw = append(raw, synthPayload(actual, uint64(num)+7)...)
				if !c11Report(r, &C11Case{Kind: "cd-raw", Raw: hex.EncodeToString(raw)}) {
					ok = false
				}
			}
		}
		// CHANNEL-NUMBER attribute for every number
		if !c11Report(r, &C11Case{Kind: "attr-value", Attr: "CHANNEL-NUMBER", U: uint64(num), TxID: "000102030405060708090a0b"}) {
			ok = false
		}
	}
	// largest payloads: numbers sampled (edges + stride)
	stride := 4096
	if r.Thorough() {
		stride = 16
	}
	for num := r.Shard * (stride / max(r.NShards, 1)); num < 65536 && ok; num += stride {
		for _, n := range []int{65531, 65532, 65533, 65534, 65535} {
			if !c11Report(r, &C11Case{Kind: "cd-roundtrip", Number: uint16(num), PayLen: n, PaySeed: uint64(num) + 99}) {
				ok = false
			}
		}
	}
	for _, num := range []int{0x3FFF, 0x4000, 0x7FFF, 0x8000} {
		if r.Shard == 0 && ok {
			if !c11Report(r, &C11Case{Kind: "cd-roundtrip", Number: uint16(num), PayLen: 65535, PaySeed: 5}) {
				ok = false
			}
		}
	}
	// every raw value length 0..64 under every attribute type, all 256 family/protocol bytes
	if r.Shard == 0 && ok {
		for _, sp := range attrSpecs {
			for n := 0; n <= 64 && ok; n++ {
				for variant := 0; variant < 4 && ok; variant++ {
					v := synthPayload(n, uint64(n*7+variant))
					if sp.size == -2 && n >= 2 {
						v[0] = 0
						v[1] = byte(variant)
					}
					if !c11Report(r, &C11Case{Kind: "attr-raw", Attr: sp.name, Val: hex.EncodeToString(v), TxID: "a1a2a3a4a5a6a7a8a9aaabac"}) {
						ok = false
					}
					if sp.size == -2 && ok {
						// the same value followed by a well-formed IPv4 / IPv6 occurrence
						for _, after := range []string{"0001a1b2c3d4e5f6", "0002a1b2c3d4e5f60718293a4b5c6d7e8f90a1b2"} {
							if !c11Report(r, &C11Case{Kind: "attr-raw", Attr: sp.name, Val: hex.EncodeToString(v), After: after, TxID: "a1a2a3a4a5a6a7a8a9aaabac"}) {
								ok = false
							}
						}
					}
				}
			}
		}
		for b := 0; b < 256; b++ {
			for _, a := range []string{"REQUESTED-TRANSPORT", "REQUESTED-ADDRESS-FAMILY"} {
				if !c11Report(r, &C11Case{Kind: "attr-value", Attr: a, U: uint64(b), Port: b * 257, TxID: "a1a2a3a4a5a6a7a8a9aaabac"}) {
					ok = false
				}
			}
		}
		for _, a := range []string{"EVEN-PORT", "DONT-FRAGMENT"} {
			for u := 0; u < 2; u++ {
				c11Report(r, &C11Case{Kind: "attr-value", Attr: a, U: uint64(u), TxID: "a1a2a3a4a5a6a7a8a9aaabac"})
			}
		}
		for _, secs := range []uint64{0, 1, 2, 59, 60, 599, 600, 601, 3599, 3600, 3601, 65535, 65536, 65537, 86400, 1<<31 - 1, 1 << 31, 1<<31 + 1, 1<<32 - 2, 1<<32 - 1} {
			c11Report(r, &C11Case{Kind: "attr-value", Attr: "LIFETIME", U: secs, TxID: "a1a2a3a4a5a6a7a8a9aaabac"})
			c11Report(r, &C11Case{Kind: "attr-value", Attr: "CONNECTION-ID", U: secs, TxID: "a1a2a3a4a5a6a7a8a9aaabac"})
		}
		for n := 0; n <= 1500; n++ {
			c11Report(r, &C11Case{Kind: "attr-value", Attr: "DATA", PayLen: n, PaySeed: uint64(n) + 3, Val: map[bool]string{true: "", false: ""}[n == 0], TxID: "a1a2a3a4a5a6a7a8a9aaabac"})
		}
	}
	if !ok || r.Violations() > 0 {
		return
	}

	// Random search over the whole domain.
	r.Rapid(t, "random", 0, r.Checks, func(rt *rapid.T) {
		c := genC11(rt)
		r.Journal(c)
		r.Eval(1)
		r.Label(c.Kind)
		if c.Attr != "" {
			r.Label(c.Kind + ":" + c.Attr)
		}
		r.NonTrivial(hashC11(c))
		r.Sample(c.Kind, func() any { return c })
		kind, msg := runC11(c)
		if kind != "" && !r.IsKnown("C11."+kind) {
			r.NoteFail(kind, msg, c)
			rt.Fatalf("C11 %s", kind)
		}
	})
}
