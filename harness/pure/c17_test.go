package pure

import (
	"bytes"
	"crypto/hmac"
	"crypto/sha1" //nolint:gosec
	"encoding/base64"
	"fmt"
	"net"
	"strconv"
	"strings"
	"testing"
	"testing/synctest"
	"time"

	"github.com/pion/stun/v3"
	"github.com/pion/turn/v5"
	"github.com/pion/turn/v5/internal/zzverif/ref"
	"github.com/pion/turn/v5/internal/zzverif/sim"
	"github.com/pion/turn/v5/internal/zzverif/vkit"
	"pgregory.net/rapid"
)

// C17Case is one credential scenario; also the replay format.
type C17Case struct {
	Kind       string  `json:"kind"` // plain | rest
	Secret     string  `json:"secret"`
	Secret2    string  `json:"secret2"`
	User       string  `json:"user"`
	Realm      string  `json:"realm"`
	DurationS  int64   `json:"duration_s"`
	DurationMs int     `json:"duration_ms,omitempty"` // added to DurationS: durations are not whole seconds in general
	OffsetMs   int     `json:"offset_ms"`             // generation happens this long after a whole second
	Window     int     `json:"window"`                // probe every second in [expiry-window, expiry+window]
	Extra      []int64 `json:"extra,omitempty"`       // further probe instants, seconds relative to expiry
	MethodSeed uint8   `json:"method_seed,omitempty"` // where the cycle through request methods starts
}

func refPassword(secret, username string) string {
	m := hmac.New(sha1.New, []byte(secret))
	m.Write([]byte(username))

	return base64.StdEncoding.EncodeToString(m.Sum(nil))
}

func runC17(t *testing.T, c *C17Case) (kind, msg string) {
	t.Helper()
	defer func() {
		if p := recover(); p != nil {
			kind, msg = "panic", fmt.Sprint(p)
		}
	}()
	synctest.Test(t, func(t *testing.T) {
		kind, msg = runC17Inner(c)
	})

	return kind, msg
}

func runC17Inner(c *C17Case) (string, string) { //nolint:cyclop,gocyclo
	log := sim.NewLogger(0).NewLogger("c17")
	time.Sleep(time.Duration(c.OffsetMs) * time.Millisecond)
	genAt := time.Now()
	dur := time.Duration(c.DurationS)*time.Second + time.Duration(c.DurationMs)*time.Millisecond
	var username, password string
	var err error
	var handler turn.AuthHandler
	if c.Kind == "rest" {
		username, password, err = turn.GenerateLongTermTURNRESTCredentials(c.Secret, c.User, dur)
		handler = turn.LongTermTURNRESTAuthHandler(c.Secret, log)
	} else {
		username, password, err = turn.GenerateLongTermCredentials(c.Secret, dur)
		handler = turn.NewLongTermAuthHandler(c.Secret, log)
	}
	if err != nil {
		return "generate-error", err.Error()
	}
	expiry := genAt.Add(dur) // the credential's expiry time
	expUnix := expiry.Unix()
	wantUser := strconv.FormatInt(expUnix, 10)
	if c.Kind == "rest" {
		wantUser += ":" + c.User
	}
	if username != wantUser {
		return "username-format", fmt.Sprintf("generated username %q, expected %q (expiry %v)", username, wantUser, expiry.UTC())
	}
	if want := refPassword(c.Secret, username); password != want {
		return "password", fmt.Sprintf("generated password %q, HMAC-SHA1(secret, username) is %q", password, want)
	}
	wantKey := ref.LongTermKey(username, c.Realm, password)
	// the handler sees the request's method and source; its verdict must not depend on them
	// (cycled through every method the server authenticates, per call)
	methods := []stun.Method{0, stun.MethodAllocate, stun.MethodRefresh, stun.MethodCreatePermission, stun.MethodChannelBind,
		stun.MethodConnect, stun.MethodConnectionBind, stun.MethodBinding, stun.MethodSend}
	askN := int(c.MethodSeed)
	ask := func(user string) (string, []byte, bool) {
		askN++

		return handler(&turn.RequestAttributes{Username: user, Realm: c.Realm, Method: methods[askN%len(methods)],
			SrcAddr: &net.UDPAddr{IP: net.IPv4(10, 1, 0, byte(askN%250+1)), Port: 5000 + askN%7}})
	}
	// --- mutations, judged at generation time (credential unexpired iff duration >= 0)
	_, key0, ok0 := ask(username)
	alive := !time.Now().After(time.Unix(expUnix, 0)) || time.Now().Unix() <= expUnix
	if ok0 != (time.Now().Unix() <= expUnix) {
		return "validity-at-generation", fmt.Sprintf("handler says ok=%v at generation time %v for expiry %v", ok0, time.Now().UTC(), expiry.UTC())
	}
	_ = alive
	if ok0 && !bytes.Equal(key0, wantKey) {
		return "key", fmt.Sprintf("handler returned key %x, MD5(username:realm:password) is %x", key0, wantKey)
	}
	for _, mu := range mutations(username) {
		if mu == username {
			continue
		}
		_, k, ok := ask(mu)
		if !ok {
			continue
		}
		// accepted as some other credential: the ORIGINAL password must not verify for it
		if bytes.Equal(k, ref.LongTermKey(mu, c.Realm, password)) {
			return "mutated-username-authenticates", fmt.Sprintf("username %q (mutated from %q) authenticates with the original password", mu, username)
		}
		if !bytes.Equal(k, ref.LongTermKey(mu, c.Realm, refPassword(c.Secret, mu))) {
			return "mutated-username-key", fmt.Sprintf("username %q accepted with a key that is not the long-term key of its own password", mu)
		}
	}
	if ok0 {
		for _, mp := range mutations(password) {
			if mp != password && bytes.Equal(key0, ref.LongTermKey(username, c.Realm, mp)) {
				return "mutated-password-authenticates", fmt.Sprintf("password %q (mutated) verifies", mp)
			}
		}
		// credentials minted with another secret, or for another user name
		// HMAC zero-pads short keys, so secrets differing only in trailing NUL bytes are the same key
		if strings.TrimRight(c.Secret2, "\x00") != strings.TrimRight(c.Secret, "\x00") && len(c.Secret) <= 64 && len(c.Secret2) <= 64 {
			if bytes.Equal(key0, ref.LongTermKey(username, c.Realm, refPassword(c.Secret2, username))) {
				return "other-secret-authenticates", "a password derived from another secret verifies"
			}
		}
		other := username + "x"
		if bytes.Equal(key0, ref.LongTermKey(username, c.Realm, refPassword(c.Secret, other))) {
			return "other-username-authenticates", "a password derived for another username verifies"
		}
	}
	// --- the same handler asked about neighbouring (username, realm) pairs whose concatenations
	// coincide: each answer is about its own pair, whatever was asked before
	if ok0 {
		askPair := func(user, realm string) (string, string) {
			_, k, ok := handler(&turn.RequestAttributes{Username: user, Realm: realm, Method: stun.MethodAllocate,
				SrcAddr: &net.UDPAddr{IP: net.IPv4(10, 1, 0, 9), Port: 5000}})
			if ok && !bytes.Equal(k, ref.LongTermKey(user, realm, refPassword(c.Secret, user))) {
				return "key-of-another-pair", fmt.Sprintf("asked about (%q, %q) right after a neighbouring pair, the handler returned a key that is not the long-term key of that username, realm and its own password", user, realm)
			}

			return "", ""
		}
		var pairs [][2]string
		if c.Kind == "rest" && c.User != "" {
			last := username[len(username)-1:]
			pairs = [][2]string{{username, c.Realm}, {username[:len(username)-1], last + c.Realm}, {username, c.Realm}}
		} else if c.Kind != "rest" {
			pairs = [][2]string{{username, "0" + c.Realm}, {username + "0", c.Realm}, {username, "0" + c.Realm}}
		}
		for _, pr := range pairs {
			if k, m := askPair(pr[0], pr[1]); k != "" {
				return k, m
			}
		}
	}
	// --- validity window: every whole second around the expiry
	var probes []int64
	for d := int64(-c.Window); d <= int64(c.Window); d++ {
		probes = append(probes, expUnix+d)
	}
	for _, e := range c.Extra {
		probes = append(probes, expUnix+e)
	}
	sortInt64(probes)
	for _, s := range probes {
		at := time.Unix(s, 0)
		if at.Before(time.Now()) {
			continue
		}
		time.Sleep(time.Until(at))
		_, k, ok := ask(username)
		want := s <= expUnix // at whole-second instants: valid up to and including the expiry second
		if ok != want {
			return "validity-window", fmt.Sprintf("at %v (expiry %v, %+d s) the handler says ok=%v, expected %v", at.UTC(), expiry.UTC(), s-expUnix, ok, want)
		}
		if ok && !bytes.Equal(k, wantKey) {
			return "key", fmt.Sprintf("at %+d s the handler returned a different key", s-expUnix)
		}
	}

	return "", ""
}

func sortInt64(a []int64) {
	for i := 1; i < len(a); i++ {
		for j := i; j > 0 && a[j] < a[j-1]; j-- {
			a[j], a[j-1] = a[j-1], a[j]
		}
	}
}

// mutations: every single-character substitution, insertion and deletion.
func mutations(s string) []string {
	var out []string
	alphabet := []byte("0129:aZ+- ")
	b := []byte(s)
	for i := 0; i <= len(b); i++ {
		for _, ch := range alphabet {
			out = append(out, string(b[:i])+string(ch)+string(b[i:]))
			if i < len(b) && b[i] != ch {
				out = append(out, string(b[:i])+string(ch)+string(b[i+1:]))
			}
		}
		if i < len(b) {
			out = append(out, string(b[:i])+string(b[i+1:]))
			if b[i] >= '0' && b[i] <= '9' {
				out = append(out, string(b[:i])+string('0'+(b[i]-'0'+1)%10)+string(b[i+1:]))
			}
		}
	}

	return out
}

func genC17(rt *rapid.T) *C17Case {
	str := rapid.OneOf(
		rapid.StringMatching(`[a-zA-Z0-9]{0,12}`),
		rapid.SampledFrom([]string{"", "a", "user:name", ":", "ünï", "1700000000", "a b", "x:y:z"}),
		rapid.StringN(0, 8, 24),
	)
	c := &C17Case{
		Kind:    rapid.SampledFrom([]string{"plain", "rest"}).Draw(rt, "kind"),
		Secret:  str.Draw(rt, "secret"),
		Secret2: str.Draw(rt, "secret2"),
		User:    str.Draw(rt, "user"),
		Realm:   rapid.SampledFrom([]string{"pion.ly", "", "sim.realm", "r:x", "Pion.LY", "EXAMPLE.ORG", "ünï.example"}).Draw(rt, "realm"),
	}
	c.MethodSeed = uint8(rapid.IntRange(0, 8).Draw(rt, "methodSeed")) //nolint:gosec
	c.DurationS = rapid.OneOf(
		rapid.Int64Range(-100, 100),
		rapid.Int64Range(0, 86400),
		rapid.SampledFrom([]int64{-86400, -1, 0, 1, 2, 59, 60, 3600, 86400, 315360000, 630720000, 1200798847, 1200798848, 1200798849, 1262304000, 3153600000}),
		rapid.Int64Range(0, 4000000000),
	).Draw(rt, "duration")
	c.OffsetMs = rapid.SampledFrom([]int{0, 0, 1, 250, 500, 999}).Draw(rt, "offset")
	if c.DurationS > -1000000 && c.DurationS < 4000000000 && rapid.IntRange(0, 2).Draw(rt, "fractional") == 0 {
		c.DurationMs = rapid.SampledFrom([]int{1, 250, 500, 750, 999, -1, -250, -500, -999}).Draw(rt, "durMs")
	}
	c.Window = 5
	n := rapid.IntRange(0, 3).Draw(rt, "nextra")
	for i := 0; i < n; i++ {
		c.Extra = append(c.Extra, rapid.Int64Range(-4000, 4000).Draw(rt, "extra"))
	}

	return c
}

func c17NonTrivial(c *C17Case) bool {
	return c.DurationS >= -5 // the probe window reaches instants at which the credential is/was valid
}

func TestC17(t *testing.T) {
	r := vkit.Start(t, "C17")
	defer r.Finish()
	r.Assume("validity is judged at whole-second instants of the virtual clock (the username carries whole seconds); between the expiry instant and the end of its second the handler's answer is not judged")
	do := func(c *C17Case, sample string) (string, string) {
		r.Eval(1)
		r.Label("kind:" + c.Kind)
		if c.DurationMs != 0 {
			r.Label("duration-with-a-fraction-of-a-second")
		}
		if c17NonTrivial(c) {
			r.NonTrivial(vkit.Hash64(c))
			if strings.Contains(c.User, ":") {
				r.Label("user-with-colon")
			}
			if sample != "" {
				r.Sample(sample+":"+c.Kind, func() any { return c })
			}
		}
		kind, msg := runC17(t, c)
		if kind != "" && r.IsKnown("C17."+kind) {
			return "", ""
		}

		return kind, msg
	}
	if r.Replay != "" {
		var c C17Case
		if err := vkit.LoadJSON(r.Replay, &c); err != nil {
			t.Fatalf("cannot load replay: %v", err)
		}
		kind, msg := do(&c, "")
		fmt.Printf("replay %s: kind=%q %s\n", r.Replay, kind, msg)
		if kind != "" {
			r.Violate(kind, msg, &c)
		}

		return
	}
	for _, f := range r.RegressFiles(".json") {
		var c C17Case
		if err := vkit.LoadJSON(f, &c); err != nil {
			t.Fatalf("bad regress file %s: %v", f, err)
		}
		if kind, msg := do(&c, ""); kind != "" {
			r.Violate(kind, msg, &c)
		}
	}
	r.Rapid(t, "random", 0, r.Checks, func(rt *rapid.T) {
		c := genC17(rt)
		r.Journal(c)
		kind, msg := do(c, "random")
		if kind != "" {
			r.NoteFail(kind, msg, c)
			rt.Fatalf("C17 %s", kind)
		}
	})
}

// TestC17Concurrent: the server calls one auth handler from a goroutine per listener / stream
// connection, so the handler must give the same answers under concurrent use.
func TestC17Concurrent(t *testing.T) {
	r := vkit.Start(t, "C17")
	defer r.Finish()
	if r.Replay != "" {
		fmt.Println("REPLAY-NOT-MINE: the concurrent stage has no replayable case")

		return
	}
	log := sim.NewLogger(0).NewLogger("c17")
	for _, kind := range []string{"plain", "rest"} {
		secret := fmt.Sprintf("secret-%d-%s", r.Seed, kind)
		var handler turn.AuthHandler
		if kind == "rest" {
			handler = turn.LongTermTURNRESTAuthHandler(secret, log)
		} else {
			handler = turn.NewLongTermAuthHandler(secret, log)
		}
		type cred struct {
			user, realm string
			key         []byte
		}
		var creds []cred
		for i := 0; i < 64; i++ {
			var u, p string
			if kind == "rest" {
				u, p, _ = turn.GenerateLongTermTURNRESTCredentials(secret, fmt.Sprintf("user%d", i), time.Duration(i+1)*time.Hour)
			} else {
				u, p, _ = turn.GenerateLongTermCredentials(secret, time.Duration(i+1)*time.Hour)
			}
			if p != refPassword(secret, u) {
				r.Violate("password", "generated password differs from HMAC-SHA1(secret, username)", map[string]any{"kind": kind, "user": u})

				return
			}
			realm := fmt.Sprintf("realm%d", i%3)
			creds = append(creds, cred{u, realm, ref.LongTermKey(u, realm, p)})
		}
		const workers = 12
		iters := 4000
		if r.Thorough() {
			iters = 60000
		}
		errs := make(chan string, workers)
		done := make(chan struct{})
		for w := 0; w < workers; w++ {
			go func(w int) {
				defer func() {
					if p := recover(); p != nil {
						errs <- fmt.Sprintf("panic in the auth handler under concurrent use: %v", p)
					}
					done <- struct{}{}
				}()
				for i := 0; i < iters; i++ {
					c := creds[(i*7+w*13)%len(creds)]
					_, key, ok := handler(&turn.RequestAttributes{Username: c.user, Realm: c.realm})
					if !ok || !bytes.Equal(key, c.key) {
						errs <- fmt.Sprintf("%s handler under concurrent use: authentic unexpired credential %q answered ok=%v key=%x, expected key %x", kind, c.user, ok, key, c.key)

						return
					}
				}
			}(w)
		}
		for w := 0; w < workers; w++ {
			<-done
		}
		r.Eval(workers * iters)
		r.LabelN("concurrent-authentications:"+kind, workers*iters)
		r.NonTrivial(vkit.Hash64("concurrent", kind, r.Seed))
		r.NonTrivial(vkit.Hash64("concurrent2", kind, r.Seed))
		r.Sample("concurrent", func() any {
			return map[string]any{"handler": kind, "goroutines": workers, "calls_per_goroutine": iters, "distinct_credentials": len(creds)}
		})
		select {
		case e := <-errs:
			if !r.IsKnown("C17.concurrent-use") {
				r.Violate("concurrent-use", e, map[string]any{"kind": kind, "workers": workers, "note": "schedule-dependent: re-run the stage"})
			}

			return
		default:
		}
	}
}
