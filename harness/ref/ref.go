// Package ref holds the reference ("M-codec", "M-framer") implementations the oracles compare
// pion/turn with. It is written from RFC 5389/5766/6062/6156 and shares no code with pion/turn or
// pion/stun: plain big-endian arithmetic on byte slices.
package ref

import (
	"crypto/hmac"
	"crypto/md5"  //nolint:gosec
	"crypto/sha1" //nolint:gosec
	"encoding/binary"
	"errors"
	"hash/crc32"
	"net"
)

// STUN classes.
const (
	ClassRequest    = 0
	ClassIndication = 1
	ClassSuccess    = 2
	ClassError      = 3
)

// STUN / TURN methods.
const (
	MethodBinding           = 0x001
	MethodAllocate          = 0x003
	MethodRefresh           = 0x004
	MethodSend              = 0x006
	MethodData              = 0x007
	MethodCreatePermission  = 0x008
	MethodChannelBind       = 0x009
	MethodConnect           = 0x00a
	MethodConnectionBind    = 0x00b
	MethodConnectionAttempt = 0x00c
)

// Attribute types.
const (
	AttrMappedAddress          = 0x0001
	AttrUsername               = 0x0006
	AttrMessageIntegrity       = 0x0008
	AttrErrorCode              = 0x0009
	AttrUnknownAttributes      = 0x000A
	AttrChannelNumber          = 0x000C
	AttrLifetime               = 0x000D
	AttrXORPeerAddress         = 0x0012
	AttrData                   = 0x0013
	AttrRealm                  = 0x0014
	AttrNonce                  = 0x0015
	AttrXORRelayedAddress      = 0x0016
	AttrRequestedAddressFamily = 0x0017
	AttrEvenPort               = 0x0018
	AttrRequestedTransport     = 0x0019
	AttrDontFragment           = 0x001A
	AttrXORMappedAddress       = 0x0020
	AttrReservationToken       = 0x0022
	AttrConnectionID           = 0x002A
	AttrSoftware               = 0x8022
	AttrFingerprint            = 0x8028
)

// MagicCookie is the fixed STUN cookie.
const MagicCookie = 0x2112A442

// Attr is one TLV.
type Attr struct {
	Type  uint16
	Value []byte
}

// Msg is a decoded STUN message.
type Msg struct {
	Method int
	Class  int
	TxID   [12]byte
	Attrs  []Attr
}

// MsgType composes the 14-bit message type from method and class (RFC 5389 §6).
func MsgType(method, class int) uint16 {
	m := uint16(method)
	a := m & 0x000f
	b := m & 0x0070
	d := m & 0x0f80
	c := uint16(class)
	c0 := (c & 1) << 4
	c1 := (c & 2) << 7

	return a | (b << 1) | (d << 2) | c0 | c1
}

// SplitType is the inverse of MsgType.
func SplitType(t uint16) (method, class int) {
	c0 := (t >> 4) & 1
	c1 := (t >> 8) & 1
	class = int(c0 | c1<<1)
	a := t & 0x000f
	b := (t >> 1) & 0x0070
	d := (t >> 2) & 0x0f80
	method = int(a | b | d)

	return method, class
}

func pad4(n int) int { return (n + 3) &^ 3 }

// Encode serialises the message (no integrity, no fingerprint unless present as attributes).
func (m *Msg) Encode() []byte {
	body := []byte{}
	for _, a := range m.Attrs {
		hdr := make([]byte, 4)
		binary.BigEndian.PutUint16(hdr[0:2], a.Type)
		binary.BigEndian.PutUint16(hdr[2:4], uint16(len(a.Value)))
		body = append(body, hdr...)
		body = append(body, a.Value...)
		for i := len(a.Value); i < pad4(len(a.Value)); i++ {
			body = append(body, 0)
		}
	}
	out := make([]byte, 20, 20+len(body))
	binary.BigEndian.PutUint16(out[0:2], MsgType(m.Method, m.Class))
	binary.BigEndian.PutUint16(out[2:4], uint16(len(body)))
	binary.BigEndian.PutUint32(out[4:8], MagicCookie)
	copy(out[8:20], m.TxID[:])

	return append(out, body...)
}

// ErrMalformed is returned by Parse for anything that is not a well-formed STUN message.
var ErrMalformed = errors.New("ref: malformed STUN message")

// Parse decodes a STUN message strictly.
func Parse(b []byte) (*Msg, error) {
	if len(b) < 20 || b[0]&0xC0 != 0 || binary.BigEndian.Uint32(b[4:8]) != MagicCookie {
		return nil, ErrMalformed
	}
	l := int(binary.BigEndian.Uint16(b[2:4]))
	if l%4 != 0 || len(b) != 20+l {
		return nil, ErrMalformed
	}
	m := &Msg{}
	m.Method, m.Class = SplitType(binary.BigEndian.Uint16(b[0:2]))
	copy(m.TxID[:], b[8:20])
	off := 20
	for off < len(b) {
		if off+4 > len(b) {
			return nil, ErrMalformed
		}
		t := binary.BigEndian.Uint16(b[off : off+2])
		al := int(binary.BigEndian.Uint16(b[off+2 : off+4]))
		off += 4
		if off+pad4(al) > len(b) {
			return nil, ErrMalformed
		}
		m.Attrs = append(m.Attrs, Attr{Type: t, Value: append([]byte{}, b[off:off+al]...)})
		off += pad4(al)
	}

	return m, nil
}

// Get returns the first attribute of type t.
func (m *Msg) Get(t uint16) ([]byte, bool) {
	for _, a := range m.Attrs {
		if a.Type == t {
			return a.Value, true
		}
	}

	return nil, false
}

// GetAll returns all attributes of type t.
func (m *Msg) GetAll(t uint16) [][]byte {
	var out [][]byte
	for _, a := range m.Attrs {
		if a.Type == t {
			out = append(out, a.Value)
		}
	}

	return out
}

// Add appends an attribute.
func (m *Msg) Add(t uint16, v []byte) *Msg {
	m.Attrs = append(m.Attrs, Attr{Type: t, Value: v})

	return m
}

// ErrorCode extracts the ERROR-CODE number (class*100+number), 0 if absent/malformed.
func (m *Msg) ErrorCode() int {
	v, ok := m.Get(AttrErrorCode)
	if !ok || len(v) < 4 {
		return 0
	}

	return int(v[2]&7)*100 + int(v[3])
}

// XorAddr encodes an XOR-*-ADDRESS value.
func XorAddr(ip net.IP, port int, txid [12]byte) []byte {
	key := make([]byte, 16)
	binary.BigEndian.PutUint32(key[0:4], MagicCookie)
	copy(key[4:], txid[:])
	var out []byte
	if ip4 := ip.To4(); ip4 != nil {
		out = make([]byte, 8)
		out[1] = 1
		for i := 0; i < 4; i++ {
			out[4+i] = ip4[i] ^ key[i]
		}
	} else {
		ip16 := ip.To16()
		out = make([]byte, 20)
		out[1] = 2
		for i := 0; i < 16; i++ {
			out[4+i] = ip16[i] ^ key[i]
		}
	}
	binary.BigEndian.PutUint16(out[2:4], uint16(port)^uint16(MagicCookie>>16))

	return out
}

// XorAddrMapped encodes an IPv4 address in its IPv4-mapped, family IPv6 spelling (::ffff:a.b.c.d).
func XorAddrMapped(ip net.IP, port int, txid [12]byte) []byte {
	key := make([]byte, 16)
	binary.BigEndian.PutUint32(key[0:4], MagicCookie)
	copy(key[4:], txid[:])
	ip16 := ip.To16()
	out := make([]byte, 20)
	out[1] = 2
	for i := 0; i < 16; i++ {
		out[4+i] = ip16[i] ^ key[i]
	}
	binary.BigEndian.PutUint16(out[2:4], uint16(port)^uint16(MagicCookie>>16)) //nolint:gosec

	return out
}

// UnxorAddr decodes an XOR-*-ADDRESS value strictly (exact sizes).
func UnxorAddr(v []byte, txid [12]byte) (net.IP, int, error) {
	if len(v) < 4 || v[0] != 0 {
		return nil, 0, ErrMalformed
	}
	key := make([]byte, 16)
	binary.BigEndian.PutUint32(key[0:4], MagicCookie)
	copy(key[4:], txid[:])
	port := int(binary.BigEndian.Uint16(v[2:4]) ^ uint16(MagicCookie>>16))
	switch {
	case v[1] == 1 && len(v) == 8:
		ip := make(net.IP, 4)
		for i := range ip {
			ip[i] = v[4+i] ^ key[i]
		}

		return ip, port, nil
	case v[1] == 2 && len(v) == 20:
		ip := make(net.IP, 16)
		for i := range ip {
			ip[i] = v[4+i] ^ key[i]
		}

		return ip, port, nil
	}

	return nil, 0, ErrMalformed
}

// LongTermKey is MD5(username ":" realm ":" password).
func LongTermKey(user, realm, pass string) []byte {
	s := md5.Sum([]byte(user + ":" + realm + ":" + pass)) //nolint:gosec

	return s[:]
}

// AddIntegrity appends MESSAGE-INTEGRITY computed with key to an encoded message.
func AddIntegrity(raw []byte, key []byte) []byte {
	out := append([]byte{}, raw...)
	// length field covers the integrity attribute itself
	binary.BigEndian.PutUint16(out[2:4], uint16(len(out)-20+24))
	mac := hmac.New(sha1.New, key)
	mac.Write(out)
	sum := mac.Sum(nil)
	hdr := []byte{0x00, 0x08, 0x00, 0x14}
	out = append(out, hdr...)
	out = append(out, sum...)

	return out
}

// CheckIntegrity verifies the MESSAGE-INTEGRITY attribute of raw with key.
func CheckIntegrity(raw []byte, key []byte) bool {
	if len(raw) < 20 {
		return false
	}
	off := 20
	for off+4 <= len(raw) {
		t := binary.BigEndian.Uint16(raw[off : off+2])
		al := int(binary.BigEndian.Uint16(raw[off+2 : off+4]))
		if t == AttrMessageIntegrity {
			if al != 20 || off+4+20 > len(raw) {
				return false
			}
			cp := append([]byte{}, raw[:off]...)
			binary.BigEndian.PutUint16(cp[2:4], uint16(off-20+24))
			mac := hmac.New(sha1.New, key)
			mac.Write(cp)

			return hmac.Equal(mac.Sum(nil), raw[off+4:off+24])
		}
		off += 4 + pad4(al)
	}

	return false
}

// AddFingerprint appends FINGERPRINT to an encoded message.
func AddFingerprint(raw []byte) []byte {
	out := append([]byte{}, raw...)
	binary.BigEndian.PutUint16(out[2:4], uint16(len(out)-20+8))
	c := crc32.ChecksumIEEE(out) ^ 0x5354554e
	tail := make([]byte, 8)
	binary.BigEndian.PutUint16(tail[0:2], AttrFingerprint)
	binary.BigEndian.PutUint16(tail[2:4], 4)
	binary.BigEndian.PutUint32(tail[4:8], c)

	return append(out, tail...)
}

// U32 is a big-endian uint32 value.
func U32(v uint32) []byte {
	b := make([]byte, 4)
	binary.BigEndian.PutUint32(b, v)

	return b
}

// ChannelNumberAttr encodes CHANNEL-NUMBER.
func ChannelNumberAttr(n uint16) []byte {
	b := make([]byte, 4)
	binary.BigEndian.PutUint16(b, n)

	return b
}

// EncodeChannelData builds a ChannelData frame with zero padding to 4 bytes.
func EncodeChannelData(num uint16, data []byte, padded bool) []byte {
	out := make([]byte, 4, 4+pad4(len(data)))
	binary.BigEndian.PutUint16(out[0:2], num)
	binary.BigEndian.PutUint16(out[2:4], uint16(len(data)))
	out = append(out, data...)
	if padded {
		for len(out)%4 != 0 {
			out = append(out, 0)
		}
	}

	return out
}

// DecodeChannelData is the reference decoder: ok iff the number is in 0x4000..0x7FFF and at least
// the declared number of bytes is present; data is exactly the declared bytes.
func DecodeChannelData(b []byte) (num uint16, data []byte, ok bool) {
	if len(b) < 4 {
		return 0, nil, false
	}
	num = binary.BigEndian.Uint16(b[0:2])
	l := int(binary.BigEndian.Uint16(b[2:4]))
	if num < 0x4000 || num > 0x7FFF {
		return num, nil, false
	}
	if l > len(b)-4 {
		return num, nil, false
	}

	return num, b[4 : 4+l], true
}

// ValidChannel reports whether n is in the RFC 5766 channel range.
func ValidChannel(n uint16) bool { return n >= 0x4000 && n <= 0x7FFF }

// FrameKind classifies the start of a stream frame.
type FrameKind int

// Frame kinds.
const (
	FrameNeedMore FrameKind = iota
	FrameSTUN
	FrameChannelData
	FrameInvalid
)

// NextFrame is the reference stream framer (M-framer): given the buffered bytes, report the kind
// and total length of the first frame. The first two bits decide: 00 ⇒ STUN (20 + length),
// 01 ⇒ ChannelData if the number is in 0x4000..0x7FFF (4 + length rounded up to 4).
// complete reports whether the whole frame is present.
func NextFrame(b []byte) (kind FrameKind, size int, complete bool) {
	if len(b) == 0 {
		return FrameNeedMore, 0, false
	}
	switch b[0] & 0xC0 {
	case 0x00:
		if len(b) < 8 {
			// cannot yet see the cookie
			if len(b) >= 4 {
				return FrameSTUN, 20 + int(binary.BigEndian.Uint16(b[2:4])), false
			}

			return FrameNeedMore, 0, false
		}
		if binary.BigEndian.Uint32(b[4:8]) != MagicCookie {
			return FrameInvalid, 0, false
		}
		size = 20 + int(binary.BigEndian.Uint16(b[2:4]))

		return FrameSTUN, size, len(b) >= size
	case 0x40:
		if len(b) < 4 {
			return FrameNeedMore, 0, false
		}
		size = 4 + pad4(int(binary.BigEndian.Uint16(b[2:4])))

		return FrameChannelData, size, len(b) >= size
	default:
		return FrameInvalid, 0, false
	}
}
